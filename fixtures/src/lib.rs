//! E5: positive controls.  One seeded violation per generic detector; the thorough tier
//! analyses this crate with the same driver and the same detector functions and treats a
//! detector that does not fire here as broken machinery (exit 2), never as a pass.
//! Nothing in this crate is ever executed.
#![allow(unused, clippy::all)]

use std::io::{self, Write};

/// R-WRITEALL: the count returned by `write` is dropped.
pub fn fx_write_count_dropped<W: Write>(w: &mut W, s: &str) -> io::Result<()> {
    w.write(s.as_bytes()).map(drop)
}

fn fallible() -> io::Result<u8> {
    Err(io::Error::new(io::ErrorKind::Other, "x"))
}

/// R-ERRDROP: an error-typed value is dropped on a normal path.
pub fn fx_error_dropped() -> u8 {
    let _ = fallible();
    1
}

/// R-ERRDROP: a discarding adaptor.
pub fn fx_error_discarded() -> Option<u8> {
    fallible().ok()
}

/// R-ERRDROP: the Err arm is swallowed.
pub fn fx_error_swallowed() -> io::Result<Option<u8>> {
    match fallible() {
        Ok(b) => Ok(Some(b)),
        Err(_) => Ok(None),
    }
}

/// R-UNCHECKED-SITES: an unchecked conversion.
pub fn fx_unchecked(bytes: &[u8]) -> &str {
    unsafe { std::str::from_utf8_unchecked(bytes) }
}

/// R-PANIC-INV: unwrap, slice index, explicit panic, division.
pub fn fx_panics(v: &[u8], i: usize, o: Option<u8>, d: u32) -> u32 {
    let a = o.unwrap();
    let b = v[i];
    if a == b {
        unreachable!();
    }
    u32::from(a) / d
}

/// guarded index: must be auto-discharged (negative control for the bounds rule).
pub fn fx_guarded_index(v: &[u8], i: usize) -> u8 {
    if i < v.len() {
        v[i]
    } else {
        0
    }
}

/// R-ARITH: unguarded arithmetic.
pub fn fx_overflow(a: u8, b: u8) -> u8 {
    a + b
}
