//! Roots of the monomorphic call-graph walk (engine E2).
//!
//! Every `pub fn` here is non-generic and calls one public operation of
//! lexpr / serde-lexpr with concrete types, so that the driver can start a
//! monomorphic walk from it.  Nothing in this crate is ever executed.
#![allow(deprecated, clippy::all, unused)]

use lexpr::datum::{self, Datum};
use lexpr::parse::{self, IoRead, Options, Parser, SliceRead, StrRead};
use lexpr::{print, Cons, Value};
use serde_derive::{Deserialize, Serialize};
use std::collections::BTreeMap;

// ---------------------------------------------------------------- parsing
pub fn parse_from_str(s: &str) -> parse::Result<Value> { lexpr::from_str(s) }
pub fn parse_from_str_custom(s: &str, o: Options) -> parse::Result<Value> { lexpr::from_str_custom(s, o) }
pub fn parse_from_slice(s: &[u8]) -> parse::Result<Value> { lexpr::from_slice(s) }
pub fn parse_from_slice_custom(s: &[u8], o: Options) -> parse::Result<Value> { lexpr::from_slice_custom(s, o) }
pub fn parse_from_reader(s: &[u8]) -> parse::Result<Value> { lexpr::from_reader(s) }
pub fn parse_from_reader_custom(s: &[u8], o: Options) -> parse::Result<Value> { lexpr::from_reader_custom(s, o) }
pub fn parse_fromstr_trait(s: &str) -> parse::Result<Value> { s.parse::<Value>() }
pub fn datum_from_str(s: &str) -> parse::Result<Datum> { datum::from_str(s) }
pub fn datum_from_str_custom(s: &str, o: Options) -> parse::Result<Datum> { datum::from_str_custom(s, o) }
pub fn datum_from_slice(s: &[u8]) -> parse::Result<Datum> { datum::from_slice(s) }
pub fn datum_from_slice_custom(s: &[u8], o: Options) -> parse::Result<Datum> { datum::from_slice_custom(s, o) }
pub fn datum_from_reader(s: &[u8]) -> parse::Result<Datum> { datum::from_reader(s) }
pub fn datum_from_reader_custom(s: &[u8], o: Options) -> parse::Result<Datum> { datum::from_reader_custom(s, o) }

pub fn parser_str_next_value(p: &mut Parser<StrRead<'_>>) -> parse::Result<Option<Value>> { p.next_value() }
pub fn parser_str_next_datum(p: &mut Parser<StrRead<'_>>) -> parse::Result<Option<Datum>> { p.next_datum() }
pub fn parser_str_expect_value(p: &mut Parser<StrRead<'_>>) -> parse::Result<Value> { p.expect_value() }
pub fn parser_str_expect_datum(p: &mut Parser<StrRead<'_>>) -> parse::Result<Datum> { p.expect_datum() }
pub fn parser_str_expect_end(p: &mut Parser<StrRead<'_>>) -> parse::Result<()> { p.expect_end() }
pub fn parser_str_value_iter(p: &mut Parser<StrRead<'_>>) -> Option<parse::Result<Value>> { p.value_iter().next() }
pub fn parser_str_datum_iter(p: &mut Parser<StrRead<'_>>) -> Option<parse::Result<Datum>> { p.datum_iter().next() }
pub fn parser_str_iterator(p: &mut Parser<StrRead<'_>>) -> Option<parse::Result<Value>> { Iterator::next(p) }

pub fn parser_slice_next_value(p: &mut Parser<SliceRead<'_>>) -> parse::Result<Option<Value>> { p.next_value() }
pub fn parser_slice_next_datum(p: &mut Parser<SliceRead<'_>>) -> parse::Result<Option<Datum>> { p.next_datum() }
pub fn parser_slice_expect_end(p: &mut Parser<SliceRead<'_>>) -> parse::Result<()> { p.expect_end() }
pub fn parser_slice_value_iter(p: &mut Parser<SliceRead<'_>>) -> Option<parse::Result<Value>> { p.value_iter().next() }
pub fn parser_slice_datum_iter(p: &mut Parser<SliceRead<'_>>) -> Option<parse::Result<Datum>> { p.datum_iter().next() }
pub fn parser_slice_iterator(p: &mut Parser<SliceRead<'_>>) -> Option<parse::Result<Value>> { Iterator::next(p) }

pub fn parser_io_next_value(p: &mut Parser<IoRead<&[u8]>>) -> parse::Result<Option<Value>> { p.next_value() }
pub fn parser_io_next_datum(p: &mut Parser<IoRead<&[u8]>>) -> parse::Result<Option<Datum>> { p.next_datum() }
pub fn parser_io_expect_end(p: &mut Parser<IoRead<&[u8]>>) -> parse::Result<()> { p.expect_end() }
pub fn parser_io_value_iter(p: &mut Parser<IoRead<&[u8]>>) -> Option<parse::Result<Value>> { p.value_iter().next() }
pub fn parser_io_datum_iter(p: &mut Parser<IoRead<&[u8]>>) -> Option<parse::Result<Datum>> { p.datum_iter().next() }
pub fn parser_io_iterator(p: &mut Parser<IoRead<&[u8]>>) -> Option<parse::Result<Value>> { Iterator::next(p) }

// --------------------------------------------------------------- printing
pub fn print_to_string(v: &Value) -> std::io::Result<String> { lexpr::to_string(v) }
pub fn print_to_string_custom(v: &Value, o: print::Options) -> std::io::Result<String> { lexpr::to_string_custom(v, o) }
pub fn print_to_vec(v: &Value) -> std::io::Result<Vec<u8>> { lexpr::to_vec(v) }
pub fn print_to_vec_custom(v: &Value, o: print::Options) -> std::io::Result<Vec<u8>> { lexpr::to_vec_custom(v, o) }
pub fn print_to_writer(w: &mut Vec<u8>, v: &Value) -> std::io::Result<()> { lexpr::to_writer(w, v) }
pub fn print_to_writer_custom(w: &mut Vec<u8>, v: &Value, o: print::Options) -> std::io::Result<()> { lexpr::to_writer_custom(w, v, o) }
pub fn print_display(v: &Value) -> String { format!("{}", v) }
pub fn print_debug(v: &Value) -> String { format!("{:?}", v) }

// ------------------------------------------------------- value operations
pub fn value_clone(v: &Value) -> Value { v.clone() }
pub fn value_eq(a: &Value, b: &Value) -> bool { a == b }
pub fn value_drop(v: Value) { drop(v) }
pub fn value_to_vec(v: &Value) -> Option<Vec<Value>> { v.to_vec() }
pub fn value_to_ref_vec(v: &Value) -> Option<Vec<&Value>> { v.to_ref_vec() }
pub fn value_list_iter(v: &Value) -> usize { v.list_iter().map(|i| i.count()).unwrap_or(0) }
pub fn value_is_list(v: &Value) -> bool { v.is_list() }
pub fn value_is_dotted_list(v: &Value) -> bool { v.is_dotted_list() }
pub fn value_get_usize(v: &Value, i: usize) -> Option<&Value> { v.get(i) }
pub fn value_get_str<'a>(v: &'a Value, k: &str) -> Option<&'a Value> { v.get(k) }
pub fn value_get_string<'a>(v: &'a Value, k: &String) -> Option<&'a Value> { v.get(k) }
pub fn value_get_value<'a>(v: &'a Value, k: &Value) -> Option<&'a Value> { v.get(k) }
pub fn value_index_usize(v: &Value, i: usize) -> &Value { &v[i] }
pub fn value_index_str<'a>(v: &'a Value, k: &str) -> &'a Value { &v[k] }
pub fn value_index_value<'a>(v: &'a Value, k: &Value) -> &'a Value { &v[k] }
pub fn value_list(v: Vec<Value>) -> Value { Value::list(v) }
pub fn value_append(v: Vec<Value>, t: Value) -> Value { Value::append(v, t) }
pub fn value_vector(v: Vec<Value>) -> Value { Value::vector(v) }
pub fn value_cons(a: Value, b: Value) -> Value { Value::cons(a, b) }

pub fn cons_iter(c: &Cons) -> usize { c.iter().count() }
pub fn cons_ref_into_iter(c: &Cons) -> usize { c.into_iter().count() }
pub fn cons_into_iter(c: Cons) -> usize { c.into_iter().count() }
pub fn cons_into_vec(c: Cons) -> (Vec<Value>, Value) { c.into_vec() }
pub fn cons_to_vec(c: &Cons) -> (Vec<Value>, Value) { c.to_vec() }
pub fn cons_to_ref_vec(c: &Cons) -> (Vec<&Value>, &Value) { c.to_ref_vec() }
pub fn cons_list_iter(c: &Cons) -> usize { c.list_iter().count() }
pub fn cons_clone(c: &Cons) -> Cons { c.clone() }
pub fn cons_eq(a: &Cons, b: &Cons) -> bool { a == b }
pub fn cons_drop(c: Cons) { drop(c) }
pub fn cons_into_pair(c: Cons) -> (Value, Value) { c.into_pair() }
pub fn cons_debug(c: &Cons) -> String { format!("{:?}", c) }

pub fn datum_clone(d: &Datum) -> Datum { d.clone() }
pub fn datum_eq(a: &Datum, b: &Datum) -> bool { a == b }
pub fn datum_drop(d: Datum) { drop(d) }
pub fn datum_list_iter(d: &Datum) -> usize { d.list_iter().map(|i| i.count()).unwrap_or(0) }
pub fn datum_vector_iter(d: &Datum) -> usize { d.vector_iter().map(|i| i.count()).unwrap_or(0) }
pub fn datum_ref_as_pair(d: &Datum) -> bool { d.as_ref().as_pair().is_some() }
pub fn datum_ref_list_iter(d: &Datum) -> usize { d.as_ref().list_iter().map(|i| i.count()).unwrap_or(0) }
pub fn datum_from_ref(d: &Datum) -> Datum { Datum::from(d.as_ref()) }
pub fn datum_into_value(d: Datum) -> Value { Value::from(d) }
pub fn datum_debug(d: &Datum) -> String { format!("{:?}", d) }

// ------------------------------------------------------------------ serde
#[derive(Serialize, Deserialize, PartialEq, Debug, Clone)]
pub struct Point { pub x: i32, pub y: Option<u8>, pub name: String, pub unit: () }

#[derive(Serialize, Deserialize, PartialEq, Debug, Clone)]
pub struct Newtype(pub u16);

#[derive(Serialize, Deserialize, PartialEq, Debug, Clone)]
pub struct TupleStruct(pub i8, pub char, pub f32);

#[derive(Serialize, Deserialize, PartialEq, Debug, Clone)]
pub struct UnitStruct;

#[derive(Serialize, Deserialize, PartialEq, Debug, Clone)]
pub enum Shape {
    Unit,
    New(Vec<u32>),
    Tuple(i64, f64),
    Struct { a: bool, b: Box<Shape> },
}

/// A self-describing visitor type: drives `deserialize_any`.
#[derive(PartialEq, Debug, Clone)]
pub enum Any {
    Unit,
    Bool(bool),
    I(i64),
    U(u64),
    F(f64),
    C(char),
    S(String),
    B(Vec<u8>),
    Seq(Vec<Any>),
    Map(Vec<(Any, Any)>),
}

impl<'de> serde::Deserialize<'de> for Any {
    fn deserialize<D: serde::Deserializer<'de>>(d: D) -> Result<Any, D::Error> {
        struct V;
        impl<'de> serde::de::Visitor<'de> for V {
            type Value = Any;
            fn expecting(&self, f: &mut std::fmt::Formatter<'_>) -> std::fmt::Result { f.write_str("anything") }
            fn visit_unit<E>(self) -> Result<Any, E> { Ok(Any::Unit) }
            fn visit_bool<E>(self, v: bool) -> Result<Any, E> { Ok(Any::Bool(v)) }
            fn visit_i64<E>(self, v: i64) -> Result<Any, E> { Ok(Any::I(v)) }
            fn visit_u64<E>(self, v: u64) -> Result<Any, E> { Ok(Any::U(v)) }
            fn visit_f64<E>(self, v: f64) -> Result<Any, E> { Ok(Any::F(v)) }
            fn visit_char<E>(self, v: char) -> Result<Any, E> { Ok(Any::C(v)) }
            fn visit_str<E>(self, v: &str) -> Result<Any, E> { Ok(Any::S(v.to_string())) }
            fn visit_bytes<E>(self, v: &[u8]) -> Result<Any, E> { Ok(Any::B(v.to_vec())) }
            fn visit_none<E>(self) -> Result<Any, E> { Ok(Any::Unit) }
            fn visit_some<D2: serde::Deserializer<'de>>(self, d: D2) -> Result<Any, D2::Error> {
                serde::Deserialize::deserialize(d)
            }
            fn visit_seq<A: serde::de::SeqAccess<'de>>(self, mut a: A) -> Result<Any, A::Error> {
                let mut v = Vec::new();
                while let Some(x) = a.next_element()? { v.push(x); }
                Ok(Any::Seq(v))
            }
            fn visit_map<A: serde::de::MapAccess<'de>>(self, mut a: A) -> Result<Any, A::Error> {
                let mut v = Vec::new();
                while let Some(kv) = a.next_entry()? { v.push(kv); }
                Ok(Any::Map(v))
            }
        }
        d.deserialize_any(V)
    }
}

type SR<T> = serde_lexpr::Result<T>;

pub fn serde_to_value_vec(v: &Vec<u32>) -> SR<Value> { serde_lexpr::to_value(v) }
pub fn serde_to_value_map(v: &BTreeMap<String, i64>) -> SR<Value> { serde_lexpr::to_value(v) }
pub fn serde_to_value_struct(v: &Point) -> SR<Value> { serde_lexpr::to_value(v) }
pub fn serde_to_value_enum(v: &Shape) -> SR<Value> { serde_lexpr::to_value(v) }
pub fn serde_to_value_tuple(v: &(u8, String, Option<Vec<i16>>)) -> SR<Value> { serde_lexpr::to_value(v) }
pub fn serde_to_value_newtype(v: &Newtype) -> SR<Value> { serde_lexpr::to_value(v) }
pub fn serde_to_value_tuple_struct(v: &TupleStruct) -> SR<Value> { serde_lexpr::to_value(v) }
pub fn serde_to_value_unit_struct(v: &UnitStruct) -> SR<Value> { serde_lexpr::to_value(v) }

pub fn serde_from_value_vec(v: &Value) -> SR<Vec<u32>> { serde_lexpr::from_value(v) }
pub fn serde_from_value_map(v: &Value) -> SR<BTreeMap<String, i64>> { serde_lexpr::from_value(v) }
pub fn serde_from_value_struct(v: &Value) -> SR<Point> { serde_lexpr::from_value(v) }
pub fn serde_from_value_enum(v: &Value) -> SR<Shape> { serde_lexpr::from_value(v) }
pub fn serde_from_value_tuple(v: &Value) -> SR<(u8, String, Option<Vec<i16>>)> { serde_lexpr::from_value(v) }
pub fn serde_from_value_newtype(v: &Value) -> SR<Newtype> { serde_lexpr::from_value(v) }
pub fn serde_from_value_tuple_struct(v: &Value) -> SR<TupleStruct> { serde_lexpr::from_value(v) }
pub fn serde_from_value_unit_struct(v: &Value) -> SR<UnitStruct> { serde_lexpr::from_value(v) }
pub fn serde_from_value_any(v: &Value) -> SR<Any> { serde_lexpr::from_value(v) }
pub fn serde_from_value_string(v: &Value) -> SR<String> { serde_lexpr::from_value(v) }
pub fn serde_from_value_bytes(v: &Value) -> SR<Vec<u8>> { serde_lexpr::from_value(v) }

pub fn serde_from_str(s: &str) -> SR<Point> { serde_lexpr::from_str(s) }
pub fn serde_from_slice(s: &[u8]) -> SR<Shape> { serde_lexpr::from_slice(s) }
pub fn serde_from_reader(s: &[u8]) -> SR<Vec<u32>> { serde_lexpr::from_reader(s) }
pub fn serde_to_string(v: &Shape) -> SR<String> { serde_lexpr::to_string(v) }
pub fn serde_to_vec(v: &Point) -> SR<Vec<u8>> { serde_lexpr::to_vec(v) }
pub fn serde_to_writer(w: &mut Vec<u8>, v: &Vec<u32>) -> SR<()> { serde_lexpr::to_writer(w, v) }
