#!/usr/bin/env python3
"""Generate /verif/MANIFEST.json from rules/claims.py (single source of truth)."""
import json
import os
import sys

HERE = os.path.dirname(os.path.dirname(os.path.abspath(__file__)))
sys.path.insert(0, HERE)
from rules import claims  # noqa: E402

props = [json.loads(l)["id"] for l in open(os.path.join(HERE, "properties.jsonl"))]
kf = json.load(open(os.path.join(HERE, "known_findings.json")))

checks = []
na = []
for p in props:
    c = claims.CLAIMS.get(p)
    if c is None or not os.path.exists(os.path.join(HERE, "rules", "props", p.lower() + ".py")):
        na.append({"property_id": p, "reason": claims.NOT_APPLICABLE.get(p, "no sound static rule built (see DESIGN.md)")})
        continue
    checks.append({
        "property_id": p,
        "quick_cmd": "./check %s --tier quick" % p,
        "thorough_cmd": "./check %s --tier thorough" % p,
        "evidence_file": "/verif/evidence/%s.json" % p,
        "replay_cmd_template": "./check %s --replay {path}" % p,
        "engine": "mirfacts+rules",
        "level_claimed": {"category": "other", "text": c["text"], "design_ref": c.get("design_ref", "DESIGN.md section 4, " + p)},
        "level_note": c["note"],
        "technique": c["technique"],
    })

commits = sorted({f["commit"] for f in kf.get("fixed", []) if f.get("commit")})
m = {
    "version": 1,
    "setup_cmd": "./setup.sh",
    "hooks": {
        "guard": "lexpr_verif",
        "enable": "none needed: the analysis reads the ordinary `cargo +nightly check` build through RUSTC_WORKSPACE_WRAPPER; "
                  "no hook or instrumentation exists in /repo (the cfg name is reserved and unused)",
        "baseline_off_cmd": "cd /repo && cargo test --workspace --no-fail-fast --offline",
        "source_commits": commits,
        "add_only": True,
    },
    "engines": [
        {"name": "mirfacts", "path": "tools/mirfacts", "serves_properties": [c["property_id"] for c in checks],
         "kind_free_text": "rustc_private driver (nightly) injected via RUSTC_WORKSPACE_WRAPPER: dumps type-checked MIR, "
                           "ADT layouts, static initialisers and a monomorphic call graph as JSON"},
        {"name": "rules", "path": "rules", "serves_properties": [c["property_id"] for c in checks],
         "kind_free_text": "python3 rule engine over the MIR facts: dominators, call-graph SCCs, def-use/taint, sparse "
                           "conditional constant propagation over one injected byte, variant-map extraction; frozen "
                           "exception tables under tables/"},
    ],
    "checks": checks,
    "not_applicable": na,
    "notes": claims.NOTES,
}
with open(os.path.join(HERE, "MANIFEST.json"), "w") as fh:
    json.dump(m, fh, indent=1)
print("MANIFEST.json: %d checks, %d not_applicable" % (len(checks), len(na)))
