//! Monomorphic whole-program call graph walk starting at the non-generic pub fns
//! of the local crate ("roots").

use crate::json::J;
use crate::poly::{dp_str, path_str, ty_str};
use rustc_hir::def::DefKind;
use rustc_middle::mir::{Operand, TerminatorKind};
use rustc_middle::ty::print::with_no_trimmed_paths;
use rustc_middle::ty::{self, EarlyBinder, Instance, InstanceKind, TyCtxt, TypingEnv};
use std::collections::{HashMap, VecDeque};

fn inst_str<'tcx>(inst: Instance<'tcx>) -> String {
    with_no_trimmed_paths!(format!("{}", inst))
}

fn kind_str(k: &InstanceKind<'_>) -> &'static str {
    match k {
        InstanceKind::Item(_) => "item",
        InstanceKind::Intrinsic(_) => "intrinsic",
        InstanceKind::VTableShim(_) => "vtable-shim",
        InstanceKind::ReifyShim(..) => "reify-shim",
        InstanceKind::FnPtrShim(..) => "fnptr-shim",
        InstanceKind::Virtual(..) => "virtual",
        InstanceKind::ClosureOnceShim { .. } => "closure-once-shim",
        InstanceKind::DropGlue(..) => "drop-glue",
        InstanceKind::CloneShim(..) => "clone-shim",
        _ => "other-shim",
    }
}

pub fn walk<'tcx>(tcx: TyCtxt<'tcx>, local: &[String]) -> J {
    let env = TypingEnv::fully_monomorphized();
    let is_local_crate = |cn: rustc_span::def_id::CrateNum| -> bool {
        let n = tcx.crate_name(cn).to_string();
        local.iter().any(|l| *l == n)
    };
    let mentions_local = |s: &str| -> bool {
        local.iter().any(|l| {
            let pat = format!("{}::", l);
            s.contains(&pat)
        })
    };

    let mut ids: HashMap<Instance<'tcx>, usize> = HashMap::new();
    let mut nodes: Vec<J> = Vec::new();
    let mut edges: Vec<J> = Vec::new();
    let mut queue: VecDeque<Instance<'tcx>> = VecDeque::new();
    let mut roots: Vec<J> = Vec::new();

    let mut intern = |inst: Instance<'tcx>,
                      nodes: &mut Vec<J>,
                      queue: &mut VecDeque<Instance<'tcx>>|
     -> usize {
        if let Some(i) = ids.get(&inst) {
            return *i;
        }
        let i = nodes.len();
        ids.insert(inst, i);
        let did = inst.def_id();
        let s = inst_str(inst);
        let mut n = J::obj();
        n.set("id", J::Int(i as i128));
        n.set("inst", J::s(s.clone()));
        n.set("kind", J::s(kind_str(&inst.def)));
        n.set("def", J::s(path_str(tcx, did)));
        n.set("dp", J::s(dp_str(tcx, did)));
        n.set("crate", J::s(tcx.crate_name(did.krate).to_string()));
        let mut ga = Vec::new();
        for a in inst.args.iter() {
            ga.push(J::s(with_no_trimmed_paths!(a.to_string())));
        }
        n.set("substs", J::Arr(ga));
        if let InstanceKind::DropGlue(_, Some(t)) = inst.def {
            n.set("drop_ty", J::s(ty_str(t)));
        }
        if let InstanceKind::CloneShim(_, t) = inst.def {
            n.set("clone_ty", J::s(ty_str(t)));
        }
        let local_def = is_local_crate(did.krate);
        n.set("local", J::Bool(local_def));
        let walk_it = match inst.def {
            InstanceKind::Intrinsic(_) | InstanceKind::Virtual(..) => false,
            InstanceKind::Item(d) => {
                (local_def || mentions_local(&s)) && tcx.is_mir_available(d)
            }
            InstanceKind::DropGlue(_, None) => false,
            _ => local_def || mentions_local(&s),
        };
        n.set("walked", J::Bool(walk_it));
        nodes.push(n);
        if walk_it {
            queue.push_back(inst);
        }
        i
    };

    // roots: every non-generic fn of the local crate
    for ldid in tcx.hir_body_owners() {
        if tcx.def_kind(ldid) != DefKind::Fn {
            continue;
        }
        let did = ldid.to_def_id();
        if tcx.generics_of(did).requires_monomorphization(tcx) {
            continue;
        }
        let inst = Instance::mono(tcx, did);
        let i = intern(inst, &mut nodes, &mut queue);
        roots.push(J::Int(i as i128));
    }

    while let Some(inst) = queue.pop_front() {
        let from = *ids_get(&mut intern, inst, &mut nodes, &mut queue);
        let body = tcx.instance_mir(inst.def);
        for (bb, data) in body.basic_blocks.iter_enumerated() {
            if data.is_cleanup {
                continue;
            }
            let term = data.terminator();
            match &term.kind {
                TerminatorKind::Call { func, args, .. } => {
                    let fty = func.ty(body, tcx);
                    let fty = inst.instantiate_mir_and_normalize_erasing_regions(
                        tcx,
                        env,
                        EarlyBinder::bind(fty),
                    );
                    let mut e = J::obj();
                    e.set("from", J::Int(from as i128));
                    e.set("bb", J::Int(bb.as_u32() as i128));
                    match fty.kind() {
                        ty::FnDef(did, gargs) => {
                            match Instance::try_resolve(tcx, env, *did, gargs) {
                                Ok(Some(callee)) => {
                                    let to = intern(callee, &mut nodes, &mut queue);
                                    e.set("to", J::Int(to as i128));
                                    e.set("k", J::s("call"));
                                }
                                _ => {
                                    e.set("k", J::s("unresolved"));
                                    e.set("callee", J::s(path_str(tcx, *did)));
                                }
                            }
                        }
                        _ => {
                            e.set("k", J::s("indirect"));
                            e.set("ty", J::s(ty_str(fty)));
                        }
                    }
                    // function items passed as arguments (reified) are also potential callees
                    for a in args.iter() {
                        if let Operand::Constant(c) = &a.node {
                            let aty = inst.instantiate_mir_and_normalize_erasing_regions(
                                tcx,
                                env,
                                EarlyBinder::bind(c.const_.ty()),
                            );
                            if let ty::FnDef(did, gargs) = aty.kind() {
                                if let Ok(Some(callee)) = Instance::try_resolve(tcx, env, *did, gargs) {
                                    let to = intern(callee, &mut nodes, &mut queue);
                                    let mut e2 = J::obj();
                                    e2.set("from", J::Int(from as i128));
                                    e2.set("bb", J::Int(bb.as_u32() as i128));
                                    e2.set("to", J::Int(to as i128));
                                    e2.set("k", J::s("fnarg"));
                                    edges.push(e2);
                                }
                            }
                        }
                    }
                    edges.push(e);
                }
                TerminatorKind::Drop { place, .. } => {
                    let pty = place.ty(body, tcx).ty;
                    let pty = inst.instantiate_mir_and_normalize_erasing_regions(
                        tcx,
                        env,
                        EarlyBinder::bind(pty),
                    );
                    let callee = Instance::resolve_drop_in_place(tcx, pty);
                    if let InstanceKind::DropGlue(_, None) = callee.def {
                        continue;
                    }
                    let to = intern(callee, &mut nodes, &mut queue);
                    let mut e = J::obj();
                    e.set("from", J::Int(from as i128));
                    e.set("bb", J::Int(bb.as_u32() as i128));
                    e.set("to", J::Int(to as i128));
                    e.set("k", J::s("drop"));
                    edges.push(e);
                }
                _ => {}
            }
        }
    }

    let mut g = J::obj();
    g.set("roots", J::Arr(roots));
    g.set("nodes", J::Arr(nodes));
    g.set("edges", J::Arr(edges));
    g
}

fn ids_get<'a, 'tcx, F>(
    intern: &mut F,
    inst: Instance<'tcx>,
    nodes: &mut Vec<J>,
    queue: &mut VecDeque<Instance<'tcx>>,
) -> Box<usize>
where
    F: FnMut(Instance<'tcx>, &mut Vec<J>, &mut VecDeque<Instance<'tcx>>) -> usize,
{
    Box::new(intern(inst, nodes, queue))
}
