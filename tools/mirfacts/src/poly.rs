//! Polymorphic (per-definition) MIR fact dump.

use crate::json::J;
use rustc_hir::def::DefKind;
use rustc_hir::def_id::{DefId, LocalDefId};
use rustc_middle::mir::interpret::{GlobalAlloc, Scalar};
use rustc_middle::mir::{
    self, AggregateKind, BasicBlockData, Body, Const, ConstValue, Operand, Place, PlaceElem,
    Rvalue, StatementKind, TerminatorKind, VarDebugInfoContents,
};
use rustc_middle::ty::print::with_no_trimmed_paths;
use rustc_middle::ty::{self, Instance, Ty, TyCtxt, TypingEnv};
use rustc_span::Span;

pub struct Cx<'tcx> {
    pub tcx: TyCtxt<'tcx>,
    pub krate: String,
}

pub fn ty_str<'tcx>(ty: Ty<'tcx>) -> String {
    with_no_trimmed_paths!(ty.to_string())
}

/// Crate-qualified definition path that is identical no matter which crate prints it.
pub fn dp_str<'tcx>(tcx: TyCtxt<'tcx>, did: DefId) -> String {
    format!("{}{}", tcx.crate_name(did.krate), tcx.def_path(did).to_string_no_crate_verbose())
}

pub fn path_str<'tcx>(tcx: TyCtxt<'tcx>, did: DefId) -> String {
    with_no_trimmed_paths!(tcx.def_path_str(did))
}

fn is_fn_like(k: DefKind) -> bool {
    matches!(k, DefKind::Fn | DefKind::AssocFn | DefKind::Closure)
}

pub fn dump<'tcx>(tcx: TyCtxt<'tcx>, krate: &str, config: &str) -> J {
    let cx = Cx { tcx, krate: krate.to_string() };
    let mut root = J::obj();
    root.set("crate", J::s(krate));
    root.set("config", J::s(config));

    // ADTs
    let mut adts = J::obj();
    for ldid in tcx.hir_crate_items(()).definitions() {
        let k = tcx.def_kind(ldid);
        if matches!(k, DefKind::Struct | DefKind::Enum) {
            let did = ldid.to_def_id();
            adts.set(&path_str(tcx, did), cx.adt(did));
        }
    }
    root.set("adts", adts);

    // statics
    let mut statics = J::obj();
    for ldid in tcx.hir_crate_items(()).definitions() {
        if let DefKind::Static { .. } = tcx.def_kind(ldid) {
            let did = ldid.to_def_id();
            statics.set(&path_str(tcx, did), cx.static_init(did));
        }
    }
    root.set("statics", statics);

    // functions
    let mut fns = Vec::new();
    for ldid in tcx.hir_body_owners() {
        let k = tcx.def_kind(ldid);
        if !is_fn_like(k) {
            continue;
        }
        fns.push(cx.func(ldid, k));
    }
    root.set("fns", J::Arr(fns));

    // small foreign enums that appear as the type of a local (e.g. proc_macro2::Spacing): variant names and
    // discriminants, so that rules can name their variants instead of trusting an index
    let mut ext = J::obj();
    let mut seen: Vec<DefId> = Vec::new();
    for ldid in tcx.hir_body_owners() {
        if !is_fn_like(tcx.def_kind(ldid)) || !tcx.is_mir_available(ldid.to_def_id()) {
            continue;
        }
        let body = tcx.instance_mir(ty::InstanceKind::Item(ldid.to_def_id()));
        for decl in body.local_decls.iter() {
            let mut ty = decl.ty;
            while let ty::Ref(_, inner, _) = ty.kind() {
                ty = *inner;
            }
            if let ty::Adt(adt, _) = ty.kind() {
                let did = adt.did();
                if did.is_local() || !adt.is_enum() || adt.variants().len() > 16 || seen.contains(&did) {
                    continue;
                }
                seen.push(did);
                ext.set(&path_str(tcx, did), cx.adt(did));
            }
        }
    }
    root.set("ext_adts", ext);
    root
}

impl<'tcx> Cx<'tcx> {
    fn adt(&self, did: DefId) -> J {
        let tcx = self.tcx;
        let adt = tcx.adt_def(did);
        let mut o = J::obj();
        o.set("kind", J::s(if adt.is_enum() { "enum" } else { "struct" }));
        let mut vs = Vec::new();
        for (vi, v) in adt.variants().iter_enumerated() {
            let mut vo = J::obj();
            vo.set("name", J::s(v.name.to_string()));
            vo.set("idx", J::Int(vi.as_u32() as i128));
            if adt.is_enum() {
                let d = adt.discriminant_for_variant(tcx, vi);
                vo.set("discr", J::Int(d.val as i128));
            }
            let mut fs = Vec::new();
            for f in v.fields.iter() {
                let mut fo = J::obj();
                fo.set("name", J::s(f.name.to_string()));
                let fty = tcx.type_of(f.did).instantiate_identity().skip_norm_wip();
                fo.set("ty", J::s(ty_str(fty)));
                if f.vis.is_public() {
                    fo.set("pub", J::Bool(true));
                }
                fs.push(fo);
            }
            vo.set("fields", J::Arr(fs));
            vs.push(vo);
        }
        o.set("variants", J::Arr(vs));
        o
    }

    /// Value of type `ty` stored at `off` in `alloc`, decoded through the type's layout: integers, bool, char,
    /// arrays, tuples, and references to byte / str slices (followed into their allocation).  None for anything else.
    fn decode_value(
        &self,
        alloc: &rustc_middle::mir::interpret::Allocation,
        off: usize,
        ty: Ty<'tcx>,
        depth: usize,
    ) -> Option<J> {
        let tcx = self.tcx;
        if depth > 4 {
            return None;
        }
        let env = TypingEnv::fully_monomorphized();
        let layout = tcx.layout_of(env.as_query_input(ty)).ok()?;
        let size = layout.size.bytes_usize();
        if off + size > alloc.len() {
            return None;
        }
        let raw = alloc.inspect_with_uninit_and_ptr_outside_interpreter(off..off + size);
        let int_of = |b: &[u8], signed: bool| -> i128 {
            let mut v: u128 = 0;
            for (k, x) in b.iter().enumerate().take(16) {
                v |= (*x as u128) << (8 * k);
            }
            if signed && b.len() < 16 {
                let sh = 128 - 8 * b.len() as u32;
                ((v << sh) as i128) >> sh
            } else {
                v as i128
            }
        };
        match ty.kind() {
            ty::Bool | ty::Char | ty::Uint(_) => {
                let mut o = J::obj();
                o.set("int", J::Int(int_of(raw, false)));
                Some(o)
            }
            ty::Int(_) => {
                let mut o = J::obj();
                o.set("int", J::Int(int_of(raw, true)));
                Some(o)
            }
            ty::Adt(adt, _) if adt.is_enum() && adt.variants().iter().all(|v| v.fields.is_empty()) && size > 0 && size <= 8 => {
                // a field-less enum (a byte class, a syntax selector): the variant whose discriminant is stored
                let tag = int_of(raw, false) as u128;
                let mut hit: Option<(usize, String)> = None;
                for (vi, d) in adt.discriminants(tcx) {
                    let mask: u128 = if size >= 16 { u128::MAX } else { (1u128 << (8 * size)) - 1 };
                    if (d.val & mask) == tag {
                        hit = Some((vi.as_usize(), adt.variant(vi).name.to_string()));
                    }
                }
                let (vi, name) = hit?;
                let mut o = J::obj();
                o.set("enum", J::s(path_str(tcx, adt.did())));
                o.set("variant", J::Int(vi as i128));
                o.set("vname", J::s(name));
                Some(o)
            }
            ty::Adt(adt, args) if adt.is_struct() && adt.all_fields().count() == 1 => {
                // a newtype: the value inside
                let f = adt.non_enum_variant().fields.iter().next().unwrap();
                self.decode_value(alloc, off + layout.fields.offset(0).bytes_usize(), f.ty(tcx, args), depth + 1)
            }
            ty::Array(elem, _) => {
                let el = tcx.layout_of(env.as_query_input(*elem)).ok()?;
                let es = el.size.bytes_usize();
                if es == 0 || size / es > 4096 {
                    return None;
                }
                let mut items = Vec::new();
                for i in 0..(size / es) {
                    items.push(self.decode_value(alloc, off + i * es, *elem, depth + 1)?);
                }
                let mut o = J::obj();
                o.set("array", J::Arr(items));
                Some(o)
            }
            ty::Tuple(tys) => {
                let mut items = Vec::new();
                for (i, t) in tys.iter().enumerate() {
                    let fo = layout.fields.offset(i).bytes_usize();
                    items.push(self.decode_value(alloc, off + fo, t, depth + 1)?);
                }
                let mut o = J::obj();
                o.set("tuple", J::Arr(items));
                Some(o)
            }
            ty::Ref(_, inner, _) if inner.is_str() || matches!(inner.kind(), ty::Slice(t) if t.is_integral()) => {
                // fat pointer: (address, length); the address carries provenance into another allocation
                let (poff, prov) = alloc
                    .provenance()
                    .ptrs()
                    .iter()
                    .map(|(o, p)| (o.bytes_usize(), *p))
                    .find(|(o, _)| *o == off)?;
                let _ = poff;
                let addend = int_of(&raw[0..8], false) as usize;
                let len = int_of(&raw[8..16], false) as usize;
                if let GlobalAlloc::Memory(m) = tcx.global_alloc(prov.alloc_id()) {
                    let m = m.inner();
                    let esz = match inner.kind() {
                        ty::Slice(t) => tcx.layout_of(env.as_query_input(*t)).ok()?.size.bytes_usize(),
                        _ => 1,
                    };
                    if esz != 1 || addend + len > m.len() {
                        return None;
                    }
                    let bytes = m.inspect_with_uninit_and_ptr_outside_interpreter(addend..addend + len);
                    let mut o = J::obj();
                    o.set("bytes", J::Arr(bytes.iter().map(|b| J::Int(*b as i128)).collect()));
                    return Some(o);
                }
                None
            }
            _ => None,
        }
    }

    fn static_init(&self, did: DefId) -> J {
        let tcx = self.tcx;
        let mut o = J::obj();
        let ty = tcx.type_of(did).instantiate_identity().skip_norm_wip();
        o.set("ty", J::s(ty_str(ty)));
        if let Ok(alloc) = tcx.eval_static_initializer(did) {
            let a = alloc.inner();
            let len = a.len();
            if !a.provenance().ptrs().is_empty()
                || matches!(ty.kind(), ty::Array(t, _) if matches!(t.kind(), ty::Tuple(_) | ty::Adt(..)))
            {
                if let Some(v) = self.decode_value(a, 0, ty, 0) {
                    o.set("value", v);
                }
            }
            let ptrs: Vec<_> = a.provenance().ptrs().iter().map(|(off, p)| (*off, *p)).collect();
            if ptrs.is_empty() {
                let bytes = a.inspect_with_uninit_and_ptr_outside_interpreter(0..len);
                o.set("bytes", J::Arr(bytes.iter().map(|b| J::Int(*b as i128)).collect()));
            } else if ptrs.len() > 1 {
                // e.g. `static NAMES: [&[u8]; N]`: every pointer with its offset in this allocation, the offset it
                // points at in its target and the target's bytes; the consumer pairs it with the length word that
                // follows a fat pointer
                let raw = a.inspect_with_uninit_and_ptr_outside_interpreter(0..len);
                o.set("bytes", J::Arr(raw.iter().map(|b| J::Int(*b as i128)).collect()));
                let mut ps = Vec::new();
                for (off, prov) in ptrs.iter() {
                    let mut po = J::obj();
                    po.set("off", J::Int(off.bytes() as i128));
                    if let GlobalAlloc::Memory(m) = tcx.global_alloc(prov.alloc_id()) {
                        let m = m.inner();
                        if m.provenance().ptrs().is_empty() {
                            let bytes = m.inspect_with_uninit_and_ptr_outside_interpreter(0..m.len());
                            po.set("target_bytes", J::Arr(bytes.iter().map(|b| J::Int(*b as i128)).collect()));
                        }
                    }
                    ps.push(po);
                }
                o.set("ptrs", J::Arr(ps));
            } else if ptrs.len() == 1 {
                // e.g. `static X: &[u8] = b"..."`: follow the single pointer
                let (_, prov) = ptrs[0];
                if let GlobalAlloc::Memory(m) = tcx.global_alloc(prov.alloc_id()) {
                    let m = m.inner();
                    if m.provenance().ptrs().is_empty() {
                        let bytes = m.inspect_with_uninit_and_ptr_outside_interpreter(0..m.len());
                        o.set(
                            "target_bytes",
                            J::Arr(bytes.iter().map(|b| J::Int(*b as i128)).collect()),
                        );
                    }
                }
            }
        }
        o
    }

    fn span_line(&self, sp: Span) -> (String, usize, usize) {
        let sm = self.tcx.sess.source_map();
        // use the outermost call site so macro-expanded code points into the crate
        let sp = sp.source_callsite();
        let lo = sm.lookup_char_pos(sp.lo());
        let hi = sm.lookup_char_pos(sp.hi());
        let file = match &lo.file.name {
            rustc_span::FileName::Real(r) => match r.local_path() {
                Some(p) => p.to_string_lossy().to_string(),
                None => format!("{:?}", lo.file.name),
            },
            other => format!("{:?}", other),
        };
        (file, lo.line, hi.line)
    }

    fn func(&self, ldid: LocalDefId, kind: DefKind) -> J {
        let tcx = self.tcx;
        let did = ldid.to_def_id();
        let mut o = J::obj();
        o.set("path", J::s(path_str(tcx, did)));
        o.set("dp", J::s(dp_str(tcx, did)));
        o.set(
            "kind",
            J::s(match kind {
                DefKind::Fn => "fn",
                DefKind::AssocFn => "assoc",
                DefKind::Closure => "closure",
                _ => "other",
            }),
        );
        let (file, lo, hi) = self.span_line(tcx.def_span(did));
        o.set("file", J::s(file));
        o.set("line_lo", J::Int(lo as i128));
        // def_span only covers the header; use the body span for the end
        let body = tcx.instance_mir(ty::InstanceKind::Item(did));
        let (_, _, bhi) = self.span_line(body.span);
        o.set("line_hi", J::Int(bhi.max(hi) as i128));

        // the generic parameters in the order in which a call site lists its arguments for them
        if kind != DefKind::Closure {
            let ids = ty::GenericArgs::identity_for_item(tcx, did);
            let mut gs = Vec::new();
            for a in ids.iter() {
                gs.push(J::s(with_no_trimmed_paths!(a.to_string())));
            }
            o.set("generics", J::Arr(gs));
        }

        // impl / trait context (for closures: of the enclosing fn)
        let mut owner = did;
        while tcx.def_kind(owner) == DefKind::Closure {
            owner = tcx.parent(owner);
        }
        o.set("owner", J::s(path_str(tcx, owner)));
        if tcx.def_kind(owner) == DefKind::AssocFn {
            let parent = tcx.parent(owner);
            match tcx.def_kind(parent) {
                DefKind::Impl { of_trait } => {
                    let self_ty = tcx.type_of(parent).instantiate_identity().skip_norm_wip();
                    o.set("self_ty", J::s(ty_str(self_ty)));
                    if of_trait {
                        let tr = tcx.impl_trait_ref(parent).instantiate_identity().skip_norm_wip();
                        o.set("impl_trait", J::s(path_str(tcx, tr.def_id)));
                        o.set("impl_trait_full", J::s(with_no_trimmed_paths!(tr.to_string())));
                    }
                    o.set("derived", J::Bool(tcx.is_automatically_derived(parent)));
                }
                DefKind::Trait => {
                    o.set("in_trait", J::s(path_str(tcx, parent)));
                }
                _ => {}
            }
        }
        if matches!(kind, DefKind::Fn | DefKind::AssocFn) {
            o.set("vis", J::s(format!("{:?}", tcx.visibility(did))));
            o.set("is_pub", J::Bool(tcx.visibility(did).is_public()));
        }
        o.set("arg_count", J::Int(body.arg_count as i128));

        // debug names of locals
        let mut names: Vec<Option<String>> = vec![None; body.local_decls.len()];
        let mut upvar_names = Vec::new();
        for vdi in &body.var_debug_info {
            if let VarDebugInfoContents::Place(p) = vdi.value {
                if p.projection.is_empty() {
                    names[p.local.as_usize()] = Some(vdi.name.to_string());
                } else {
                    let mut u = J::obj();
                    u.set("name", J::s(vdi.name.to_string()));
                    u.set("place", self.place(body, &p));
                    upvar_names.push(u);
                }
            }
        }
        o.set("captures", J::Arr(upvar_names));
        let mut locals = Vec::new();
        for (l, decl) in body.local_decls.iter_enumerated() {
            let mut lo = J::obj();
            let t = ty_str(decl.ty);
            let me = mentions_error(&t);
            lo.set("ty", J::s(t));
            if let Some(n) = &names[l.as_usize()] {
                lo.set("name", J::s(n.clone()));
            }
            if me {
                lo.set("err", J::Bool(true));
            }
            if let ty::Adt(adt, _) = decl.ty.peel_refs().kind() {
                lo.set("adt", J::s(path_str(tcx, adt.did())));
            }
            locals.push(lo);
        }
        o.set("locals", J::Arr(locals));

        let mut blocks = Vec::new();
        for (_bb, data) in body.basic_blocks.iter_enumerated() {
            blocks.push(self.block(did, body, data));
        }
        o.set("blocks", J::Arr(blocks));
        o
    }

    fn block(&self, fn_did: DefId, body: &Body<'tcx>, data: &BasicBlockData<'tcx>) -> J {
        let mut b = J::obj();
        if data.is_cleanup {
            b.set("cleanup", J::Bool(true));
        }
        let mut stmts = Vec::new();
        for st in &data.statements {
            match &st.kind {
                StatementKind::Assign(bx) => {
                    let (place, rv) = &**bx;
                    let mut s = J::obj();
                    s.set("k", J::s("assign"));
                    s.set("place", self.place(body, place));
                    s.set("rv", self.rvalue(body, rv));
                    let (_, line, _) = self.span_line(st.source_info.span);
                    s.set("line", J::Int(line as i128));
                    if st.source_info.span.from_expansion() {
                        s.set("exp", J::Bool(true));
                    }
                    stmts.push(s);
                }
                StatementKind::SetDiscriminant { place, variant_index } => {
                    let mut s = J::obj();
                    s.set("k", J::s("setdiscr"));
                    s.set("place", self.place(body, place));
                    s.set("variant", J::Int(variant_index.as_u32() as i128));
                    stmts.push(s);
                }
                _ => {}
            }
        }
        b.set("stmts", J::Arr(stmts));
        let term = data.terminator();
        let mut t = J::obj();
        let (_, line, _) = self.span_line(term.source_info.span);
        match &term.kind {
            TerminatorKind::Goto { target } => {
                t.set("k", J::s("goto"));
                t.set("t", J::Int(target.as_u32() as i128));
            }
            TerminatorKind::SwitchInt { discr, targets } => {
                t.set("k", J::s("switch"));
                t.set("op", self.operand(body, discr));
                t.set("ty", J::s(ty_str(discr.ty(body, self.tcx))));
                let mut ts = Vec::new();
                for (v, bb) in targets.iter() {
                    ts.push(J::Arr(vec![J::Int(v as i128), J::Int(bb.as_u32() as i128)]));
                }
                t.set("targets", J::Arr(ts));
                t.set("otherwise", J::Int(targets.otherwise().as_u32() as i128));
            }
            TerminatorKind::Return => {
                t.set("k", J::s("return"));
            }
            TerminatorKind::Unreachable => {
                t.set("k", J::s("unreachable"));
            }
            TerminatorKind::UnwindResume => {
                t.set("k", J::s("resume"));
            }
            TerminatorKind::UnwindTerminate(_) => {
                t.set("k", J::s("terminate"));
            }
            TerminatorKind::Drop { place, target, unwind, .. } => {
                t.set("k", J::s("drop"));
                t.set("place", self.place(body, place));
                let pty = place.ty(body, self.tcx).ty;
                let ts = ty_str(pty);
                if mentions_error(&ts) {
                    t.set("err", J::Bool(true));
                }
                t.set("ty", J::s(ts));
                t.set("t", J::Int(target.as_u32() as i128));
                if let mir::UnwindAction::Cleanup(bb) = unwind {
                    t.set("unwind", J::Int(bb.as_u32() as i128));
                }
            }
            TerminatorKind::Assert { cond, expected, msg, target, unwind } => {
                t.set("k", J::s("assert"));
                t.set("cond", self.operand(body, cond));
                t.set("expected", J::Bool(*expected));
                let dbg = format!("{:?}", msg);
                let kind = dbg.split(|c: char| c == '(' || c == ' ' || c == '{').next().unwrap_or("").to_string();
                t.set("msg", J::s(kind));
                let mut ops = Vec::new();
                use rustc_middle::mir::AssertKind as AK;
                match &**msg {
                    AK::BoundsCheck { len, index } => {
                        ops.push(self.operand(body, len));
                        ops.push(self.operand(body, index));
                    }
                    AK::Overflow(op, a, b2) => {
                        t.set("binop", J::s(format!("{:?}", op)));
                        ops.push(self.operand(body, a));
                        ops.push(self.operand(body, b2));
                    }
                    AK::OverflowNeg(a) | AK::DivisionByZero(a) | AK::RemainderByZero(a) => {
                        ops.push(self.operand(body, a));
                    }
                    _ => {}
                }
                t.set("ops", J::Arr(ops));
                t.set("t", J::Int(target.as_u32() as i128));
                if let mir::UnwindAction::Cleanup(bb) = unwind {
                    t.set("unwind", J::Int(bb.as_u32() as i128));
                }
            }
            TerminatorKind::Call { func, args, destination, target, unwind, fn_span, .. } => {
                t.set("k", J::s("call"));
                t.set("callee", self.callee(fn_did, body, func));
                let mut av = Vec::new();
                for a in args.iter() {
                    av.push(self.operand(body, &a.node));
                }
                t.set("args", J::Arr(av));
                let mut atys = Vec::new();
                for a in args.iter() {
                    atys.push(J::s(ty_str(a.node.ty(body, self.tcx))));
                }
                t.set("arg_tys", J::Arr(atys));
                t.set("dest", self.place(body, destination));
                if let Some(bb) = target {
                    t.set("t", J::Int(bb.as_u32() as i128));
                }
                if let mir::UnwindAction::Cleanup(bb) = unwind {
                    t.set("unwind", J::Int(bb.as_u32() as i128));
                }
                if fn_span.from_expansion() || term.source_info.span.from_expansion() {
                    t.set("exp", J::Bool(true));
                    let ed = term.source_info.span.ctxt().outer_expn_data();
                    t.set("macro", J::s(format!("{}", ed.kind.descr())));
                }
            }
            TerminatorKind::FalseEdge { real_target, .. } => {
                t.set("k", J::s("goto"));
                t.set("t", J::Int(real_target.as_u32() as i128));
            }
            TerminatorKind::FalseUnwind { real_target, .. } => {
                t.set("k", J::s("goto"));
                t.set("t", J::Int(real_target.as_u32() as i128));
            }
            other => {
                t.set("k", J::s("other"));
                t.set("dbg", J::s(format!("{:?}", other)));
            }
        }
        t.set("line", J::Int(line as i128));
        b.set("term", t);
        b
    }

    fn callee(&self, fn_did: DefId, body: &Body<'tcx>, func: &Operand<'tcx>) -> J {
        let tcx = self.tcx;
        let mut c = J::obj();
        let fty = func.ty(body, tcx);
        match fty.kind() {
            ty::FnDef(did, args) => {
                let did = *did;
                c.set("path", J::s(path_str(tcx, did)));
                c.set("dp", J::s(dp_str(tcx, did)));
                c.set("full", J::s(with_no_trimmed_paths!(tcx.def_path_str_with_args(did, args))));
                c.set("crate", J::s(tcx.crate_name(did.krate).to_string()));
                let mut ga = Vec::new();
                for a in args.iter() {
                    ga.push(J::s(with_no_trimmed_paths!(a.to_string())));
                }
                c.set("substs", J::Arr(ga));
                if matches!(tcx.def_kind(did), DefKind::AssocFn) {
                    let parent = tcx.parent(did);
                    match tcx.def_kind(parent) {
                        DefKind::Trait => {
                            c.set("trait", J::s(path_str(tcx, parent)));
                            c.set("method", J::s(tcx.item_name(did).to_string()));
                        }
                        DefKind::Impl { of_trait: true } => {
                            let tr = tcx.impl_trait_ref(parent).instantiate_identity().skip_norm_wip();
                            c.set("impl_of_trait", J::s(path_str(tcx, tr.def_id)));
                            c.set("method", J::s(tcx.item_name(did).to_string()));
                        }
                        DefKind::Impl { of_trait: false } => {
                            c.set("method", J::s(tcx.item_name(did).to_string()));
                            let st = tcx.type_of(parent).instantiate_identity().skip_norm_wip();
                            c.set("inherent_self", J::s(ty_str(st)));
                        }
                        _ => {}
                    }
                }
                // try to resolve
                let env = TypingEnv::post_analysis(tcx, fn_did);
                if let Ok(Some(inst)) = Instance::try_resolve(tcx, env, did, args) {
                    let rd = inst.def_id();
                    let kind = format!("{:?}", inst.def);
                    let kind = kind.split('(').next().unwrap_or("").to_string();
                    c.set("resolved", J::s(path_str(tcx, rd)));
                    c.set("resolved_dp", J::s(dp_str(tcx, rd)));
                    c.set("resolved_kind", J::s(kind));
                    c.set("resolved_crate", J::s(tcx.crate_name(rd.krate).to_string()));
                }
            }
            _ => {
                c.set("indirect", self.operand(body, func));
                c.set("ty", J::s(ty_str(fty)));
            }
        }
        c
    }

    pub fn place(&self, body: &Body<'tcx>, p: &Place<'tcx>) -> J {
        let tcx = self.tcx;
        let mut o = J::obj();
        o.set("l", J::Int(p.local.as_u32() as i128));
        let mut projs = Vec::new();
        let mut cur = mir::PlaceTy::from_ty(body.local_decls[p.local].ty);
        for elem in p.projection.iter() {
            match elem {
                PlaceElem::Deref => projs.push(J::s("*")),
                PlaceElem::Field(f, _) => {
                    let mut fo = J::obj();
                    fo.set("f", J::Int(f.as_u32() as i128));
                    // field name lookup
                    if let ty::Adt(adt, _) = cur.ty.kind() {
                        let vi = cur.variant_index.unwrap_or(rustc_abi::FIRST_VARIANT);
                        if adt.variants().len() > vi.as_usize() {
                            let v = adt.variant(vi);
                            if let Some(fd) = v.fields.get(f) {
                                fo.set("n", J::s(fd.name.to_string()));
                            }
                            fo.set("adt", J::s(path_str(tcx, adt.did())));
                        }
                    }
                    projs.push(fo);
                }
                PlaceElem::Downcast(name, vi) => {
                    let mut d = J::obj();
                    d.set("d", J::Int(vi.as_u32() as i128));
                    if let Some(n) = name {
                        d.set("n", J::s(n.to_string()));
                    }
                    projs.push(d);
                }
                PlaceElem::Index(l) => {
                    let mut d = J::obj();
                    d.set("i", J::Int(l.as_u32() as i128));
                    projs.push(d);
                }
                PlaceElem::ConstantIndex { offset, min_length, from_end } => {
                    let mut d = J::obj();
                    d.set("ci", J::Int(offset as i128));
                    d.set("min", J::Int(min_length as i128));
                    d.set("fe", J::Bool(from_end));
                    projs.push(d);
                }
                PlaceElem::Subslice { from, to, from_end } => {
                    let mut d = J::obj();
                    d.set("sub", J::Arr(vec![J::Int(from as i128), J::Int(to as i128)]));
                    d.set("fe", J::Bool(from_end));
                    projs.push(d);
                }
                other => {
                    projs.push(J::s(format!("{:?}", other)));
                }
            }
            cur = cur.projection_ty(tcx, elem);
        }
        o.set("p", J::Arr(projs));
        o
    }

    pub fn operand(&self, body: &Body<'tcx>, op: &Operand<'tcx>) -> J {
        match op {
            Operand::Copy(p) => {
                let mut o = J::obj();
                o.set("c", J::s("copy"));
                o.set("pl", self.place(body, p));
                o
            }
            Operand::Move(p) => {
                let mut o = J::obj();
                o.set("c", J::s("move"));
                o.set("pl", self.place(body, p));
                o
            }
            Operand::Constant(c) => self.constant(body, &c.const_),
            #[allow(unreachable_patterns)]
            other => {
                let mut o = J::obj();
                o.set("c", J::s("other"));
                o.set("dbg", J::s(format!("{:?}", other)));
                o
            }
        }
    }

    fn constant(&self, body: &Body<'tcx>, c: &Const<'tcx>) -> J {
        let tcx = self.tcx;
        let mut o = J::obj();
        o.set("c", J::s("const"));
        let ty = c.ty();
        o.set("ty", J::s(ty_str(ty)));
        if let ty::FnDef(did, _) = ty.kind() {
            o.set("fn", J::s(path_str(tcx, *did)));
            return o;
        }
        let env = TypingEnv::post_analysis(tcx, body.source.def_id());
        // scalar ints, bools, chars
        if ty.is_integral() || ty.is_bool() || ty.is_char() {
            if let Some(si) = c.try_eval_scalar_int(tcx, env) {
                let size = si.size();
                let v: i128 = if ty.is_signed() {
                    si.to_int(size)
                } else {
                    si.to_uint(size) as i128
                };
                o.set("int", J::Int(v));
                return o;
            }
        }
        if ty.is_floating_point() {
            if let Some(si) = c.try_eval_scalar_int(tcx, env) {
                let bits = si.to_uint(si.size());
                o.set("fbits", J::s(format!("{}", bits)));
                return o;
            }
        }
        // a newtype around one integer (`struct Depth(u8)`, `const LIMIT: Depth = Depth(128)`): the integer inside
        if let ty::Adt(adt, args) = ty.kind() {
            if adt.is_struct() && adt.all_fields().count() == 1 {
                let fty = adt.non_enum_variant().fields.iter().next().unwrap().ty(tcx, args);
                if fty.is_integral() || fty.is_bool() || fty.is_char() {
                    let nv = match c {
                        Const::Val(v, _) => Some(*v),
                        _ => c.eval(tcx, env, rustc_span::DUMMY_SP).ok(),
                    };
                    if let Some(ConstValue::Scalar(Scalar::Int(si))) = nv {
                        let size = si.size();
                        let v: i128 = if fty.is_signed() {
                            si.to_int(size)
                        } else {
                            si.to_uint(size) as i128
                        };
                        o.set("newtype_int", J::Int(v));
                        return o;
                    }
                }
            }
        }
        // references to byte arrays / slices / str
        let val = match c {
            Const::Val(v, _) => Some(*v),
            _ => c.eval(tcx, env, rustc_span::DUMMY_SP).ok(),
        };
        if let Some(v) = val {
            match v {
                ConstValue::Scalar(Scalar::Ptr(ptr, _)) => {
                    let (prov, off) = ptr.into_raw_parts();
                    match tcx.global_alloc(prov.alloc_id()) {
                        GlobalAlloc::Memory(a) => {
                            let a = a.inner();
                            if a.provenance().ptrs().is_empty() && a.len() <= 4096 {
                                let bytes = a.inspect_with_uninit_and_ptr_outside_interpreter(
                                    off.bytes_usize()..a.len(),
                                );
                                o.set(
                                    "bytes",
                                    J::Arr(bytes.iter().map(|b| J::Int(*b as i128)).collect()),
                                );
                                // `&Struct` of integer fields (e.g. a promoted RangeInclusive<u8>): decode the
                                // fields through the computed layout (field order in memory is not source order)
                                if let ty::Ref(_, inner, _) = ty.kind() {
                                    if let ty::Adt(adt, args) = inner.kind() {
                                        if adt.is_struct() && adt.all_fields().count() <= 4 {
                                            if let Ok(layout) = tcx.layout_of(env.as_query_input(*inner)) {
                                                let mut fs = Vec::new();
                                                let mut ok = true;
                                                for (i, f) in adt.non_enum_variant().fields.iter().enumerate() {
                                                    let fty = f.ty(tcx, args);
                                                    if !(fty.is_integral() || fty.is_bool()) {
                                                        ok = false;
                                                        break;
                                                    }
                                                    let fo = layout.fields.offset(i).bytes_usize();
                                                    let fl = match tcx.layout_of(env.as_query_input(fty)) {
                                                        Ok(l) => l.size.bytes_usize(),
                                                        Err(_) => {
                                                            ok = false;
                                                            break;
                                                        }
                                                    };
                                                    if fo + fl > bytes.len() || fl > 16 {
                                                        ok = false;
                                                        break;
                                                    }
                                                    let mut v: u128 = 0;
                                                    for (k, b) in bytes[fo..fo + fl].iter().enumerate() {
                                                        v |= (*b as u128) << (8 * k);
                                                    }
                                                    let iv: i128 = if fty.is_signed() && fl < 16 {
                                                        let sh = 128 - 8 * fl as u32;
                                                        ((v << sh) as i128) >> sh
                                                    } else {
                                                        v as i128
                                                    };
                                                    let mut fo2 = J::obj();
                                                    fo2.set("n", J::s(f.name.to_string()));
                                                    fo2.set("v", J::Int(iv));
                                                    fs.push(fo2);
                                                }
                                                if ok {
                                                    o.set("struct", J::Arr(fs));
                                                }
                                            }
                                        }
                                    }
                                }
                            } else if a.provenance().ptrs().len() == 1
                                && a.len() == 16
                                && off.bytes() == 0
                                && matches!(ty.kind(), ty::Ref(_, inner, _) if matches!(inner.kind(), ty::Ref(_, t2, _) if t2.is_str() || t2.is_slice()))
                            {
                                // promoted `&&str` / `&&[u8]`: one fat pointer (ptr, len) to the text
                                let raw = a.inspect_with_uninit_and_ptr_outside_interpreter(0..16);
                                let mut lenb = [0u8; 8];
                                lenb.copy_from_slice(&raw[8..16]);
                                let n = u64::from_le_bytes(lenb) as usize;
                                let mut offb = [0u8; 8];
                                offb.copy_from_slice(&raw[0..8]);
                                let inner_off = u64::from_le_bytes(offb) as usize;
                                if let Some((_, prov2)) = a.provenance().ptrs().iter().next() {
                                    if let GlobalAlloc::Memory(b) = tcx.global_alloc(prov2.alloc_id()) {
                                        let b = b.inner();
                                        if b.provenance().ptrs().is_empty()
                                            && inner_off + n <= b.len()
                                            && n <= 4096
                                        {
                                            let bytes = b.inspect_with_uninit_and_ptr_outside_interpreter(
                                                inner_off..inner_off + n,
                                            );
                                            o.set(
                                                "bytes",
                                                J::Arr(bytes.iter().map(|b| J::Int(*b as i128)).collect()),
                                            );
                                            o.set("indirect", J::Int(1));
                                        }
                                    }
                                }
                            }
                        }
                        GlobalAlloc::Static(sdid) => {
                            o.set("static", J::s(path_str(tcx, sdid)));
                        }
                        _ => {}
                    }
                }
                ConstValue::Slice { alloc_id, meta } => {
                    if let GlobalAlloc::Memory(a) = tcx.global_alloc(alloc_id) {
                        let a = a.inner();
                        let n = (meta as usize).min(a.len());
                        if a.provenance().ptrs().is_empty() && n <= 4096 {
                            let bytes = a.inspect_with_uninit_and_ptr_outside_interpreter(0..n);
                            o.set(
                                "bytes",
                                J::Arr(bytes.iter().map(|b| J::Int(*b as i128)).collect()),
                            );
                        }
                    }
                }
                ConstValue::ZeroSized => {
                    o.set("zst", J::Bool(true));
                }
                _ => {}
            }
        }
        o
    }

    fn rvalue(&self, body: &Body<'tcx>, rv: &Rvalue<'tcx>) -> J {
        let tcx = self.tcx;
        let mut o = J::obj();
        match rv {
            Rvalue::Use(op, ..) => {
                o.set("k", J::s("use"));
                o.set("op", self.operand(body, op));
            }
            Rvalue::Ref(_, bk, p) => {
                o.set("k", J::s("ref"));
                o.set("mut", J::Bool(matches!(bk, mir::BorrowKind::Mut { .. })));
                o.set("pl", self.place(body, p));
            }
            Rvalue::RawPtr(_, p) => {
                o.set("k", J::s("rawptr"));
                o.set("pl", self.place(body, p));
            }
            Rvalue::BinaryOp(op, bx) => {
                let (a, b) = &**bx;
                o.set("k", J::s("bin"));
                o.set("op", J::s(format!("{:?}", op)));
                o.set("a", self.operand(body, a));
                o.set("b", self.operand(body, b));
                o.set("aty", J::s(ty_str(a.ty(body, tcx))));
            }
            Rvalue::UnaryOp(op, a) => {
                o.set("k", J::s("un"));
                o.set("op", J::s(format!("{:?}", op)));
                o.set("a", self.operand(body, a));
            }
            Rvalue::Cast(kind, op, to) => {
                o.set("k", J::s("cast"));
                let ks = format!("{:?}", kind);
                o.set("ck", J::s(ks));
                o.set("op", self.operand(body, op));
                o.set("from", J::s(ty_str(op.ty(body, tcx))));
                o.set("to", J::s(ty_str(*to)));
            }
            Rvalue::Aggregate(ak, fields) => {
                o.set("k", J::s("agg"));
                match &**ak {
                    AggregateKind::Adt(did, vi, _, _, _) => {
                        o.set("adt", J::s(path_str(tcx, *did)));
                        o.set("variant", J::Int(vi.as_u32() as i128));
                        let adt = tcx.adt_def(*did);
                        o.set("vname", J::s(adt.variant(*vi).name.to_string()));
                    }
                    AggregateKind::Tuple => {
                        o.set("agg", J::s("tuple"));
                    }
                    AggregateKind::Array(_) => {
                        o.set("agg", J::s("array"));
                    }
                    AggregateKind::Closure(did, _) => {
                        o.set("agg", J::s("closure"));
                        o.set("closure", J::s(path_str(tcx, *did)));
                    }
                    other => {
                        o.set("agg", J::s(format!("{:?}", other)));
                    }
                }
                let mut fs = Vec::new();
                for f in fields.iter() {
                    fs.push(self.operand(body, f));
                }
                o.set("fields", J::Arr(fs));
            }
            Rvalue::Discriminant(p) => {
                o.set("k", J::s("discr"));
                o.set("pl", self.place(body, p));
                let pty = p.ty(body, tcx).ty;
                if let ty::Adt(adt, _) = pty.kind() {
                    o.set("adt", J::s(path_str(tcx, adt.did())));
                }
            }
            Rvalue::Repeat(op, _) => {
                o.set("k", J::s("repeat"));
                o.set("op", self.operand(body, op));
            }
            Rvalue::CopyForDeref(p) => {
                o.set("k", J::s("use"));
                let mut oo = J::obj();
                oo.set("c", J::s("copy"));
                oo.set("pl", self.place(body, p));
                o.set("op", oo);
            }
            other => {
                o.set("k", J::s("other"));
                o.set("dbg", J::s(format!("{:?}", other)));
            }
        }
        o
    }
}

pub fn mentions_error(t: &str) -> bool {
    t.contains("parse::error::Error")
        || t.contains("serde_lexpr::error::Error")
        || t.contains("error::Error")
        || t.contains("std::io::Error")
        || t.contains("io::error::Error")
}
