//! mirfacts: rustc_private driver that dumps type-checked MIR facts as JSON.
//!
//! Injected via RUSTC_WORKSPACE_WRAPPER under `cargo +nightly check`.
//! Environment:
//!   MIRFACTS_OUT     directory the fact files are written to (required to dump)
//!   MIRFACTS_CONFIG  label of the feature configuration (default "default")
//!   MIRFACTS_CRATES  comma separated crate names to dump
//!   MIRFACTS_MONO    crate name for which the monomorphic call-graph walk is done
//!   MIRFACTS_LOCAL   comma separated crate names considered "local" for the mono walk
#![feature(rustc_private)]
#![allow(clippy::all)]

extern crate rustc_abi;
extern crate rustc_data_structures;
extern crate rustc_driver;
extern crate rustc_hir;
extern crate rustc_interface;
extern crate rustc_middle;
extern crate rustc_span;

mod json;
mod mono;
mod poly;

use rustc_driver::Compilation;
use rustc_interface::interface::Compiler;
use rustc_middle::ty::TyCtxt;
use rustc_span::def_id::LOCAL_CRATE;

struct Cb;

fn env_list(name: &str, default: &str) -> Vec<String> {
    std::env::var(name)
        .unwrap_or_else(|_| default.to_string())
        .split(',')
        .filter(|s| !s.is_empty())
        .map(|s| s.to_string())
        .collect()
}

impl rustc_driver::Callbacks for Cb {
    fn after_analysis<'tcx>(&mut self, _c: &Compiler, tcx: TyCtxt<'tcx>) -> Compilation {
        let out = match std::env::var("MIRFACTS_OUT") {
            Ok(o) => o,
            Err(_) => return Compilation::Continue,
        };
        let krate = tcx.crate_name(LOCAL_CRATE).to_string();
        let config = std::env::var("MIRFACTS_CONFIG").unwrap_or_else(|_| "default".to_string());
        let crates = env_list("MIRFACTS_CRATES", "lexpr,lexpr_macros,serde_lexpr,roots,fixtures");
        if !crates.iter().any(|c| *c == krate) {
            return Compilation::Continue;
        }
        if tcx.dcx().has_errors().is_some() {
            return Compilation::Continue;
        }
        let facts = poly::dump(tcx, &krate, &config);
        let mut s = String::with_capacity(1 << 22);
        facts.write(&mut s);
        let path = format!("{}/{}.{}.json", out, krate, config);
        std::fs::write(&path, s).expect("mirfacts: cannot write fact file");

        if let Ok(m) = std::env::var("MIRFACTS_MONO") {
            if m == krate {
                let local = env_list("MIRFACTS_LOCAL", "lexpr,serde_lexpr,roots,fixtures");
                let g = mono::walk(tcx, &local);
                let mut s = String::with_capacity(1 << 22);
                g.write(&mut s);
                let path = format!("{}/{}.{}.mono.json", out, krate, config);
                std::fs::write(&path, s).expect("mirfacts: cannot write mono file");
            }
        }
        Compilation::Continue
    }
}

fn main() {
    // RUSTC_WORKSPACE_WRAPPER passes the real rustc path as argv[1].
    let mut args: Vec<String> = vec!["rustc".to_string()];
    args.extend(std::env::args().skip(2));
    rustc_driver::run_compiler(&args, &mut Cb);
}
