#!/usr/bin/env python3
"""Write tables/baseline_names.json: the reviewed vocabulary of /repo (function paths with signatures, parameter
names and body summaries; types with their layout; constants; every identifier of the fact files).

Run on the reviewed tree only (/repo at the pinned commit plus the recorded fix commits); rules/rename.py uses the
file to bring the facts of a changed tree back to these names.  usage: tools/gen_baseline_names.py
"""
import json, os, re, sys
VERIF = os.path.dirname(os.path.dirname(os.path.abspath(__file__)))
sys.path.insert(0, VERIF)
os.environ["VERIF_NO_RENAME"] = "1"
from rules import build, rename


def main():
    if os.path.realpath(build.REPO) != "/repo":
        sys.exit("the reviewed vocabulary is taken from /repo only")
    # facts without normalisation: a scratch fact directory of their own
    import tempfile, shutil
    out = {"fns": {}, "adts": {}, "statics": {}, "vocab": []}
    vocab = set()
    vocab_mod = set()
    tmp = tempfile.mkdtemp(prefix="baseline-", dir=build.WORK)
    try:
        with open(os.path.join(tmp, "build.log"), "w") as log:
            for kind in ("poly", "nofast", "mono"):
                r = build._build_kind(kind, tmp, log)
                if r.returncode != 0:
                    sys.exit("build of %s failed:\n%s" % (kind, r.stderr[-3000:]))
        for f in sorted(os.listdir(tmp)):
            if not f.endswith(".json"):
                continue
            t = open(os.path.join(tmp, f)).read()
            vocab |= set(rename.IDENT.findall(t))
            vocab_mod |= set(re.findall(r"([A-Za-z_][A-Za-z0-9_]*)::", t))
            d = json.loads(t)
            if not (isinstance(d, dict) and "fns" in d):
                continue
            key = "%s.%s" % (d["crate"], d["config"])
            fns = {}
            for fd in d["fns"]:
                if fd.get("kind") == "closure" or "{closure" in fd["path"]:
                    continue
                if fd["path"] in fns:
                    fns[fd["path"]] = None          # several items of one path: never paired
                    continue
                fns[fd["path"]] = {"sig": rename.fn_signature(fd), "params": rename.fn_params(fd), "body": rename.fn_body_summary(fd),
                                   "file": fd.get("file")}
            out["fns"][key] = {p: v for p, v in fns.items() if v}
            out["adts"][key] = {p: {"kind": a.get("kind"), "variants": [{"name": v["name"], "fields": [{"name": x["name"], "ty": x["ty"]} for x in v["fields"]]}
                                                                         for v in a["variants"]]} for p, a in d["adts"].items()}
            out["statics"][key] = d.get("statics", {})
    finally:
        shutil.rmtree(tmp, ignore_errors=True)
    out["vocab"] = sorted(vocab)
    out["vocab_mod"] = sorted(vocab_mod)
    with open(rename.BASELINE, "w") as fh:
        json.dump(out, fh, indent=0, sort_keys=True)
    print("functions:", {k: len(v) for k, v in out["fns"].items()}, "types:", {k: len(v) for k, v in out["adts"].items()},
          "identifiers:", len(vocab))


if __name__ == "__main__":
    main()
