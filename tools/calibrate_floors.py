#!/usr/bin/env python3
"""Re-measure instance counts on the current tree and write tables/floors.json.

Floors are 60% of the measured count (at least 1): low enough that a benign
refactor merging a few sites does not alarm, high enough that a rule which
stops matching (renamed anchor, changed MIR shape) fails closed instead of
passing vacuously.  Run by hand after reviewing the counts; never at check time.
"""
import json, os, subprocess, sys, glob
HERE = os.path.dirname(os.path.dirname(os.path.abspath(__file__)))
props = sorted(os.path.basename(p)[:-3].upper() for p in glob.glob(os.path.join(HERE, "rules/props/c*.py")))
floors = {}
env = dict(os.environ, VERIF_CALIBRATE="1")
for tier in ("quick", "thorough"):
    for p in props:
        subprocess.run([os.path.join(HERE, "check"), p, "--tier", tier], env=env, capture_output=True)
        ev = json.load(open(os.path.join(HERE, "evidence", p + ".json")))
        for k, v in ev["coverage"].get("instance_counts", {}).items():
            floors[k] = max(1, int(v * 0.6))
            print(p, tier, k, v, "->", floors[k])
old = json.load(open(os.path.join(HERE, "tables/floors.json")))
old.update(floors)
json.dump(old, open(os.path.join(HERE, "tables/floors.json"), "w"), indent=1, sort_keys=True)
