#!/usr/bin/env python3
"""Confirm a seeded change and run the checks against it.

usage: tools/eval_seed.py <seed-id> <property> <dir-with patch.diff + demo/ + NOTES.md> [--keep]

Steps (all in a scratch worktree under /tmp, removed afterwards; /repo is never modified):
  1. worktree of /repo HEAD + `git apply patch.diff`
  2. the repository's test suite must still pass with the change
  3. the demo must fail with the change and pass on the unchanged tree
  4. every registered check (quick tier; thorough for the target property) is run with
     VERIF_REPO pointing at the patched worktree; the properties that report VIOLATION are recorded
  5. results go to /verif/seeded/<seed-id>/{patch.diff, demo/, NOTES.md, meta.json}
"""
import json
import os
import re
import shutil
import subprocess
import sys
import time

VERIF = os.path.dirname(os.path.dirname(os.path.abspath(__file__)))
PROPS = ["C01", "C02", "C03", "C04", "C05", "C06", "C07", "C08", "C09", "C10", "C11", "C12", "C14", "C15", "C16",
         "C17", "C18", "C19", "C20"]


def sh(cmd, cwd=None, env=None, timeout=3600):
    e = dict(os.environ, CARGO_NET_OFFLINE="true")
    if env:
        e.update(env)
    try:
        p = subprocess.run(cmd, cwd=cwd, env=e, shell=isinstance(cmd, str), capture_output=True, text=True, timeout=timeout)
        return p.returncode, p.stdout + p.stderr
    except subprocess.TimeoutExpired as ex:
        return 124, "TIMEOUT " + str(ex)


def run_demo(demo_src, repo_path, work):
    d = os.path.join(work, "demo")
    if os.path.exists(d):
        shutil.rmtree(d)
    shutil.copytree(demo_src, d, ignore=shutil.ignore_patterns("target"))
    for root, _, files in os.walk(d):
        for f in files:
            if f == "Cargo.toml":
                p = os.path.join(root, f)
                s = open(p).read()
                s = re.sub(r"/tmp/(?:seed2?|r\d+)/(?:C\d\d|w\d)", repo_path, s)
                open(p, "w").write(s)
    lock = os.path.join(repo_path, "Cargo.lock")
    if os.path.exists(lock):
        shutil.copyfile(lock, os.path.join(d, "Cargo.lock"))
    has_tests = os.path.isdir(os.path.join(d, "tests")) or "#[test]" in "".join(
        open(os.path.join(r, f)).read() for r, _, fs in os.walk(os.path.join(d, "src")) for f in fs if f.endswith(".rs"))
    has_main = os.path.exists(os.path.join(d, "src", "main.rs"))
    cmds = []
    if has_main:
        cmds.append("cargo run --offline -q")
    if has_tests or not has_main:
        cmds.append("cargo test --offline -q")
    rc_all, out_all = 0, ""
    for c in cmds:
        rc, out = sh(c, cwd=d, env={"CARGO_TARGET_DIR": os.path.join(work, "demo-target")}, timeout=1500)
        out_all += "$ %s -> rc=%d\n%s\n" % (c, rc, out[-1500:])
        if rc != 0:
            rc_all = rc
    return rc_all, out_all


def main():
    sid, prop, src = sys.argv[1], sys.argv[2], os.path.abspath(sys.argv[3])
    keep = "--keep" in sys.argv
    work = "/tmp/ev-%s" % sid
    wt = os.path.join(work, "wt")
    shutil.rmtree(work, ignore_errors=True)
    os.makedirs(work)
    meta = {"seed": sid, "property": prop, "source_dir": src, "at": time.strftime("%Y-%m-%d %H:%M:%S")}
    rc, out = sh(["git", "-C", "/repo", "worktree", "add", "-q", "--detach", wt, "HEAD"])
    if rc != 0:
        print("cannot create worktree", out)
        return 2
    try:
        rc, out = sh(["git", "-C", wt, "apply", "--whitespace=nowarn", os.path.join(src, "patch.diff")])
        meta["patch_applies"] = rc == 0
        if rc != 0:
            meta["error"] = out[-800:]
            print("patch does not apply:", out[-400:])
            return finish(meta, sid, src, False)
        rc, out = sh("cargo test --workspace --no-fail-fast --offline 2>&1 | grep -E '^test result|FAILED|^error' ", cwd=wt,
                     timeout=2400)
        passed = sum(int(x) for x in re.findall(r"(\d+) passed", out))
        failed = sum(int(x) for x in re.findall(r"(\d+) failed", out)) + out.count("error")
        meta["tests_with_change"] = {"passed": passed, "failed": failed}
        meta["tests_pass"] = failed == 0 and passed >= 107
        demo = os.path.join(src, "demo")
        if os.path.isdir(demo):
            rc_w, out_w = run_demo(demo, wt, work)
            rc_o, out_o = run_demo(demo, "/repo", work)
            meta["demo_fails_with_change"] = rc_w != 0
            meta["demo_passes_without"] = rc_o == 0
            meta["demo_output_with_change"] = out_w[-1200:]
            if rc_o != 0:
                meta["demo_output_without"] = out_o[-1200:]
        else:
            meta["demo_fails_with_change"] = None
        # run the checks
        detected = {}
        env = {"VERIF_REPO": wt}
        for p in PROPS:
            tier = "thorough" if p == prop else "quick"
            rc, out = sh([os.path.join(VERIF, "check"), p, "--tier", tier], cwd=VERIF, env=env, timeout=1800)
            keys = [l.strip()[5:] for l in out.splitlines() if l.strip().startswith("key: ")]
            if rc == 1 and "VIOLATION" in out:
                detected[p] = keys[:6]
            elif rc not in (0, 1):
                detected[p] = ["<machinery rc=%d> %s" % (rc, out[-300:])]
        meta["detected_by"] = detected
        meta["detected_by_target"] = prop in detected
        return finish(meta, sid, src, True)
    finally:
        sh(["git", "-C", "/repo", "worktree", "remove", "--force", wt])
        if not keep:
            shutil.rmtree(work, ignore_errors=True)
        sh(["git", "-C", "/repo", "worktree", "prune"])


def finish(meta, sid, src, ok):
    print(json.dumps({k: v for k, v in meta.items() if k not in ("demo_output_with_change", "demo_output_without")}, indent=1))
    confirmed = ok and meta.get("tests_pass") and meta.get("demo_fails_with_change") and meta.get("demo_passes_without")
    meta["confirmed"] = bool(confirmed)
    dst = os.path.join(VERIF, "seeded", sid)
    if confirmed or "--force-keep" in sys.argv:
        shutil.rmtree(dst, ignore_errors=True)
        os.makedirs(dst)
        shutil.copyfile(os.path.join(src, "patch.diff"), os.path.join(dst, "patch.diff"))
        if os.path.isdir(os.path.join(src, "demo")):
            shutil.copytree(os.path.join(src, "demo"), os.path.join(dst, "demo"), ignore=shutil.ignore_patterns("target", "Cargo.lock"))
        if os.path.exists(os.path.join(src, "NOTES.md")):
            shutil.copyfile(os.path.join(src, "NOTES.md"), os.path.join(dst, "NOTES.md"))
        with open(os.path.join(dst, "meta.json"), "w") as fh:
            json.dump(meta, fh, indent=1)
    return 0 if confirmed else 1


if __name__ == "__main__":
    sys.exit(main())
