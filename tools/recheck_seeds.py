#!/usr/bin/env python3
"""Re-run the checks against every confirmed seeded change (seeded/<id>/patch.diff) with the current rules and
update detected_by in its meta.json.  Tests and demos are not re-run (tools/eval_seed.py confirmed them).

usage: tools/recheck_seeds.py [--jobs N] [id ...]      (run from a frozen snapshot of /verif while editing rules)
       --out DIR   write the updated meta.json files to DIR/<id>.json instead of seeded/<id>/meta.json
"""
import json, os, shutil, subprocess, sys
from concurrent.futures import ThreadPoolExecutor
VERIF = os.path.dirname(os.path.dirname(os.path.abspath(__file__)))
sys.path.insert(0, os.path.join(VERIF, "tools"))
from eval_seed import PROPS, sh


def one(sid, out):
    d = os.path.join(VERIF, "seeded", sid)
    meta = json.load(open(os.path.join(d, "meta.json")))
    wt = "/tmp/rs-%s/wt" % sid
    shutil.rmtree("/tmp/rs-%s" % sid, ignore_errors=True)
    os.makedirs("/tmp/rs-%s" % sid)
    sh(["git", "-C", "/repo", "worktree", "add", "-q", "--detach", wt, "HEAD"])
    try:
        rc, o = sh(["git", "-C", wt, "apply", "--whitespace=nowarn", os.path.join(d, "patch.diff")])
        if rc != 0:
            return sid, "patch does not apply"
        det = {}
        for p in PROPS:
            tier = "thorough" if p == meta["property"] else "quick"
            rc, o = sh([os.path.join(VERIF, "check"), p, "--tier", tier], cwd=VERIF, env={"VERIF_REPO": wt}, timeout=2400)
            keys = [l.strip()[5:] for l in o.splitlines() if l.strip().startswith("key: ")]
            if rc == 1 and "VIOLATION" in o:
                det[p] = keys[:6]
            elif rc not in (0, 1):
                det[p] = ["<machinery rc=%d> %s" % (rc, o[-300:])]
        meta["detected_by"] = det
        meta["detected_by_target"] = meta["property"] in det
        dst = os.path.join(out, sid + ".json") if out else os.path.join(d, "meta.json")
        json.dump(meta, open(dst, "w"), indent=1)
        return sid, "%s %s" % ("target" if meta["detected_by_target"] else "------", sorted(det))
    finally:
        sh(["git", "-C", "/repo", "worktree", "remove", "--force", wt])
        shutil.rmtree("/tmp/rs-%s" % sid, ignore_errors=True)


def main():
    a = sys.argv[1:]
    jobs, out = 6, None
    if "--jobs" in a:
        i = a.index("--jobs"); jobs = int(a[i + 1]); del a[i:i + 2]
    if "--out" in a:
        i = a.index("--out"); out = a[i + 1]; del a[i:i + 2]
        os.makedirs(out, exist_ok=True)
    ids = a or sorted(os.listdir(os.path.join(VERIF, "seeded")))
    with ThreadPoolExecutor(jobs) as ex:
        for sid, res in ex.map(lambda s: one(s, out), ids):
            print(sid, res, flush=True)
    sh(["git", "-C", "/repo", "worktree", "prune"])


if __name__ == "__main__":
    main()
