#!/bin/sh
# Quick tier of every check in parallel (development aid; evidence is rewritten by each check).
cd "$(dirname "$0")/.."
./check C01 --tier quick > /dev/null 2>&1   # builds the facts once
for p in C01 C02 C03 C04 C05 C06 C07 C08 C09 C10 C11 C12 C14 C15 C16 C17 C18 C19 C20; do
  ( ./check $p --tier ${1:-quick} > /tmp/rq.$p.out 2>&1; echo "$p rc=$?" ) &
done
wait
