#!/usr/bin/env python3
"""Run every registered check against a behaviour-preserving change.

usage: tools/eval_benign.py <name> <patch.diff> [--tier quick|thorough]

A scratch worktree of /repo HEAD is created under /tmp, the patch applied, the repository's tests
run (they must pass), and every check is run with VERIF_REPO pointing at it.  Any VIOLATION or
machinery error is a false alarm of the machinery and is printed with its keys.
"""
import json, os, re, shutil, subprocess, sys
VERIF = os.path.dirname(os.path.dirname(os.path.abspath(__file__)))
sys.path.insert(0, os.path.join(VERIF, "tools"))
from eval_seed import PROPS, sh


def main():
    name, patch = sys.argv[1], os.path.abspath(sys.argv[2])
    tier = sys.argv[sys.argv.index("--tier") + 1] if "--tier" in sys.argv else "quick"
    work = "/tmp/bn-%s" % name
    wt = os.path.join(work, "wt")
    shutil.rmtree(work, ignore_errors=True)
    os.makedirs(work)
    rc, out = sh(["git", "-C", "/repo", "worktree", "add", "-q", "--detach", wt, "HEAD"])
    res = {"name": name, "alarms": {}}
    try:
        rc, out = sh(["git", "-C", wt, "apply", "--whitespace=nowarn", patch])
        if rc != 0:
            res["error"] = "patch does not apply: " + out[-300:]
            return res
        if "--skip-tests" not in sys.argv:
            rc, out = sh("cargo test --workspace --no-fail-fast --offline 2>&1 | grep -E '^test result|FAILED|^error' ", cwd=wt, timeout=2400)
            passed = sum(int(x) for x in re.findall(r"(\d+) passed", out))
            failed = sum(int(x) for x in re.findall(r"(\d+) failed", out)) + out.count("error")
            res["tests"] = {"passed": passed, "failed": failed}
        for p in PROPS:
            rc, out = sh([os.path.join(VERIF, "check"), p, "--tier", tier], cwd=VERIF, env={"VERIF_REPO": wt}, timeout=2400)
            if rc != 0 or "VIOLATION" in out:
                keys = [l.strip()[5:] for l in out.splitlines() if l.strip().startswith("key: ")]
                res["alarms"][p] = keys[:8] or [out[-400:]]
        return res
    finally:
        sh(["git", "-C", "/repo", "worktree", "remove", "--force", wt])
        shutil.rmtree(work, ignore_errors=True)
        sh(["git", "-C", "/repo", "worktree", "prune"])


if __name__ == "__main__":
    r = main()
    print(json.dumps(r, indent=1))
    sys.exit(1 if r.get("alarms") or r.get("error") else 0)
