#!/bin/sh
# Run every registered check on /repo (both tiers), then validate MANIFEST + evidence.
# The evidence committed must come from this (the quick tier is run last so that the
# committed evidence files are the quick-tier ones the harness regenerates).
cd "$(dirname "$0")/.."
fail=0
for tier in thorough quick; do
  for p in C01 C02 C03 C04 C05 C06 C07 C08 C09 C10 C11 C12 C14 C15 C16 C17 C18 C19 C20; do
    ./check $p --tier $tier > /tmp/run_all.$p.$tier.out 2>&1
    rc=$?
    printf "%s/%s rc=%s  " $p $tier $rc
    [ $rc -ne 0 ] && fail=1
  done
  echo
done
python3-vt tools/validate.py || fail=1
exit $fail
