#!/usr/bin/env python3
"""Regenerate the seeded-change table (section 9 of DESIGN.md) from seeded/*/meta.json."""
import glob, json, os, re
HERE = os.path.dirname(os.path.dirname(os.path.abspath(__file__)))
rows = []
for mp in sorted(glob.glob(os.path.join(HERE, "seeded", "*", "meta.json"))):
    m = json.load(open(mp))
    det = m.get("detected_by", {})
    rules = []
    for p, keys in sorted(det.items()):
        rs = sorted({k.split(" | ")[0] for k in keys if " | " in k})
        rules.append("%s: %s" % (p, ", ".join(rs) if rs else "(see meta.json)"))
    rows.append((m["seed"], m["property"], (m.get("summary", "") + " - needs: " + m.get("needs_to_manifest", "")).replace("|", "\\|"), "yes" if m.get("detected_by_target") else ("other check" if det else "**missed**"),
                 "; ".join(rules) if rules else "-"))
out = ["| seed | property | change (what it needs to manifest) | caught by its property's check | checks / rules that fire |", "|---|---|---|---|---|"]
for r in rows:
    out.append("| %s | %s | %s | %s | %s |" % r)
table = "\n".join(out)
p = os.path.join(HERE, "DESIGN.md")
s = open(p).read()
b, e = "<!-- SEEDED-TABLE-BEGIN -->", "<!-- SEEDED-TABLE-END -->"
if b in s:
    s = s[:s.index(b) + len(b)] + "\n" + table + "\n" + s[s.index(e):]
    open(p, "w").write(s)
print(table)
