#!/usr/bin/env python3
"""Assert that on /repo every reviewed allowance in tables/*.json is used up by its own function (both tiers).
Run by hand after editing a table: an unused allowance could be borrowed by a new construct of the same kind."""
import glob, json, os, subprocess, sys
HERE = os.path.dirname(os.path.dirname(os.path.abspath(__file__)))
bad = 0
for tier in ("quick", "thorough"):
    for p in sorted(os.path.basename(x)[:-3].upper() for x in glob.glob(os.path.join(HERE, "rules/props/c*.py"))):
        subprocess.run([os.path.join(HERE, "check"), p, "--tier", tier], capture_output=True)
        s = open(os.path.join(HERE, "evidence", p + ".json")).read()
        i = s.find("no longer present")
        while i >= 0:
            print(p, tier, s[i:i + 500].split('"')[0])
            bad += 1
            i = s.find("no longer present", i + 1)
sys.exit(1 if bad else 0)
