"""A1: CFG utilities over facts.Fn; A6: generic graph helpers (Tarjan SCC)."""
import sys

sys.setrecursionlimit(100000)


def reachable(fn, start=0, avoid=(), cleanup=False):
    """Blocks reachable from `start` without entering a block in `avoid`."""
    avoid = set(avoid)
    seen = set()
    st = [start]
    while st:
        b = st.pop()
        if b in seen or b in avoid:
            continue
        seen.add(b)
        for s in fn.succs(b, cleanup=cleanup):
            if s not in seen and s not in avoid:
                st.append(s)
    return seen


def rpo(fn, start=0):
    seen = set()
    order = []

    def dfs(b):
        stack = [(b, iter(fn.succ_map()[b]))]
        seen.add(b)
        while stack:
            n, it = stack[-1]
            adv = False
            for s in it:
                if s not in seen:
                    seen.add(s)
                    stack.append((s, iter(fn.succ_map()[s])))
                    adv = True
                    break
            if not adv:
                order.append(n)
                stack.pop()

    dfs(start)
    order.reverse()
    return order


def dominators(fn, start=0):
    """Immediate dominators (Cooper-Harvey-Kennedy). Returns dict block->idom."""
    order = rpo(fn, start)
    idx = {b: i for i, b in enumerate(order)}
    preds = fn.pred_map()
    idom = {start: start}

    def intersect(a, b):
        while a != b:
            while idx[a] > idx[b]:
                a = idom[a]
            while idx[b] > idx[a]:
                b = idom[b]
        return a

    changed = True
    while changed:
        changed = False
        for b in order[1:]:
            ps = [p for p in preds[b] if p in idom and p in idx]
            if not ps:
                continue
            new = ps[0]
            for p in ps[1:]:
                new = intersect(p, new)
            if idom.get(b) != new:
                idom[b] = new
                changed = True
    return idom


def dominates(idom, a, b):
    """Does block a dominate block b?"""
    if b not in idom:
        return False
    while True:
        if a == b:
            return True
        p = idom[b]
        if p == b:
            return False
        b = p


def dom_set(idom, b):
    out = [b]
    while idom.get(b, b) != b:
        b = idom[b]
        out.append(b)
    return out


def back_edges(fn, start=0):
    idom = dominators(fn, start)
    out = []
    for b in idom:
        for s in fn.succ_map()[b]:
            if s in idom and dominates(idom, s, b):
                out.append((b, s))
    return out


def natural_loops(fn, start=0):
    """dict header -> set of blocks in the loop (merged per header)."""
    preds = fn.pred_map()
    loops = {}
    for (tail, head) in back_edges(fn, start):
        body = loops.setdefault(head, {head})
        st = [tail]
        while st:
            n = st.pop()
            if n in body:
                continue
            body.add(n)
            for p in preds[n]:
                if not fn.is_cleanup(p):
                    st.append(p)
    return loops


def has_cycle(nodes, succ):
    """Is there a cycle in the subgraph induced by `nodes`?  succ(n)->iterable."""
    nodes = set(nodes)
    color = {}
    for root in nodes:
        if root in color:
            continue
        stack = [(root, iter([s for s in succ(root) if s in nodes]))]
        color[root] = 1
        while stack:
            n, it = stack[-1]
            adv = False
            for s in it:
                c = color.get(s, 0)
                if c == 1:
                    return True
                if c == 0:
                    color[s] = 1
                    stack.append((s, iter([x for x in succ(s) if x in nodes])))
                    adv = True
                    break
            if not adv:
                color[n] = 2
                stack.pop()
    return False


def find_cycle(nodes, succ):
    """Return one cycle (list of nodes) in the induced subgraph or None."""
    nodes = set(nodes)
    color = {}
    for root in sorted(nodes, key=str):
        if root in color:
            continue
        path = [root]
        stack = [(root, iter([s for s in succ(root) if s in nodes]))]
        color[root] = 1
        while stack:
            n, it = stack[-1]
            adv = False
            for s in it:
                c = color.get(s, 0)
                if c == 1:
                    i = path.index(s)
                    return path[i:] + [s]
                if c == 0:
                    color[s] = 1
                    path.append(s)
                    stack.append((s, iter([x for x in succ(s) if x in nodes])))
                    adv = True
                    break
            if not adv:
                color[n] = 2
                stack.pop()
                path.pop()
    return None


def sccs(nodes, succ):
    """Tarjan; returns list of SCCs (lists). Iterative."""
    index = {}
    low = {}
    onstack = set()
    stack = []
    out = []
    counter = [0]
    for root in nodes:
        if root in index:
            continue
        work = [(root, iter(succ(root)))]
        index[root] = low[root] = counter[0]
        counter[0] += 1
        stack.append(root)
        onstack.add(root)
        while work:
            n, it = work[-1]
            adv = False
            for s in it:
                if s not in index:
                    index[s] = low[s] = counter[0]
                    counter[0] += 1
                    stack.append(s)
                    onstack.add(s)
                    work.append((s, iter(succ(s))))
                    adv = True
                    break
                elif s in onstack:
                    low[n] = min(low[n], index[s])
            if not adv:
                work.pop()
                if work:
                    p = work[-1][0]
                    low[p] = min(low[p], low[n])
                if low[n] == index[n]:
                    comp = []
                    while True:
                        w = stack.pop()
                        onstack.discard(w)
                        comp.append(w)
                        if w == n:
                            break
                    out.append(comp)
    return out
