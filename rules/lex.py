"""Lexer-specific use of the A2 engine: inject "the byte the reader returns"."""
from . import facts as F
from . import sim
from .sim import Adt, UNK, Opq

OPT = "std::option::Option"
RES = "std::result::Result"

# the primitive operations that hand the parser a byte of input
TRAIT_READS = ("parse::read::Read::peek", "parse::read::Read::next")
SLICE_PEEK = "parse::read::SliceRead::<'a>::peek_byte"
DISCARDS = ("parse::read::Read::discard",)

# thin wrappers around the primitives that the engine looks through
WRAPPERS = {
    "parse::Parser::<R>::peek",
    "parse::Parser::<R>::peek_or_null",
    "parse::Parser::<R>::next_char",
    "parse::Parser::<R>::next_char_or_null",
    "parse::Parser::<R>::eat_char",
    "parse::read::next_or_eof",
    "parse::read::next_or_eof_char",
    "parse::read::error",
    "parse::Parser::<R>::error",
    "parse::Parser::<R>::peek_error",
}


def some(d):
    return Adt(OPT, 1, [d])


def none():
    return Adt(OPT, 0, [])


def ok(v):
    return Adt(RES, 0, [v])


def is_read_call(names):
    return any(n in names for n in TRAIT_READS) or SLICE_PEEK in names


def read_kind(names):
    if "parse::read::Read::peek" in names or SLICE_PEEK in names:
        return "peek"
    if "parse::read::Read::next" in names:
        return "next"
    return None


def reader_hook(d, nth=0, extra=None):
    """Call hook: the (nth+1)-th reader call on a path returns byte d (None=EOF);
    earlier ones return UNK results, the following one stops the path."""

    def hook(S, fn, bb, t, args, path):
        names = F.callee_names(t)
        if extra:
            r = extra(S, fn, bb, t, args, path, names)
            if r is not None:
                return r
        if is_read_call(names):
            n = sum(1 for e in path.events if e[0] == "call" and is_read_call(e[1]))
            if n < nth:
                return None
            if n > nth:
                return ("stop", "next-read")
            opt = some(d) if d is not None else none()
            if SLICE_PEEK in names:
                return ("value", opt)
            return ("value", ok(opt))
        return None

    return hook


_LIGHT = {}


def light_fns(crate):
    """Decision helpers of the parse module: local functions of parse/mod.rs, parse/read.rs without any
    loop and without a direct self-call.  They only dispatch on values already read (the scanners, which
    loop over the input, stay opaque), so abstract evaluation looks through them.  This makes the token-level
    rules independent of how the dispatch is split into helper functions."""
    key = id(crate)
    if key not in _LIGHT:
        from . import cfg
        out = set()
        for f in crate.fns:
            if f.kind == "closure" or not (f.file.endswith("parse/mod.rs") or f.file.endswith("parse/read.rs")):
                continue
            if (f.self_ty or "").startswith("parse::read::") and f.impl_trait in ("parse::read::Read", "std::iter::Iterator"):
                continue       # reader implementations are modelled by the reader hooks
            if cfg.back_edges(f):
                continue
            if any(f.path in F.callee_names(t) or t["callee"].get("resolved") == f.path for _, t in f.calls()):
                continue
            out.add(f.path)
        _LIGHT[key] = out
    return _LIGHT[key]


_THIN = {}
PRIMITIVE_READS = ("peek", "next", "discard", "position", "peek_position", "byte_offset")


def thin_wrappers(crate):
    """Wrappers around single reader operations and error construction, found by what they do: loop-free local
    functions of the parse module whose every call is a method of the Read trait, an Option / Result adaptor or
    `?` plumbing, an error constructor of the error module, or another such wrapper (`next_or_eof(read)`,
    `error(read, code)`, `Parser::peek_error(code)`, and whatever they are renamed or merged into).  The named
    WRAPPERS are the ones of the reviewed tree."""
    key = id(crate)
    if key not in _THIN:
        light = light_fns(crate)
        std_ok = ("std::ops::Try::", "std::ops::FromResidual::", "std::option::Option::<", "std::result::Result::<",
                  "std::convert::From::from", "std::convert::Into::into")
        cand = {}
        for f in crate.fns:
            if f.path not in light or f.impl_trait:
                continue
            tys = [f.local_ty(i) for i in range(1, f.arg_count + 1)]
            # takes the reader (a `&R` / `&mut R` with R: Read) or the parser itself
            if not any(t.startswith("&") for t in tys):
                continue
            rt = f.local_ty(0)
            if not (rt.endswith("error::Error") or rt.startswith("std::result::Result<") or rt in SCALARS or rt == "()"
                    or rt.startswith("std::option::Option<u8")):
                continue
            cand[f.path] = f
        thin = set(cand)
        changed = True
        while changed:
            changed = False
            for pth in sorted(thin):
                f = cand[pth]
                for _bi, t in f.calls():
                    c = t["callee"]
                    nm = F.callee_names(t)
                    tgt = c.get("resolved") or c.get("path") or ""
                    ok = ((c.get("trait") == "parse::read::Read" and c.get("method") in PRIMITIVE_READS) or tgt in thin or tgt in WRAPPERS
                          or any(n.startswith(x) for n in nm for x in std_ok)
                          or tgt.startswith("parse::error::Error::") or tgt.startswith("error::Error::")
                          or (c.get("crate") == crate.name and scalar_fn(crate.fn(tgt)) if crate.fn(tgt) is not None else False))
                    if not ok:
                        thin.discard(pth)
                        changed = True
                        break
        # a wrapper does something with the reader or builds an error; pure plumbing without either is not one
        out = set()
        for pth in thin:
            f = cand[pth]
            if any(t["callee"].get("trait") == "parse::read::Read" or (t["callee"].get("path") or "").endswith("Error::syntax")
                   or (t["callee"].get("resolved") or t["callee"].get("path")) in thin - {pth} for _bi, t in f.calls()):
                out.add(pth)
        _THIN[key] = out
    return _THIN[key]


_PRINT = {}


def print_inline(crate, extra=()):
    """Inline policy for evaluations of the printer: every local function of print.rs that does not call itself
    (helpers for token texts, escapes, digits; the Formatter methods that forward to each other).  Loops inside
    them are bounded by the simulator's visit limit."""
    key = id(crate)
    if key not in _PRINT:
        ok = set()
        for f in crate.fns:
            if f.kind == "closure" or not f.file.endswith("print.rs"):
                continue
            if any(f.path in F.callee_names(t) or t["callee"].get("resolved") == f.path for _, t in f.calls()):
                continue
            ok.add(f.path)
        _PRINT[key] = ok
    ok = _PRINT[key] | set(extra)
    return lambda a, b: b.path in ok


SCALARS = ("u8", "u16", "u32", "u64", "usize", "i8", "i16", "i32", "i64", "isize", "bool", "char", "f64", "f32")


def scalar_fn(b):
    """A local function over scalar arguments only (`fn digit_value(c: u8) -> Option<u8>`, `fn is_delimiter(c: u8) ->
    bool`, `fn integer_from_parts(pos: bool, magnitude: u64) -> Number`): it cannot touch the reader, so every
    evaluation looks through it."""
    def scalar(ty):
        # ... or an optional scalar: `fn ends_symbol(next: Option<u8>) -> bool`
        return ty in SCALARS or (ty.startswith("std::option::Option<") and ty[len("std::option::Option<"):-1] in SCALARS)
    return b.kind != "closure" and b.arg_count >= 1 and all(scalar(b.local_ty(i)) for i in range(1, b.arg_count + 1))


_VCTOR = {}


def value_ctors(crate):
    """Constructors of the value model (`Value::symbol(name)`, `Value::keyword`, `From<..> for Value`, ...): loop-free
    functions of value/mod.rs and value/from.rs that return a Value.  A lexer that builds its atoms as Values in place
    (`Token::Atom(Value::symbol(s))`) is followed into them so that the kind of the atom is seen."""
    key = id(crate)
    if key not in _VCTOR:
        from . import cfg
        out = set()
        for f in crate.fns:
            if f.kind == "closure" or not (f.file.endswith("value/mod.rs") or f.file.endswith("value/from.rs")):
                continue
            if f.local_ty(0) != "value::Value" or cfg.back_edges(f):
                continue
            if any(t["callee"].get("resolved") == f.path or f.path in F.callee_names(t) for _, t in f.calls()):
                continue
            out.add(f.path)
        _VCTOR[key] = out
    return _VCTOR[key]


_SYNT = {}


def syntax_helpers(crate):
    """Loop-free functions of syntax.rs (`KeywordSyntax::to_flag`, a `KeywordSyntaxes::contains`): how an option value
    is stored and tested is looked through."""
    key = id(crate)
    if key not in _SYNT:
        from . import cfg
        _SYNT[key] = {f.path for f in crate.fns if f.kind != "closure" and f.file.endswith("src/syntax.rs") and not f.derived
                      and not cfg.back_edges(f) and not f.impl_trait}
    return _SYNT[key]


def helper_inline(crate, named=()):
    """Inline policy: the named wrappers plus every loop-free local helper of the parse module and every
    local byte predicate `fn(u8) -> bool`."""
    named = set(WRAPPERS) | set(named) | thin_wrappers(crate)
    light = light_fns(crate)
    # a named free function of the parse module tree keeps its role when it moves to a sibling module
    moved = {n.rsplit("::", 1)[1] for n in named if n.startswith("parse::") and "<" not in n}

    vctors = value_ctors(crate)
    synt = syntax_helpers(crate)

    def inline(a, b):
        return b.path in named or b.path in light or b.path in vctors or b.path in synt or (b.crate == crate.name and scalar_fn(b)) or \
            (b.crate == crate.name and b.kind == "fn" and b.path.startswith("parse::") and "<" not in b.path
             and b.path.rsplit("::", 1)[1] in moved)
    return inline


def make_sim(crates, d, nth=0, extra=None, more_inline=(), opaque=None, max_depth=6, light=False):
    hooks = {"call": reader_hook(d, nth, extra)}
    if opaque:
        hooks["opaque"] = opaque
    if light:
        return sim.Sim(crates, hooks=hooks, inline=helper_inline(crates[0], more_inline), max_depth=max_depth)
    inl = set(WRAPPERS) | set(more_inline) | thin_wrappers(crates[0])

    def inline(a, b):
        # wrappers around single reader operations, plus any local byte predicate `fn(u8) -> bool` (is_delimiter and friends)
        return b.path in inl or scalar_fn(b)
    return sim.Sim(crates, hooks=hooks, inline=inline, max_depth=max_depth)


def consumed(path):
    """Did the path consume the injected byte (a `next`, or a `discard` after peek)?"""
    got_peek = False
    for e in path.events:
        if e[0] == "call":
            k = read_kind(e[1])
            if k == "next":
                return True
            if k == "peek":
                got_peek = True
            if any(n in e[1] for n in DISCARDS):
                return True
        if e[0] == "store" and isinstance(e[1], Opq) and e[1].path and e[1].path[-1] == "index":
            return True
    return False


def error_codes(path, crate):
    """ErrorCode variant names constructed on the path (from Error::syntax calls)."""
    out = []
    names = crate.variant_names("parse::error::ErrorCode") or []
    for e in path.events:
        if e[0] == "call" and "parse::error::Error::syntax" in e[1]:
            a = e[2][0] if e[2] else None
            if isinstance(a, Adt) and a.variant < len(names):
                out.append(names[a.variant])
            else:
                out.append("?")
    return out


def ret_shape(path, crate=None):
    """Coarse shape of the returned value: 'Ok', 'Err', or '?'."""
    r = path.ret
    if isinstance(r, Adt) and r.adt.endswith("Result"):
        return "Ok" if r.variant == 0 else "Err"
    return "?"


def fmt_bytes(bs, limit=14):
    bs = list(bs)
    if len(bs) > limit:
        return fmt_bytes(sorted(bs, key=lambda x: (x is None, x))[:limit], limit)[:-1] + ", ... %d bytes in all}" % len(bs)
    out = []
    for b in sorted(bs, key=lambda x: (x is None, x)):
        if b is None:
            out.append("EOF")
        elif 33 <= b < 127:
            out.append("'%s'" % chr(b))
        else:
            out.append("0x%02X" % b)
    return "{" + ", ".join(out) + "}"


def seq_hook(seq, extra=None):
    """Call hook: the reader delivers the bytes of `seq` one after the other (peek does not
    advance, next/discard do); None in seq = end of input; reading past the end stops the path."""

    def pos(path):
        n = 0
        peeked = False
        for e in path.events:
            if e[0] == "call":
                k = read_kind(e[1])
                if k == "next":
                    n += 1
                    peeked = False
                elif any(x in e[1] for x in DISCARDS):
                    n += 1
            elif e[0] == "store" and isinstance(e[1], Opq) and e[1].path and e[1].path[-1] == "index":
                n += 1
        return n

    def hook(S, fn, bb, t, args, path):
        names = F.callee_names(t)
        if extra:
            r = extra(S, fn, bb, t, args, path, names)
            if r is not None:
                return r
        if is_read_call(names):
            i = pos(path)
            if i >= len(seq):
                return ("stop", "past-sequence")
            d = seq[i]
            opt = some(d) if d is not None else none()
            if SLICE_PEEK in names:
                return ("value", opt)
            return ("value", ok(opt))
        return None

    return hook


# ---------------------------------------------------------------- a structural slice reader
SLICE_READ = "parse::read::SliceRead"


def slice_reader(crate, seq):
    """A SliceRead value over the concrete bytes `seq`, positioned at their start: its methods - written around
    peek_byte, direct indexing or slice scans (`iter().position(..)`) alike - run as MIR on it."""
    a = crate.adts.get(SLICE_READ)
    if not a:
        return None
    fs = []
    for f in a["variants"][0]["fields"]:
        if "[u8]" in f["ty"]:
            fs.append(sim.Ref([sim.Bytes(list(seq))], 0, ()))
        elif f["ty"] == "usize":
            fs.append(0)
        else:
            return None
    return Adt(SLICE_READ, 0, fs)


def slice_index(S, cell, path):
    """The index field of the slice reader in `cell` as `path` left it."""
    mine, _ = S._caller_env(cell, path, 0)
    v = mine[0]
    if isinstance(v, Adt) and v.adt == SLICE_READ:
        for x in v.fields:
            if isinstance(x, int):
                return x
    return None


def slice_scan(crate, fn, seq, max_paths=4000):
    """Run the SliceRead method `fn` (self, scratch, ...) on the bytes `seq`; returns (sim, [(path, final index)])."""
    rd = slice_reader(crate, seq)
    if rd is None:
        return None, None
    inl = helper_inline(crate)
    S = sim.Sim([crate], inline=lambda a, b: inl(a, b) or (b.crate == crate.name and (b.self_ty or "").startswith(SLICE_READ)
                                                          and not b.impl_trait and not b.path == fn.path),
                max_paths=max_paths, max_depth=6, max_visits=len(seq) + 3)
    S.structural_vec = True
    cell = [rd]
    args = {1: sim.Ref(cell, 0, ())}
    if fn.arg_count >= 2 and "Vec<u8>" in fn.local_ty(2):
        args[2] = sim.Ref([Adt("sim::Vec", 0, [sim.Tup([])])], 0, ())
    out = []
    for p in S.run(fn, args=args):
        out.append((p, slice_index(S, cell, p)))
    return S, out


def worker_inline(crate, root, named=()):
    """helper_inline, plus: when the evaluated function `root` is a thin wrapper (no loop of its own) its direct
    local callees in the parse module are looked through even if they loop - `parse_list` delegating to a shared
    `parse_list_with::<A>` is evaluated as the code it runs.  (Calls a rule's hook answers are never inlined.)"""
    from . import cfg
    base = helper_inline(crate, named)
    thin = not cfg.back_edges(root)

    def inline(a, b):
        if base(a, b):
            return True
        return thin and a.path == root.path and b.crate == crate.name and b.kind != "closure" \
            and (b.file.endswith("parse/mod.rs") or b.file.endswith("parse/read.rs")) \
            and not any(root.path in F.callee_names(t) for _, t in b.calls())
    return inline


def type_instances(crate, fn):
    """For a function generic over a type parameter it calls trait methods on (`A::expect(self)`): the bindings
    {parameter: implementing type} to evaluate it under, one per local impl of that trait; [{}] otherwise."""
    gens = [g for g in (fn.d.get("generics") or []) if not g.startswith("'")]
    need = {}
    for _, t in fn.calls():
        c = t["callee"]
        if c.get("trait") and "resolved" not in c and c.get("substs") and c["substs"][0] in gens:
            need.setdefault(c["substs"][0], set()).add(c["trait"])
    if not need:
        return [{}]
    outs = [{}]
    for g, traits in sorted(need.items()):
        tys = None
        for tr in traits:
            impls = {f.self_ty for f in crate.fns if f.impl_trait == tr and f.self_ty and f.kind != "closure"}
            tys = impls if tys is None else (tys & impls)
        if not tys:
            return [{}]
        outs = [dict(o, **{g: ty}) for o in outs for ty in sorted(tys)]
    return outs


# ---------------------------------------------------------------- the lexer's private token type
ATOM_KINDS = ("Null", "Nil", "Bool", "Char", "Number", "Symbol", "Keyword", "String", "Bytes")


class TokenModel:
    """parse::Token as the rules see it: a token is named by its kind - `Symbol`, `Number`, .. `ListOpen`, `VecOpen` -
    whether the private enum has one variant per kind or wraps every atom in a single `Atom(Value)`-style variant
    (the kind is then the Value's).  kind(tv) names a token value; payload(tv) is the atom's payload; make(kind, ..)
    builds one to feed the parser with."""

    def __init__(self, crate):
        self.crate = crate
        self.adt = crate.adts.get("parse::Token")
        self.names = crate.variant_names("parse::Token") or []
        self.wrapper = None
        if self.adt:
            for v in self.adt["variants"]:
                if len(v["fields"]) == 1 and v["fields"][0]["ty"] in ("value::Value", "Value") and v["name"] not in ATOM_KINDS:
                    self.wrapper = v
        self.vnames = crate.variant_names("value::Value") or []
        self.ok = bool(self.adt and self.names)

    def _inner(self, tv, S=None, path=None):
        if self.wrapper is not None and isinstance(tv, Adt) and tv.variant == self.wrapper["idx"] and tv.fields:
            v = tv.fields[0]
            if S is not None:
                v = S._deref(v, path)
            if isinstance(v, Adt) and v.adt == "value::Value":
                return v
            return "?"
        return None

    def kind(self, tv, S=None, path=None):
        if not isinstance(tv, Adt) or tv.variant >= len(self.names):
            return "?"
        v = self._inner(tv, S, path)
        if v == "?":
            return "?atom"
        if v is not None:
            return v.vname or (self.vnames[v.variant] if v.variant < len(self.vnames) else "?")
        return self.names[tv.variant]

    def payload(self, tv, S=None, path=None):
        v = self._inner(tv, S, path)
        src = v if isinstance(v, Adt) else tv
        if not isinstance(src, Adt) or not src.fields:
            return None
        p = src.fields[0]
        return S._deref(p, path) if S is not None else p

    def kinds(self):
        """Every token kind of the lexer, atoms first."""
        own = [n for n in self.names if not (self.wrapper and n == self.wrapper["name"])]
        atoms = [k for k in ATOM_KINDS if k in own or self.wrapper is not None]
        return atoms + [n for n in own if n not in ATOM_KINDS]

    def make(self, kind, payload_of=None):
        """A token value of that kind; payload_of(type string) supplies payloads (default: opaque)."""
        from .sim import Opq
        payload_of = payload_of or (lambda ty: Opq("payload"))
        for v in self.adt["variants"]:
            if v["name"] == kind:
                return Adt("parse::Token", v["idx"], [payload_of(f["ty"]) for f in v["fields"]], kind)
        if self.wrapper is not None and kind in self.vnames:
            va = self.crate.adts["value::Value"]["variants"][self.vnames.index(kind)]
            val = Adt("value::Value", va["idx"], [payload_of(f["ty"]) for f in va["fields"]], kind)
            return Adt("parse::Token", self.wrapper["idx"], [val], self.wrapper["name"])
        return None


# ---------------------------------------------------------------- the sequence parsers behind the two APIs
_WORKERS = {}


def seq_workers(crate):
    """Which function parses the contents of a list / a vector for the value API and for the datum API, found by
    role rather than by name: next_value resp. next_datum is evaluated on a ListOpen / VecOpen token, and the first
    local call that receives the closing delimiter is the worker.  A worker is (function, type bindings): a generic
    `parse_list_with::<A>` serves both APIs with different bindings.
    Returns {("value" | "datum", "list" | "vector"): (fn, tyenv)} (missing keys = not found)."""
    key = id(crate)
    if key in _WORKERS:
        return _WORKERS[key]
    P = "parse::Parser::<R>::"
    out = {}
    tm = TokenModel(crate)
    for api, fp in (("value", P + "next_value"), ("datum", P + "next_datum")):
        f = crate.fn(fp)
        if f is None or not tm.ok:
            continue
        for what, kind in (("list", "ListOpen"), ("vector", "VecOpen")):
            tv = tm.make(kind, lambda ty: 0x29 if ty == "u8" else sim.Opq("payload"))
            if tv is None:
                continue
            found = []

            def hook(S, fn, bb, t, args, path, tv=tv, found=found):
                nm = F.callee_names(t)
                if P + "parse_whitespace" in nm:
                    return ("value", ok(some(65)))
                if P + "parse_token" in nm:
                    return ("value", ok(tv))
                c = t["callee"]
                g = crate.fn(c.get("resolved") or c.get("path") or "")
                if g is not None and g.path != fp and g.file.endswith("parse/mod.rs") and not scalar_fn(g) \
                        and any(isinstance(S._deref(a, path), int) and S._deref(a, path) == 0x29 for a in args[1:]) \
                        and not g.path.endswith("::end_seq"):
                    from . import cfg
                    if not cfg.back_edges(g) and g.kind != "closure" and crate.is_new(g.path):
                        # a loop-free step the entry point was split into (charge the depth, parse, close): the parser
                        # of the contents is further in
                        return ("inline", g)
                    found.append((g, S._callee_tyenv(t, g)))
                    return ("stop", "worker")
                return None

            hi = helper_inline(crate)
            light = light_fns(crate)
            inl = lambda a, b, fp=fp: hi(a, b) or (b.kind == "closure" and (b.owner == fp or b.owner in light))
            S = sim.Sim([crate], hooks={"call": hook}, inline=inl, max_depth=6, max_paths=2000)
            try:
                S.run(f)
            except sim.Limit:
                continue
            uniq = {(g.path, tuple(sorted(te.items()))) for g, te in found}
            if len(uniq) == 1:
                out[(api, what)] = found[0]
    _WORKERS[key] = out
    return out
