"""R-TAIL-MAP: every list traversal classifies the cdr of a cell the same way:
Cons -> continue along the spine, Null -> end of a proper list, anything else -> dotted tail."""
from . import common, facts as F, sim
from .sim import Adt, Opq, Ref, UNK


class SynCons:
    def __init__(self, car, cdr):
        self.car = car
        self.cdr = cdr

    def __repr__(self):
        return "SynCons"


def _cell(v):
    return Ref([v], 0, ())


def value_variants(lexpr, adt_name="value::Value"):
    out = []
    for var in lexpr.adts["value::Value"]["variants"]:
        if var["name"] == "Cons":
            inner = SynCons(_cell(Adt(adt_name, 2, [Opq("b")], "Bool")), _cell(Adt(adt_name, 1, [], "Null")))
            out.append(("Cons", Adt(adt_name, var["idx"], [inner], "Cons")))
        else:
            out.append((var["name"], Adt(adt_name, var["idx"], [Opq("payload")] * len(var["fields"]), var["name"])))
    return out


def hook(S, fn, bb, t, args, path):
    p = t["callee"].get("path", "")
    d = [S._deref(a, path) for a in args]
    if p.endswith("Cons::cdr") and d and isinstance(d[0], SynCons):
        return ("value", d[0].cdr)
    if p.endswith("Cons::car") and d and isinstance(d[0], SynCons):
        return ("value", d[0].car)
    return None


def cons_list_iter_map(lexpr):
    """cons::ListIter::next from state Cons(cell): cdr kind -> resulting cursor variant."""
    f = lexpr.fn("<cons::ListIter<'a> as std::iter::Iterator>::next")
    cur = lexpr.adts.get("cons::ListCursor")
    if f is None or not cur:
        return None
    cnames = [v["name"] for v in cur["variants"]]
    cons_idx = cnames.index("Cons")
    inl = lambda a, b: b.crate == "lexpr" and b.file.endswith(("value/mod.rs", "cons.rs"))
    out = {}
    for lab, cdr in value_variants(lexpr):
        cell = SynCons(_cell(Adt("value::Value", 2, [Opq("b")], "Bool")), _cell(cdr))
        me = Adt("cons::ListIter", 0, [Adt("cons::ListCursor", cons_idx, [_cell(cell)], "Cons")])
        S = sim.Sim([lexpr], hooks={"call": hook}, inline=inl, max_depth=4)
        kinds = set()
        env_cell = [me]
        for p in S.run(f, args={1: Ref(env_cell, 0, ())}):
            if p.end != "return":
                continue
            st = env_cell[0].fields[0] if isinstance(env_cell[0], Adt) else None
            kinds.add(cnames[st.variant] if isinstance(st, Adt) else "?")
        out[lab] = "/".join(sorted(kinds))
    return out


def datum_list_iter_map(lexpr):
    """datum::ListIter::next from state Cons(cell, [car_meta, cdr_meta]) with Prim cdr meta: cdr kind -> cursor variant."""
    f = lexpr.fn("<datum::ListIter<'a> as std::iter::Iterator>::next")
    cur = lexpr.adts.get("datum::ListCursor")
    si = lexpr.adts.get("datum::SpanInfo")
    if f is None or not cur or not si:
        return None
    cnames = [v["name"] for v in cur["variants"]]
    sinames = [v["name"] for v in si["variants"]]
    cons_idx = cnames.index("Cons")
    inl = lambda a, b: b.crate == "lexpr" and b.file.endswith(("value/mod.rs", "cons.rs"))
    out = {}
    for lab, cdr in value_variants(lexpr):
        if lab == "Cons":
            continue   # a Cons cdr pairs with SpanInfo::Cons meta; the spine case
        cell = SynCons(_cell(Adt("value::Value", 2, [Opq("b")], "Bool")), _cell(cdr))
        prim = Adt("datum::SpanInfo", sinames.index("Prim"), [Opq("span")], "Prim")
        meta = sim.Tup([Adt("datum::SpanInfo", sinames.index("Prim"), [Opq("span0")], "Prim"), prim])
        me = Adt("datum::ListIter", 0, [Adt("datum::ListCursor", cons_idx, [_cell(cell), _cell(meta)], "Cons")])
        env_cell = [me]
        S = sim.Sim([lexpr], hooks={"call": hook}, inline=inl, max_depth=4)
        kinds = set()
        for p in S.run(f, args={1: Ref(env_cell, 0, ())}):
            if p.end != "return":
                continue
            st = env_cell[0].fields[0] if isinstance(env_cell[0], Adt) else None
            kinds.add(cnames[st.variant] if isinstance(st, Adt) else "?")
        out[lab] = "/".join(sorted(kinds))
    return out


def check(rule, lexpr, which=("cons", "datum")):
    want = lambda lab: "Cons" if lab == "Cons" else ("Exhausted" if lab == "Null" else "Dot")
    n = 0
    if "cons" in which:
        m = cons_list_iter_map(lexpr)
        if m is None:
            rule.anchor_missing("cons::ListIter::next / cons::ListCursor")
        else:
            for lab, got in sorted(m.items()):
                n += 1
                if got == want(lab):
                    rule.ok("Value list iterator: cdr of kind %s -> cursor %s" % (lab, got))
                else:
                    rule.violation("<cons::ListIter<'a> as std::iter::Iterator>::next", "tail:%s" % lab,
                                   "the element iterator moves to state %s when the cdr is a %s value; a Cons continues "
                                   "the list, only the empty list ends it, every other kind is a dotted tail (expected %s)"
                                   % (got, lab, want(lab)))
    if "datum" in which:
        m = datum_list_iter_map(lexpr)
        if m is None:
            rule.anchor_missing("datum::ListIter::next / datum::ListCursor")
        else:
            for lab, got in sorted(m.items()):
                n += 1
                if got == want(lab):
                    rule.ok("Datum list iterator: cdr of kind %s -> cursor %s" % (lab, got))
                else:
                    rule.violation("<datum::ListIter<'a> as std::iter::Iterator>::next", "tail:%s" % lab,
                                   "the datum list iterator moves to state %s when the cdr is a %s value (expected %s): it "
                                   "no longer exposes the structure the value's own iterator exposes" % (got, lab, want(lab)))
    return n
