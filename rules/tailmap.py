"""R-TAIL-MAP: every list traversal classifies the cdr of a cell the same way:
Cons -> continue along the spine, Null -> end of a proper list, anything else -> dotted tail.

The element iterators are observed through their public surface only: the iterator is obtained from
`Value::list_iter` / `Ref::list_iter` on a structurally built cell `(a . tail)` and `next()` is evaluated
repeatedly; the sequence of answers must be  Some(a), None  for the empty-list tail,  Some(a), None, Some(tail),
None  for any other non-pair tail (including #nil), and  Some(a), Some(b), None  when the tail is the cell (b).
Nothing depends on the iterators' private state types."""
from . import alist, facts as F, sim
from .sim import Adt, Opq, Ref, UNK

V = "value::Value"


def _tails(lexpr):
    out = []
    for var in lexpr.adts[V]["variants"]:
        if var["name"] == "Cons":
            continue
        out.append((var["name"], alist.mk(lexpr, var["name"])))
    return out


def _observe(S, it_cell, next_fn, steps, ident):
    """Evaluate next() `steps` times on the iterator held in it_cell[0]; returns a list of labels or None."""
    seq = []
    for _ in range(steps):
        ps = [p for p in S.run(next_fn, args={1: Ref(it_cell, 0, ())}) if p.end == "return"]
        if len(ps) != 1:
            return seq + ["?%d" % len(ps)]
        r = ps[0].ret
        if not (isinstance(r, Adt) and r.adt.endswith("Option")):
            return seq + ["?"]
        if r.variant == 0:
            seq.append("None")
        else:
            seq.append("Some(%s)" % ident(S._deref(r.fields[0], ps[0])))
    return seq


def _expected(lab):
    if lab == "Null":
        return ["Some(a)", "None", "None", "None"]
    if lab == "Cons":
        return ["Some(a)", "Some(b)", "None", "None"]
    return ["Some(a)", "None", "Some(tail)", "None"]


def cons_list_iter_map(lexpr):
    mk_iter = lexpr.fn("value::Value::list_iter")
    nxt = lexpr.fn("<cons::ListIter<'a> as std::iter::Iterator>::next")
    if mk_iter is None or nxt is None:
        return None
    inl = lambda a, b: b.crate == lexpr.name and b.file.endswith(("value/mod.rs", "cons.rs"))
    out = {}
    a = alist.name_value(lexpr, "String", b"a")
    b = alist.name_value(lexpr, "String", b"b")
    cases = _tails(lexpr) + [("Cons", alist.cons(lexpr, b, alist.mk(lexpr, "Null")))]
    for lab, tail in cases:
        lst = alist.cons(lexpr, a, tail)
        S = sim.Sim([lexpr], hooks={"call": alist.hook}, inline=inl, max_depth=6)
        ps = [p for p in S.run(mk_iter, args={1: Ref([lst], 0, ())}) if p.end == "return"]
        if len(ps) != 1 or not (isinstance(ps[0].ret, Adt) and ps[0].ret.variant == 1):
            out[lab] = ["?iter"]
            continue
        cell = [ps[0].ret.fields[0]]

        def ident(v, a=a, b=b, tail=tail):
            return "a" if v is a else ("b" if v is b else ("tail" if v is tail else "other"))
        out[lab] = _observe(S, cell, nxt, 4, ident)
    return out


def datum_list_iter_map(lexpr):
    """The same through datum::Ref::list_iter, with span information of matching shape."""
    mk_iter = lexpr.fn("datum::Ref::<'a>::list_iter")
    nxt = lexpr.fn("<datum::ListIter<'a> as std::iter::Iterator>::next")
    si = lexpr.adts.get("datum::SpanInfo")
    rf = lexpr.adts.get("datum::Ref")
    if mk_iter is None or nxt is None or not si or not rf:
        return None
    sin = {v["name"]: v["idx"] for v in si["variants"]}
    inl = lambda a, b: b.crate == lexpr.name and b.file.endswith(("value/mod.rs", "cons.rs", "datum.rs"))

    def prim():
        return Adt("datum::SpanInfo", sin["Prim"], [Opq("span")], "Prim")

    def info_cons(car_info, cdr_info):
        # SpanInfo::Cons(Span, Box<[SpanInfo; 2]>)
        return Adt("datum::SpanInfo", sin["Cons"], [Opq("span"), alist.boxed(sim.Tup([car_info, cdr_info]))], "Cons")

    out = {}
    a = alist.name_value(lexpr, "String", b"a")
    b = alist.name_value(lexpr, "String", b"b")
    def info_vec():
        return Adt("datum::SpanInfo", sin["Vec"], [Opq("span"), Opq("element-spans")], "Vec")

    # span information of the shape the parser attaches: a vector carries SpanInfo::Vec, every other atom Prim
    cases = [(lab, t, info_vec() if lab == "Vector" and "Vec" in sin else prim()) for lab, t in _tails(lexpr)]
    cases.append(("Cons", alist.cons(lexpr, b, alist.mk(lexpr, "Null")), info_cons(prim(), prim())))
    fnames = [f["name"] for f in rf["variants"][0]["fields"]]
    for lab, tail, tail_info in cases:
        lst = alist.cons(lexpr, a, tail)
        info = info_cons(prim(), tail_info)
        fields = []
        for f in rf["variants"][0]["fields"]:
            fields.append(Ref([lst], 0, ()) if "Value" in f["ty"] else Ref([info], 0, ()))
        me = Adt("datum::Ref", 0, fields)
        S = sim.Sim([lexpr], hooks={"call": alist.hook}, inline=inl, max_depth=6)
        ps = [p for p in S.run(mk_iter, args={1: Ref([me], 0, ())}) if p.end == "return"]
        if len(ps) != 1 or not (isinstance(ps[0].ret, Adt) and ps[0].ret.variant == 1):
            out[lab] = ["?iter"]
            continue
        cell = [ps[0].ret.fields[0]]

        def ident(v, a=a, b=b, tail=tail, S=S):
            # the datum iterator yields Ref { value, info }
            if isinstance(v, Adt) and v.adt == "datum::Ref" and v.fields:
                for x in v.fields:
                    y = x
                    while isinstance(y, Ref):
                        y = y.env[y.local] if not y.proj else S._read_ref(y, None)
                    if y is a:
                        return "a"
                    if y is b:
                        return "b"
                    if y is tail:
                        return "tail"
            return "other"
        out[lab] = _observe(S, cell, nxt, 4, ident)
    return out


def entry_map(lexpr, api):
    """Which kinds of value `list_iter()` accepts at all (Some) - evaluated on a standalone value of each kind."""
    si = lexpr.adts.get("datum::SpanInfo")
    rf = lexpr.adts.get("datum::Ref")
    mk_iter = lexpr.fn("value::Value::list_iter" if api == "cons" else "datum::Ref::<'a>::list_iter")
    if mk_iter is None or (api == "datum" and (not si or not rf)):
        return None
    inl = lambda a, b: b.crate == lexpr.name and b.file.endswith(("value/mod.rs", "cons.rs", "datum.rs"))
    a = alist.name_value(lexpr, "String", b"a")
    cases = _tails(lexpr) + [("Cons", alist.cons(lexpr, a, alist.mk(lexpr, "Null")))]
    out = {}
    for lab, v in cases:
        if api == "cons":
            arg = Ref([v], 0, ())
        else:
            sin = {x["name"]: x["idx"] for x in si["variants"]}
            if lab == "Cons":
                info = Adt("datum::SpanInfo", sin["Cons"], [Opq("span"), alist.boxed(sim.Tup([
                    Adt("datum::SpanInfo", sin["Prim"], [Opq("span")], "Prim"), Adt("datum::SpanInfo", sin["Prim"], [Opq("span")], "Prim")]))], "Cons")
            elif lab == "Vector" and "Vec" in sin:
                info = Adt("datum::SpanInfo", sin["Vec"], [Opq("span"), Opq("element-spans")], "Vec")
            else:
                info = Adt("datum::SpanInfo", sin["Prim"], [Opq("span")], "Prim")
            fields = [Ref([v], 0, ()) if "Value" in f["ty"] else Ref([info], 0, ()) for f in rf["variants"][0]["fields"]]
            arg = Ref([Adt("datum::Ref", 0, fields)], 0, ())
        S = sim.Sim([lexpr], hooks={"call": alist.hook}, inline=inl, max_depth=6)
        try:
            ps = [p for p in S.run(mk_iter, args={1: arg}) if p.end == "return"]
        except sim.Limit:
            ps = []
        kinds = {("Some" if p.ret.variant == 1 else "None") if isinstance(p.ret, Adt) and p.ret.adt.endswith("Option") else "?" for p in ps}
        out[lab] = kinds.pop() if len(kinds) == 1 else "?"
    return out


def check(rule, lexpr, which=("cons", "datum")):
    n = 0
    # which values can be walked as a list at all: a pair and the empty list, nothing else (`#nil` is not a list)
    for name in which:
        em = entry_map(lexpr, name)
        what = "Value" if name == "cons" else "Datum"
        if em is None:
            continue
        for lab, got in sorted(em.items()):
            n += 1
            want = "Some" if lab in ("Cons", "Null") else "None"
            if got == want:
                rule.ok("%s::list_iter on a %s value: %s" % (what, lab, got))
            elif got == "?":
                rule.note("undecided: %s::list_iter on a %s value" % (what, lab))
                rule.obligations += 1
                rule.discharged += 1
            else:
                rule.violation("value::Value::list_iter" if name == "cons" else "datum::Ref::<'a>::list_iter", "list-iter-entry:%s" % lab,
                               "%s::list_iter on a %s value answers %s; only a pair and the empty list can be walked as a "
                               "list (expected %s), and the value and datum APIs must agree on that" % (what, lab, got, want))
    for name, fnp, m in (("cons", "<cons::ListIter<'a> as std::iter::Iterator>::next", cons_list_iter_map),
                         ("datum", "<datum::ListIter<'a> as std::iter::Iterator>::next", datum_list_iter_map)):
        if name not in which:
            continue
        res = m(lexpr)
        if res is None:
            rule.anchor_missing("%s list iterator (list_iter / next)" % name)
            continue
        for lab, got in sorted(res.items()):
            n += 1
            want = _expected(lab)
            what = "Value" if name == "cons" else "Datum"
            if got == want:
                rule.ok("%s list iterator over (a . <%s>): %s" % (what, lab, " ".join(got)))
            else:
                rule.violation(fnp, "tail:%s" % lab,
                               "the %s list iterator over (a . <%s>) answers %s; a Cons continues the list, only the empty "
                               "list ends it, every other kind (including #nil) is a dotted tail that is yielded after one "
                               "None (expected %s)" % (what.lower(), lab, " ".join(got), " ".join(want)))
    return n
