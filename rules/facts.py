"""Fact database: loads the JSON written by tools/mirfacts and indexes it."""
import json
import os


class Fn:
    def __init__(self, d, crate):
        self.d = d
        self.crate = crate
        self.path = d["path"]
        self.key = crate + "::" + d["path"]
        self.blocks = d["blocks"]
        self.locals = d["locals"]
        self.real_file = d.get("file", "?")
        # scopes are written in terms of the parser's two main files; a private child module split off from them
        # (`parse/escape.rs`, `parse/value_iter.rs`) is part of the same scope
        self.file = self.real_file
        pre, sep, rest = self.real_file.rpartition("lexpr/src/parse/")
        if sep and "/" not in rest and rest not in ("mod.rs", "read.rs", "error.rs", "iter.rs"):
            self.file = pre + sep + "read.rs"
        if d.get("reviewed_file"):
            self.file = d["reviewed_file"]      # moved code keeps the scope it was reviewed in (rules/rename.py)
        self.line_lo = d.get("line_lo", 0)
        self.line_hi = d.get("line_hi", 0)
        self.arg_count = d.get("arg_count", 0)
        self.owner = d.get("owner", self.path)
        self.impl_trait = d.get("impl_trait")
        self.self_ty = d.get("self_ty")
        self.derived = d.get("derived", False)
        self.kind = d.get("kind")
        self.is_pub = d.get("is_pub", False)
        self._succ = None
        self._pred = None

    def __repr__(self):
        return "<Fn %s>" % self.key

    def loc(self, line=None):
        return "%s:%s" % (self.real_file, line if line else self.line_lo)

    # ---------------------------------------------------------------- CFG
    def term(self, b):
        return self.blocks[b]["term"]

    def succs(self, b, cleanup=False):
        t = self.blocks[b]["term"]
        k = t["k"]
        out = []
        if k == "goto":
            out = [t["t"]]
        elif k == "switch":
            out = [x[1] for x in t["targets"]] + [t["otherwise"]]
        elif k in ("drop", "assert", "call"):
            if "t" in t:
                out = [t["t"]]
            if cleanup and "unwind" in t:
                out = out + [t["unwind"]]
        return out

    def succ_map(self):
        if self._succ is None:
            self._succ = [list(dict.fromkeys(self.succs(b))) for b in range(len(self.blocks))]
        return self._succ

    def pred_map(self):
        if self._pred is None:
            p = [[] for _ in self.blocks]
            for b, ss in enumerate(self.succ_map()):
                for s in ss:
                    p[s].append(b)
            self._pred = p
        return self._pred

    def is_cleanup(self, b):
        return self.blocks[b].get("cleanup", False)

    def calls(self):
        """Yield (block index, terminator) for every non-cleanup call."""
        for i, b in enumerate(self.blocks):
            if b.get("cleanup"):
                continue
            t = b["term"]
            if t["k"] == "call":
                yield i, t

    def local_name(self, l):
        return self.locals[l].get("name")

    def local_ty(self, l):
        return self.locals[l]["ty"]

    def param_index(self, name):
        for i in range(1, self.arg_count + 1):
            if self.locals[i].get("name") == name:
                return i
        return None


def callee_path(t):
    """Best static name of a call terminator's callee."""
    c = t["callee"]
    return c.get("path")


def callee_names(t):
    """All names a callee may be matched by: path, resolved path, trait::method."""
    c = t["callee"]
    names = set()
    for k in ("path", "resolved"):
        if c.get(k):
            names.add(c[k])
    if c.get("trait") and c.get("method"):
        names.add(c["trait"] + "::" + c["method"])
    if c.get("impl_of_trait") and c.get("method"):
        names.add(c["impl_of_trait"] + "::" + c["method"])
    return names


def _strip_lifetimes(path):
    """`a::B::<'x>::f` -> `a::B::f`; `a::B::<'x, T>::f` -> `a::B::<T>::f`."""
    import re
    def fix(m):
        parts = [x.strip() for x in m.group(1).split(",")]
        rest = [x for x in parts if not x.startswith("'")]
        return "::<%s>" % ", ".join(rest) if rest else ""
    return re.sub(r"::<([^<>]*)>", fix, path)


class Crate:
    def __init__(self, path):
        with open(path) as fh:
            d = json.load(fh)
        self.name = d["crate"]
        self.config = d["config"]
        self.adts = d["adts"]
        self.ext_adts = d.get("ext_adts", {})
        self.statics = d["statics"]
        self.fns = [Fn(f, self.name) for f in d["fns"]]
        self.by_path = {}
        self._nolife = None
        self._byname = None
        self._reviewed = None
        self.by_dp = {}
        for f in self.fns:
            self.by_path.setdefault(f.path, []).append(f)
            if f.d.get("dp"):
                self.by_dp[f.d["dp"]] = f

    def fn(self, path):
        """Exactly one function with this def path, else None."""
        fs = self.by_path.get(path, [])
        if not fs:
            # the same path up to lifetime parameters (`Parser::parse` vs `Parser::<'a>::parse`)
            if self._nolife is None:
                self._nolife = {}
                for f in self.fns:
                    self._nolife.setdefault(_strip_lifetimes(f.path), []).append(f)
            fs = self._nolife.get(_strip_lifetimes(path), [])
        if not fs and "::" in path and not path.startswith("<"):
            # a free function moved to a sibling / child module of the same top-level module
            # (`parse::read::parse_r6rs_escape` -> `parse::escape::parse_r6rs_escape`): unique by its own name
            top, base = path.split("::", 1)[0], path.rsplit("::", 1)[1]
            if self._byname is None:
                self._byname = {}
                for f in self.fns:
                    if f.kind == "fn" and not f.path.startswith("<"):
                        self._byname.setdefault((f.path.split("::", 1)[0], f.path.rsplit("::", 1)[1]), []).append(f)
            fs = self._byname.get((top, base), [])
        return fs[0] if len(fs) == 1 else None

    def is_new(self, path):
        """Not a function of the reviewed tree (after rename normalisation): an extracted helper, a worker a function
        was split into.  Without a reviewed vocabulary nothing counts as new."""
        if self._reviewed is None:
            from . import rename
            b = rename.baseline()["fns"].get("%s.%s" % (self.name, self.config))
            self._reviewed = set(b) if b else False
        if self._reviewed is False:
            return False
        owner = path.split("::{closure", 1)[0]
        return owner not in self._reviewed

    def parts_of(self, path):
        """The function together with what it was split into: its closures, and - transitively - the *new* local
        functions it calls and their closures.  Rules that read one function's body read its parts."""
        root = self.fn(path)
        if root is None:
            return []
        out, work, seen = [], [root], set()
        while work:
            f = work.pop(0)
            if f.path in seen:
                continue
            seen.add(f.path)
            out.append(f)
            work.extend(self.closures_of(f.path))
            for _bi, t in f.calls():
                c = t["callee"]
                tgt = c.get("resolved") or c.get("path") or ""
                g = self.fn(tgt) if c.get("resolved_crate", c.get("crate")) == self.name else None
                if g is not None and g.kind != "closure" and self.is_new(g.path) and g.file == root.file:
                    work.append(g)
        return out

    def fns_matching(self, pred):
        return [f for f in self.fns if pred(f)]

    def static_bytes(self, name):
        s = self.statics.get(name)
        if s is None:
            return None
        if "bytes" in s:
            return s["bytes"]
        return s.get("target_bytes")

    def variant_names(self, adt):
        a = self.adts.get(adt)
        if not a:
            return None
        return [v["name"] for v in a["variants"]]

    def closures_of(self, owner_path):
        return [f for f in self.fns if f.kind == "closure" and f.owner == owner_path]


class Mono:
    def __init__(self, path):
        with open(path) as fh:
            d = json.load(fh)
        self.nodes = d["nodes"]
        self.edges = d["edges"]
        self.roots = d["roots"]
        self.out = {}
        for e in self.edges:
            if "to" in e:
                self.out.setdefault(e["from"], []).append(e)


class DB:
    def __init__(self, factdir):
        self.dir = factdir
        self._crates = {}
        self._mono = {}

    def crate(self, name, config="default"):
        k = (name, config)
        if k not in self._crates:
            p = os.path.join(self.dir, "%s.%s.json" % (name, config))
            if not os.path.exists(p):
                return None
            self._crates[k] = Crate(p)
        return self._crates[k]

    def mono(self, name="roots", config="mono"):
        k = (name, config)
        if k not in self._mono:
            p = os.path.join(self.dir, "%s.%s.mono.json" % (name, config))
            if not os.path.exists(p):
                return None
            self._mono[k] = Mono(p)
        return self._mono[k]
