"""R-PANIC-INV / R-ARITH: inventory of potentially panicking constructs."""
from . import cfg, common, facts
from .report import Pool

PANIC_FNS = (
    "core::panicking::panic", "core::panicking::panic_fmt", "core::panicking::panic_display",
    "core::panicking::unreachable_display", "core::panicking::panic_explicit", "std::rt::begin_panic",
    "core::panicking::assert_failed", "core::panicking::panic_nounwind", "core::panicking::panic_str",
    "std::rt::panic_fmt", "core::panicking::panic_bounds_check", "core::option::expect_failed",
    "core::result::unwrap_failed", "core::panicking::panic_const",
)
UNWRAPS = {
    "std::option::Option::<T>::unwrap": "Option::unwrap",
    "std::option::Option::<T>::expect": "Option::expect",
    "std::result::Result::<T, E>::unwrap": "Result::unwrap",
    "std::result::Result::<T, E>::expect": "Result::expect",
    "std::result::Result::<T, E>::unwrap_err": "Result::unwrap_err",
    "std::result::Result::<T, E>::expect_err": "Result::expect_err",
}
PANICKY_STD = (
    "copy_from_slice", "clone_from_slice", "split_at", "split_at_mut", "swap_remove", "::remove", "::insert",
    "::drain", "::split_off", "::swap", "from_digit", "::borrow_mut", "::chunks", "::windows", "::step_by",
    "::rotate_left", "::rotate_right", "::abs_diff",
)


def macro_of(t):
    return t.get("macro", "")


def inventory(fn):
    """List of dicts {kind, detail, line, block} for one function (non-cleanup blocks)."""
    out = []
    for bi, b in enumerate(fn.blocks):
        if b.get("cleanup"):
            continue
        t = b["term"]
        if t["k"] == "call":
            c = t["callee"]
            p = c.get("path", "")
            if p.startswith("core::panicking::") or p in PANIC_FNS or p.startswith("std::rt::begin_panic"):
                out.append({"kind": "panic", "detail": p.rsplit("::", 1)[1], "line": t.get("line"), "block": bi})
            elif p in UNWRAPS:
                out.append({"kind": "unwrap", "detail": UNWRAPS[p], "line": t.get("line"), "block": bi})
            elif c.get("trait") in ("std::ops::Index", "std::ops::IndexMut"):
                st = (c.get("substs") or ["?"])[0]
                if c.get("resolved_crate") in ("lexpr", "serde_lexpr"):
                    continue  # a local Index impl: its own body is inventoried
                out.append({"kind": "index", "detail": "%s[%s]" % (st, (c.get("substs") or ["?", "?"])[1]),
                            "line": t.get("line"), "block": bi})
            elif c.get("crate") in ("core", "alloc", "std") and any(p.endswith(x) or (x + "::") in p for x in PANICKY_STD) \
                    and ("slice" in p or "vec" in p.lower() or "string" in p.lower() or "char" in p):
                out.append({"kind": "std-panicky", "detail": p, "line": t.get("line"), "block": bi})
        elif t["k"] == "assert":
            m = t["msg"]
            if m == "BoundsCheck":
                out.append({"kind": "bounds", "detail": "index", "line": t.get("line"), "block": bi, "term": t})
            elif m in ("DivisionByZero", "RemainderByZero"):
                out.append({"kind": "div", "detail": m, "line": t.get("line"), "block": bi, "term": t})
            elif m in ("MisalignedPointerDereference", "NullPointerDereference", "InvalidEnumConstruction"):
                continue  # debug-build pointer/enum sanity checks inserted by rustc, not source-level panics
            elif m in ("Overflow", "OverflowNeg"):
                out.append({"kind": "overflow", "detail": t.get("binop", "Neg"), "line": t.get("line"), "block": bi,
                            "term": t})
            else:
                out.append({"kind": "assert", "detail": m, "line": t.get("line"), "block": bi})
    return out


def _place_key(pl):
    """Hashable description of a place made of derefs and named fields only."""
    ks = [pl["l"]]
    for e in pl["p"]:
        if e == "*":
            ks.append("*")
        elif isinstance(e, dict) and "f" in e:
            ks.append(("f", e["f"]))
        elif isinstance(e, dict) and "d" in e:
            ks.append(("d", e["d"]))
        else:
            return None
    return tuple(ks)


def _trace_copy(fn, defs, op, block):
    """Follow `_x = copy <place>` / `_x = move _y` / `_x = &(*_y)` chains; return a place key."""
    seen = 0
    while op.get("c") in ("copy", "move") and seen < 16:
        pl = op["pl"]
        if pl["p"]:
            return _place_key(pl)
        ds = defs.get(pl["l"], [])
        if len(ds) != 1:
            return ("local", pl["l"])
        (db, si, rv) = ds[0]
        if si == "term":
            return ("local", pl["l"])
        if rv["k"] == "use":
            op = rv["op"]
            seen += 1
            continue
        if rv["k"] in ("ref", "rawptr") and rv["pl"]["p"] == ["*"]:
            op = {"c": "copy", "pl": {"l": rv["pl"]["l"], "p": []}}
            seen += 1
            continue
        return ("local", pl["l"])
    return None


def _len_of(fn, defs, op):
    """If operand is the length of a slice-like place, return that place's key."""
    if op.get("c") not in ("copy", "move") or op["pl"]["p"]:
        return None
    ds = defs.get(op["pl"]["l"], [])
    if len(ds) != 1:
        return None
    (db, si, d) = ds[0]
    if si == "term":
        p = d["callee"].get("path", "")
        if p.endswith("<impl [T]>::len") or p.endswith("Vec::<T, A>::len") or p.endswith("<impl str>::len"):
            a0 = d["args"][0]
            return _trace_copy(fn, defs, a0, db)
        return None
    if d["k"] == "un" and d["op"] == "PtrMetadata":
        return _trace_copy(fn, defs, d["a"], db)
    if d["k"] == "use":
        return _len_of(fn, defs, d["op"])
    return None


UMAX = {"u8": 255, "u16": 65535, "u32": (1 << 32) - 1, "bool": 1}


def upper_bound(fn, defs, op, depth):
    """Sound upper bound of an unsigned integer operand, or None."""
    if depth > 8:
        return None
    c = common.const_int(op)
    if c is not None:
        return c if c >= 0 else None
    if op.get("c") not in ("copy", "move"):
        return None
    pl = op["pl"]
    if pl["p"] == [{"f": 0}] or (len(pl["p"]) == 1 and isinstance(pl["p"][0], dict) and pl["p"][0].get("f") == 0
                                 and "adt" not in pl["p"][0]):
        # `.0` of a checked arithmetic tuple: the overflow assert guarantees the exact result
        ds = defs.get(pl["l"], [])
        if len(ds) == 1 and ds[0][1] != "term" and ds[0][2]["k"] == "bin" and ds[0][2]["op"].endswith("WithOverflow"):
            rv = ds[0][2]
            a = upper_bound(fn, defs, rv["a"], depth + 1)
            b = upper_bound(fn, defs, rv["b"], depth + 1)
            if rv["op"] == "AddWithOverflow" and a is not None and b is not None:
                return a + b
            if rv["op"] == "MulWithOverflow" and a is not None and b is not None:
                return a * b
            if rv["op"] == "SubWithOverflow" and a is not None:
                return a
        return None
    if pl["p"]:
        return None
    ty = fn.local_ty(pl["l"])
    tb = UMAX.get(ty)
    ds = defs.get(pl["l"], [])
    if len(ds) == 1 and ds[0][1] == "term":
        # `usize::from(x)` / `u32::from(x)`: lossless widening (core::convert::num) keeps the argument's bound
        t = ds[0][2]
        c = t.get("callee", {})
        if t.get("k") == "call" and c.get("method") == "from" and len(t["args"]) == 1 \
                and "convert::num" in (c.get("resolved_dp") or ""):
            b = upper_bound(fn, defs, t["args"][0], depth + 1)
            if b is not None:
                return min(b, tb) if tb is not None else b
        return tb
    if len(ds) != 1:
        return tb
    rv = ds[0][2]
    b = None
    if rv["k"] == "use":
        b = upper_bound(fn, defs, rv["op"], depth + 1)
    elif rv["k"] == "cast" and rv["ck"].startswith("IntToInt") and rv["from"] in UMAX or \
            (rv["k"] == "cast" and rv["ck"].startswith("IntToInt") and rv["from"] in ("usize", "u64")):
        b = upper_bound(fn, defs, rv["op"], depth + 1)
        fb = UMAX.get(rv["from"])
        if b is None:
            b = fb
        tb2 = UMAX.get(rv["to"])
        if b is not None and tb2 is not None and b > tb2:
            b = tb2
    elif rv["k"] == "bin":
        a = upper_bound(fn, defs, rv["a"], depth + 1)
        c2 = common.const_int(rv["b"])
        if rv["op"] == "Shr" and a is not None and c2 is not None and 0 <= c2 < 64:
            b = a >> c2
        elif rv["op"] == "BitAnd":
            bb = upper_bound(fn, defs, rv["b"], depth + 1)
            cands = [x for x in (a, bb) if x is not None]
            b = min(cands) if cands else None
        elif rv["op"] == "Rem" and c2 is not None and c2 > 0:
            b = c2 - 1
        elif rv["op"] in ("Add", "AddUnchecked"):
            bb = upper_bound(fn, defs, rv["b"], depth + 1)
            if a is not None and bb is not None:
                b = a + bb        # callers compare with a bound far below the type's range
    if b is None:
        return tb
    if tb is not None:
        return min(b, tb)
    return b


def bounds_discharged(fn, item, defs=None, idom=None):
    """Auto-discharge a BoundsCheck: constant index below constant length, or the
    repo's `if i < s.len() { s[i] }` idiom (same places, guard dominates, no store between)."""
    t = item["term"]
    ln, ix = t["ops"]
    if defs is None:
        defs = common.defs_of(fn)
    cl = common.const_int(ln)
    ub = upper_bound(fn, defs, ix, 0)
    if cl is not None and ub is not None:
        if ub < cl:
            return True, "index <= %d < constant length %d" % (ub, cl)
        return False, None
    if idom is None:
        idom = cfg.dominators(fn)
    ikey = _trace_copy(fn, defs, ix, item["block"])
    skey = _len_of(fn, defs, ln)
    if ikey is None or skey is None:
        return False, None
    # look for a dominating switch on Lt(ikey, len(skey)) taken on its true edge
    for bi, b in enumerate(fn.blocks):
        tt = b["term"]
        if tt["k"] != "switch" or b.get("cleanup"):
            continue
        op = tt["op"]
        if op.get("c") not in ("copy", "move") or op["pl"]["p"]:
            continue
        ds = [d for d in defs.get(op["pl"]["l"], []) if d[0] == bi and d[1] != "term"]
        if len(ds) != 1:
            continue
        rv = ds[0][2]
        if rv["k"] != "bin" or rv["op"] not in ("Lt", "Gt", "Ge", "Le"):
            continue
        # i < len / len > i hold on the true edge; i >= len / len <= i are refuted on the false edge
        a, b2 = (rv["a"], rv["b"]) if rv["op"] in ("Lt", "Ge") else (rv["b"], rv["a"])
        if _trace_copy(fn, defs, a, bi) != ikey or _len_of(fn, defs, b2) != skey:
            continue
        true_t = tt["otherwise"]
        for v, tg in tt["targets"]:
            if v == 1:
                true_t = tg
        false_t = tt["otherwise"]
        for v, tg in tt["targets"]:
            if v == 0:
                false_t = tg
        if true_t == false_t:
            continue
        if rv["op"] in ("Ge", "Le"):
            true_t = false_t       # the edge on which index < len is known
        if not cfg.dominates(idom, true_t, item["block"]):
            continue
        # no store to the index place / no &mut escape of its base between guard and use
        region = cfg.reachable(fn, true_t, avoid=[item["block"]]) | {item["block"]}
        region = {x for x in region if cfg.dominates(idom, true_t, x)}
        clean = True
        for x in region:
            for s in fn.blocks[x]["stmts"]:
                if s["k"] == "assign" and _place_key(s["place"]) in (ikey, skey):
                    clean = False
            if x != item["block"]:
                tx = fn.blocks[x]["term"]
                if tx["k"] == "call":
                    for a_ty in tx.get("arg_tys", []):
                        if a_ty.startswith("&mut "):
                            clean = False
        if clean:
            return True, "guarded by `%s < len` at line %s on the same places" % ("index", tt.get("line"))
    return False, None


def _same_slice(fn, defs, a, b, blk):
    ka, kb = _trace_copy(fn, defs, a, blk), _trace_copy(fn, defs, b, blk)
    return ka is not None and ka == kb


def _le_len(fn, defs, op, slice_op, blk, depth=0):
    """Is the usize operand `op` at most the length of the slice `slice_op` refers to?  Sound local facts only:
    the slice's own len(); an index found by position / rposition over that slice's iter() (strictly less);
    unwrap_or of such values; the payload of a match on such an Option."""
    if depth > 6 or op.get("c") not in ("copy", "move"):
        return False
    pl = op["pl"]
    if pl["p"]:
        # payload of `Some(i)`: (opt as Some).0 of a local holding a position result
        if len(pl["p"]) == 2 and isinstance(pl["p"][0], dict) and "d" in pl["p"][0] and pl["p"][0].get("n") == "Some" \
                and isinstance(pl["p"][1], dict) and pl["p"][1].get("f") == 0:
            return _is_position_of(fn, defs, {"c": "copy", "pl": {"l": pl["l"], "p": []}}, slice_op, blk, depth + 1)
        return False
    ds = defs.get(pl["l"], [])
    if len(ds) != 1:
        return False
    (db, si, d) = ds[0]
    if si == "term":
        c = d["callee"]
        p = c.get("path", "")
        if (p.endswith("<impl [T]>::len") or p.endswith("Vec::<T, A>::len")) and _same_slice(fn, defs, d["args"][0], slice_op, blk):
            return True
        if p == "std::option::Option::<T>::unwrap_or" and len(d["args"]) == 2:
            return _is_position_of(fn, defs, d["args"][0], slice_op, blk, depth + 1) and \
                _le_len(fn, defs, d["args"][1], slice_op, blk, depth + 1)
        return False
    if d["k"] == "use":
        return _le_len(fn, defs, d["op"], slice_op, blk, depth + 1)
    if d["k"] == "un" and d["op"] == "PtrMetadata":
        return _same_slice(fn, defs, d["a"], slice_op, blk)
    return False


def _is_position_of(fn, defs, op, slice_op, blk, depth):
    """`op` holds the Option<usize> returned by position / rposition over `slice.iter()` of the same slice."""
    if depth > 6 or op.get("c") not in ("copy", "move") or op["pl"]["p"]:
        return False
    ds = defs.get(op["pl"]["l"], [])
    if len(ds) != 1:
        return False
    (db, si, d) = ds[0]
    if si != "term":
        return d["k"] == "use" and _is_position_of(fn, defs, d["op"], slice_op, blk, depth + 1)
    p = d["callee"].get("path", "")
    if p not in ("std::iter::Iterator::position", "std::iter::Iterator::rposition"):
        return False
    st = (d["callee"].get("substs") or [""])[0]
    if not st.startswith("std::slice::Iter<"):
        return False
    # the iterator: `<[T]>::iter(slice)`
    it = d["args"][0]
    ids = None
    for _ in range(4):
        if it.get("c") not in ("copy", "move") or it["pl"]["p"]:
            return False
        ids = defs.get(it["pl"]["l"], [])
        if len(ids) != 1:
            return False
        if ids[0][1] == "term":
            break
        rv = ids[0][2]
        if rv["k"] == "use":
            it = rv["op"]
        elif rv["k"] in ("ref", "rawptr") and not rv["pl"]["p"]:
            it = {"c": "copy", "pl": {"l": rv["pl"]["l"], "p": []}}      # `&mut iter`
        else:
            return False
    else:
        return False
    ic = ids[0][2]
    return ic["callee"].get("path", "").endswith("<impl [T]>::iter") and _same_slice(fn, defs, ic["args"][0], slice_op, blk)


def range_index_discharged(fn, it, defs):
    """`x[..n]` with n <= len(x) by a local argument (see _le_len)."""
    t = fn.blocks[it["block"]]["term"]
    if t["k"] != "call" or len(t["args"]) != 2 or not it["detail"].endswith("[std::ops::RangeTo<usize>]"):
        return None
    rng = t["args"][1]
    if rng.get("c") not in ("copy", "move") or rng["pl"]["p"]:
        return None
    ds = defs.get(rng["pl"]["l"], [])
    if len(ds) != 1 or ds[0][1] == "term" or ds[0][2]["k"] != "agg" or not ds[0][2]["fields"]:
        return None
    end = ds[0][2]["fields"][0]
    if _le_len(fn, defs, end, t["args"][0], it["block"]):
        return "the end is the slice's own length or a position found in it"
    return None


def _divisor_nonzero_by_callers(crate, fn, it):
    """The divisor is a parameter of a private function and every call site in the crate passes a non-zero
    constant or the caller's own `radix` parameter (R-RADIX-CONST: always 2, 8, 10 or 16).  Returns a reason."""
    d = _divisor_operand(fn, it)
    if d is None or fn.is_pub:
        return None
    o = common.origin(fn, common.defs_of(fn), d)
    if o["k"] != "param":
        return None
    k = o["l"]
    sites = []
    for g, bi, t in common.iter_calls(crate):
        c = t["callee"]
        if (c.get("resolved") or c.get("path")) != fn.path:
            continue
        if len(t["args"]) < k:
            return None
        a = t["args"][k - 1]
        v = common.const_int(a)
        if v is not None and v != 0:
            sites.append("%d" % v)
            continue
        own = g.param_index("radix")
        l = common.place_local(a)
        if own is not None and l is not None and common.copy_of_param(g, l, own):
            sites.append("radix of %s" % g.path.rsplit("::", 1)[1])
            continue
        return None
    if not sites:
        return None
    return "divisor is parameter %d, passed as %s at its %d call sites" % (k, sorted(set(sites)), len(sites))


def _divisor_operand(fn, it):
    t = it["term"]
    cond = t.get("cond", {})
    if cond.get("c") not in ("copy", "move") or cond["pl"]["p"]:
        return None
    for s in reversed(fn.blocks[it["block"]]["stmts"]):
        if s["k"] == "assign" and not s["place"]["p"] and s["place"]["l"] == cond["pl"]["l"]:
            rv = s["rv"]
            if rv["k"] == "bin" and rv["op"] == "Eq" and common.const_int(rv["b"]) == 0:
                return rv["a"]
            return None
    return None


def _divisor_const(fn, it):
    """The assert's operand is the *dividend*; the divisor is the operand compared with 0 in the assert's
    condition (`_c = Eq(divisor, const 0); assert(!_c)`).  Returns its constant value or None."""
    t = it["term"]
    cond = t.get("cond", {})
    if cond.get("c") not in ("copy", "move") or cond["pl"]["p"]:
        return None
    for s in reversed(fn.blocks[it["block"]]["stmts"]):
        if s["k"] == "assign" and not s["place"]["p"] and s["place"]["l"] == cond["pl"]["l"]:
            rv = s["rv"]
            if rv["k"] == "bin" and rv["op"] == "Eq" and common.const_int(rv["b"]) == 0:
                d = rv["a"]
                c = common.const_int(d)
                if c is not None:
                    return c
                # one copy step
                if d.get("c") in ("copy", "move") and not d["pl"]["p"]:
                    for s2 in fn.blocks[it["block"]]["stmts"]:
                        if s2["k"] == "assign" and not s2["place"]["p"] and s2["place"]["l"] == d["pl"]["l"] \
                                and s2["rv"]["k"] == "use":
                            return common.const_int(s2["rv"]["op"])
            return None
    return None


def scan(rule, crate, fn_pred, table, kinds, label):
    """Compare the inventory of `kinds` against the reviewed table.

    table: {"<fn path> | <kind>:<detail>": {"count": n, "reason": "..."}}
    Excess over the table is a violation; a deficit is fine."""
    n_fns = 0
    n_items = 0
    pool = Pool(table, getattr(crate, "config", "default"), {f.path for f in crate.fns if fn_pred(f)},
                {f.path for f in crate.fns})
    for fn in crate.fns:
        if not fn_pred(fn):
            continue
        n_fns += 1
        inv = [i for i in inventory(fn) if i["kind"] in kinds]
        if not inv:
            continue
        defs = None
        idom = None
        for it in inv:
            n_items += 1
            if it["kind"] == "bounds":
                if defs is None:
                    defs = common.defs_of(fn)
                    idom = cfg.dominators(fn)
                okd, why = bounds_discharged(fn, it, defs, idom)
                if okd:
                    rule.ok("%s: bounds check discharged (%s)" % (fn.path, why), fn, it["line"])
                    continue
            if it["kind"] == "div":
                dv = _divisor_const(fn, it)
                if dv is not None and dv != 0:
                    rule.ok("%s: division by the non-zero constant %d" % (fn.path, dv), fn, it["line"])
                    continue
                why = _divisor_nonzero_by_callers(crate, fn, it)
                if why:
                    rule.ok("%s: %s" % (fn.path, why), fn, it["line"])
                    continue
            if it["kind"] == "index":
                if defs is None:
                    defs = common.defs_of(fn)
                    idom = cfg.dominators(fn)
                why = range_index_discharged(fn, it, defs)
                if why:
                    rule.ok("%s: `x[..n]` cannot be out of range (%s)" % (fn.path, why), fn, it["line"])
                    continue
                from . import cursor
                why = cursor.rest_slicing(crate, fn, it, defs)
                if why:
                    rule.ok("%s: `slice[cursor..]` cannot be out of range (%s)" % (fn.path, why), fn, it["line"])
                    continue
            if it["kind"] == "index" and it["detail"].endswith("[std::ops::RangeFull]"):
                rule.ok("%s: `[..]` (RangeFull) never panics" % fn.path, fn, it["line"])
                continue
            detail = "%s:%s" % (it["kind"], it["detail"])

            def on_ok(ent, moved, fn=fn, it=it, detail=detail):
                rule.ok("%s | %s (reviewed%s: %s)" % (fn.path, detail, " for %s, moved" % moved if moved else "", ent["reason"]),
                        fn, it["line"])

            def on_bad(fn=fn, it=it, detail=detail):
                rule.violation(
                    "%s::%s" % (crate.name, fn.path), detail,
                    "%s: potentially panicking construct `%s %s` at line %s is not in the reviewed inventory and no "
                    "reviewed construct of the same kind disappeared elsewhere; %s" %
                    (fn.path, it["kind"], it["detail"], it["line"], label),
                    fn.loc(it["line"]))

            pool.site(fn.path, detail, on_ok, on_bad)
    pool.settle()
    if pool.unused():
        rule.note("reviewed constructs no longer present: %s" % sorted(pool.unused().items()))
    return n_fns, n_items
