"""R-PANIC-INV / R-ARITH: inventory of potentially panicking constructs."""
from . import cfg, common, facts

PANIC_FNS = (
    "core::panicking::panic", "core::panicking::panic_fmt", "core::panicking::panic_display",
    "core::panicking::unreachable_display", "core::panicking::panic_explicit", "std::rt::begin_panic",
    "core::panicking::assert_failed", "core::panicking::panic_nounwind", "core::panicking::panic_str",
    "std::rt::panic_fmt", "core::panicking::panic_bounds_check", "core::option::expect_failed",
    "core::result::unwrap_failed", "core::panicking::panic_const",
)
UNWRAPS = {
    "std::option::Option::<T>::unwrap": "Option::unwrap",
    "std::option::Option::<T>::expect": "Option::expect",
    "std::result::Result::<T, E>::unwrap": "Result::unwrap",
    "std::result::Result::<T, E>::expect": "Result::expect",
    "std::result::Result::<T, E>::unwrap_err": "Result::unwrap_err",
    "std::result::Result::<T, E>::expect_err": "Result::expect_err",
}
PANICKY_STD = (
    "copy_from_slice", "clone_from_slice", "split_at", "split_at_mut", "swap_remove", "::remove", "::insert",
    "::drain", "::split_off", "::swap", "from_digit", "::borrow_mut", "::chunks", "::windows", "::step_by",
    "::rotate_left", "::rotate_right", "::abs_diff",
)


def macro_of(t):
    return t.get("macro", "")


def inventory(fn):
    """List of dicts {kind, detail, line, block} for one function (non-cleanup blocks)."""
    out = []
    for bi, b in enumerate(fn.blocks):
        if b.get("cleanup"):
            continue
        t = b["term"]
        if t["k"] == "call":
            c = t["callee"]
            p = c.get("path", "")
            if p.startswith("core::panicking::") or p in PANIC_FNS or p.startswith("std::rt::begin_panic"):
                out.append({"kind": "panic", "detail": p.rsplit("::", 1)[1], "line": t.get("line"), "block": bi})
            elif p in UNWRAPS:
                out.append({"kind": "unwrap", "detail": UNWRAPS[p], "line": t.get("line"), "block": bi})
            elif c.get("trait") in ("std::ops::Index", "std::ops::IndexMut"):
                st = (c.get("substs") or ["?"])[0]
                if c.get("resolved_crate") in ("lexpr", "serde_lexpr"):
                    continue  # a local Index impl: its own body is inventoried
                out.append({"kind": "index", "detail": "%s[%s]" % (st, (c.get("substs") or ["?", "?"])[1]),
                            "line": t.get("line"), "block": bi})
            elif c.get("crate") in ("core", "alloc", "std") and any(p.endswith(x) or (x + "::") in p for x in PANICKY_STD) \
                    and ("slice" in p or "vec" in p.lower() or "string" in p.lower() or "char" in p):
                out.append({"kind": "std-panicky", "detail": p, "line": t.get("line"), "block": bi})
        elif t["k"] == "assert":
            m = t["msg"]
            if m == "BoundsCheck":
                out.append({"kind": "bounds", "detail": "index", "line": t.get("line"), "block": bi, "term": t})
            elif m in ("DivisionByZero", "RemainderByZero"):
                out.append({"kind": "div", "detail": m, "line": t.get("line"), "block": bi, "term": t})
            elif m in ("MisalignedPointerDereference", "NullPointerDereference", "InvalidEnumConstruction"):
                continue  # debug-build pointer/enum sanity checks inserted by rustc, not source-level panics
            elif m in ("Overflow", "OverflowNeg"):
                out.append({"kind": "overflow", "detail": t.get("binop", "Neg"), "line": t.get("line"), "block": bi,
                            "term": t})
            else:
                out.append({"kind": "assert", "detail": m, "line": t.get("line"), "block": bi})
    return out


def _place_key(pl):
    """Hashable description of a place made of derefs and named fields only."""
    ks = [pl["l"]]
    for e in pl["p"]:
        if e == "*":
            ks.append("*")
        elif isinstance(e, dict) and "f" in e:
            ks.append(("f", e["f"]))
        elif isinstance(e, dict) and "d" in e:
            ks.append(("d", e["d"]))
        else:
            return None
    return tuple(ks)


def _trace_copy(fn, defs, op, block):
    """Follow `_x = copy <place>` / `_x = move _y` / `_x = &(*_y)` chains; return a place key."""
    seen = 0
    while op.get("c") in ("copy", "move") and seen < 16:
        pl = op["pl"]
        if pl["p"]:
            return _place_key(pl)
        ds = defs.get(pl["l"], [])
        if len(ds) != 1:
            return ("local", pl["l"])
        (db, si, rv) = ds[0]
        if si == "term":
            return ("local", pl["l"])
        if rv["k"] == "use":
            op = rv["op"]
            seen += 1
            continue
        if rv["k"] in ("ref", "rawptr") and rv["pl"]["p"] == ["*"]:
            op = {"c": "copy", "pl": {"l": rv["pl"]["l"], "p": []}}
            seen += 1
            continue
        return ("local", pl["l"])
    return None


def _len_of(fn, defs, op):
    """If operand is the length of a slice-like place, return that place's key."""
    if op.get("c") not in ("copy", "move") or op["pl"]["p"]:
        return None
    ds = defs.get(op["pl"]["l"], [])
    if len(ds) != 1:
        return None
    (db, si, d) = ds[0]
    if si == "term":
        p = d["callee"].get("path", "")
        if p.endswith("<impl [T]>::len") or p.endswith("Vec::<T, A>::len") or p.endswith("<impl str>::len"):
            a0 = d["args"][0]
            return _trace_copy(fn, defs, a0, db)
        return None
    if d["k"] == "un" and d["op"] == "PtrMetadata":
        return _trace_copy(fn, defs, d["a"], db)
    if d["k"] == "use":
        return _len_of(fn, defs, d["op"])
    return None


UMAX = {"u8": 255, "u16": 65535, "u32": (1 << 32) - 1, "bool": 1}


def upper_bound(fn, defs, op, depth):
    """Sound upper bound of an unsigned integer operand, or None."""
    if depth > 8:
        return None
    c = common.const_int(op)
    if c is not None:
        return c if c >= 0 else None
    if op.get("c") not in ("copy", "move"):
        return None
    pl = op["pl"]
    if pl["p"]:
        return None
    ty = fn.local_ty(pl["l"])
    tb = UMAX.get(ty)
    ds = defs.get(pl["l"], [])
    if len(ds) != 1 or ds[0][1] == "term":
        return tb
    rv = ds[0][2]
    b = None
    if rv["k"] == "use":
        b = upper_bound(fn, defs, rv["op"], depth + 1)
    elif rv["k"] == "cast" and rv["ck"].startswith("IntToInt") and rv["from"] in UMAX or \
            (rv["k"] == "cast" and rv["ck"].startswith("IntToInt") and rv["from"] in ("usize", "u64")):
        b = upper_bound(fn, defs, rv["op"], depth + 1)
        fb = UMAX.get(rv["from"])
        if b is None:
            b = fb
        tb2 = UMAX.get(rv["to"])
        if b is not None and tb2 is not None and b > tb2:
            b = tb2
    elif rv["k"] == "bin":
        a = upper_bound(fn, defs, rv["a"], depth + 1)
        c2 = common.const_int(rv["b"])
        if rv["op"] == "Shr" and a is not None and c2 is not None and 0 <= c2 < 64:
            b = a >> c2
        elif rv["op"] == "BitAnd":
            bb = upper_bound(fn, defs, rv["b"], depth + 1)
            cands = [x for x in (a, bb) if x is not None]
            b = min(cands) if cands else None
        elif rv["op"] == "Rem" and c2 is not None and c2 > 0:
            b = c2 - 1
    if b is None:
        return tb
    if tb is not None:
        return min(b, tb)
    return b


def bounds_discharged(fn, item, defs=None, idom=None):
    """Auto-discharge a BoundsCheck: constant index below constant length, or the
    repo's `if i < s.len() { s[i] }` idiom (same places, guard dominates, no store between)."""
    t = item["term"]
    ln, ix = t["ops"]
    if defs is None:
        defs = common.defs_of(fn)
    cl = common.const_int(ln)
    ub = upper_bound(fn, defs, ix, 0)
    if cl is not None and ub is not None:
        if ub < cl:
            return True, "index <= %d < constant length %d" % (ub, cl)
        return False, None
    if idom is None:
        idom = cfg.dominators(fn)
    ikey = _trace_copy(fn, defs, ix, item["block"])
    skey = _len_of(fn, defs, ln)
    if ikey is None or skey is None:
        return False, None
    # look for a dominating switch on Lt(ikey, len(skey)) taken on its true edge
    for bi, b in enumerate(fn.blocks):
        tt = b["term"]
        if tt["k"] != "switch" or b.get("cleanup"):
            continue
        op = tt["op"]
        if op.get("c") not in ("copy", "move") or op["pl"]["p"]:
            continue
        ds = [d for d in defs.get(op["pl"]["l"], []) if d[0] == bi and d[1] != "term"]
        if len(ds) != 1:
            continue
        rv = ds[0][2]
        if rv["k"] != "bin" or rv["op"] not in ("Lt", "Gt"):
            continue
        a, b2 = (rv["a"], rv["b"]) if rv["op"] == "Lt" else (rv["b"], rv["a"])
        if _trace_copy(fn, defs, a, bi) != ikey or _len_of(fn, defs, b2) != skey:
            continue
        true_t = tt["otherwise"]
        for v, tg in tt["targets"]:
            if v == 1:
                true_t = tg
        false_t = None
        for v, tg in tt["targets"]:
            if v == 0:
                false_t = tg
        if true_t == false_t:
            continue
        if not cfg.dominates(idom, true_t, item["block"]):
            continue
        # no store to the index place / no &mut escape of its base between guard and use
        region = cfg.reachable(fn, true_t, avoid=[item["block"]]) | {item["block"]}
        region = {x for x in region if cfg.dominates(idom, true_t, x)}
        clean = True
        for x in region:
            for s in fn.blocks[x]["stmts"]:
                if s["k"] == "assign" and _place_key(s["place"]) in (ikey, skey):
                    clean = False
            if x != item["block"]:
                tx = fn.blocks[x]["term"]
                if tx["k"] == "call":
                    for a_ty in tx.get("arg_tys", []):
                        if a_ty.startswith("&mut "):
                            clean = False
        if clean:
            return True, "guarded by `%s < len` at line %s on the same places" % ("index", tt.get("line"))
    return False, None


def scan(rule, crate, fn_pred, table, kinds, label):
    """Compare the inventory of `kinds` against the reviewed table.

    table: {"<fn path> | <kind>:<detail>": {"count": n, "reason": "..."}}
    Excess over the table is a violation; a deficit is fine."""
    n_fns = 0
    n_items = 0
    for fn in crate.fns:
        if not fn_pred(fn):
            continue
        n_fns += 1
        inv = [i for i in inventory(fn) if i["kind"] in kinds]
        if not inv:
            continue
        defs = None
        idom = None
        counts = {}
        for it in inv:
            n_items += 1
            if it["kind"] == "bounds":
                if defs is None:
                    defs = common.defs_of(fn)
                    idom = cfg.dominators(fn)
                okd, why = bounds_discharged(fn, it, defs, idom)
                if okd:
                    rule.ok("%s: bounds check discharged (%s)" % (fn.path, why), fn, it["line"])
                    continue
            if it["kind"] == "div":
                dv = common.const_int(it["term"]["ops"][0]) if it["term"].get("ops") else None
                if dv is not None and dv != 0:
                    rule.ok("%s: division by the non-zero constant %d" % (fn.path, dv), fn, it["line"])
                    continue
            if it["kind"] == "index" and it["detail"].endswith("[std::ops::RangeFull]"):
                rule.ok("%s: `[..]` (RangeFull) never panics" % fn.path, fn, it["line"])
                continue
            key = "%s | %s:%s" % (fn.path, it["kind"], it["detail"])
            counts.setdefault(key, []).append(it)
        for key, items in counts.items():
            ent = table.get(key)
            allowed = ent["count"] if ent else 0
            for i, it in enumerate(items):
                if i < allowed:
                    rule.ok("%s (reviewed: %s)" % (key, ent["reason"]), fn, it["line"])
                else:
                    rule.violation(
                        "%s::%s" % (crate.name, fn.path), "%s:%s" % (it["kind"], it["detail"]),
                        "%s: potentially panicking construct `%s %s` at line %s is not in the reviewed inventory "
                        "(%d allowed for this function, %d found); %s" %
                        (fn.path, it["kind"], it["detail"], it["line"], allowed, len(items), label),
                        fn.loc(it["line"]))
    return n_fns, n_items
