"""Rules shared by C01 / C02 / C05: string-escape agreement, follow bytes, number alphabet."""
from . import cfg, classes, common, facts as F, lex, sim, tables
from .sim import Adt, Bytes, UNK

R6RS_WRITER = "print::write_r6rs_char_escape"
ELISP_WRITER = "print::write_elisp_char_escape"
R6RS_READER = "parse::read::parse_r6rs_escape"
ELISP_READER = "parse::read::parse_elisp_escape"


def string_escapes(rule, crate, dialect):
    """For all 256 bytes: what the printer emits inside a string is read back as that byte."""
    writer = R6RS_WRITER if dialect == "r6rs" else ELISP_WRITER
    reader = R6RS_READER if dialect == "r6rs" else ELISP_READER
    hexd = writer + "::HEX_DIGITS"
    try:
        stop = classes.predicate_class(crate, "parse::read::needs_escape")
    except classes.Inexact as e:
        rule.violation("parse::read::needs_escape", "inexact", str(e))
        return
    if stop is None:
        rule.anchor_missing("parse::read::needs_escape")
        return
    okh, whyh = tables.hex_tables_inverse(crate, hexd)
    letter_cache = {}
    n_esc = 0
    for b in range(256):
        kind, text = tables.string_escape_text(crate, b, writer)
        if kind == "error":
            rule.violation(writer, "escape-text:0x%02X" % b, "cannot determine the escape text for byte 0x%02X: %s" % (b, text))
            continue
        if kind == "raw":
            if b in stop:
                rule.violation("print::ESCAPE", "unescaped-special:0x%02X" % b,
                               "byte %s is written raw inside a string (ESCAPE[%d] == 0) but the reader treats it "
                               "specially: the string is cut short or mis-escaped on re-reading" % (lex.fmt_bytes([b]), b))
            else:
                rule.ok("byte 0x%02X is written raw and read back raw" % b)
            continue
        n_esc += 1
        if len(text) < 2 or text[0] != 0x5C or 0x5C not in stop:
            rule.violation(writer, "escape-form:0x%02X" % b, "escape text %r for byte 0x%02X does not start with a backslash "
                                                             "the reader recognises" % (text, b))
            continue
        letter = text[1]
        if letter not in letter_cache:
            letter_cache[letter] = tables.escape_letter_pushes(crate, reader, letter)
        out = letter_cache[letter]
        if len(text) == 2:
            if out == ("push", (b,)):
                rule.ok("0x%02X -> %r -> reader pushes 0x%02X" % (b, text, b))
            else:
                rule.violation(reader, "escape-mismatch:0x%02X" % b,
                               "the printer writes byte 0x%02X as %r but the %s reader maps `\\%s` to %s: strings "
                               "containing it do not round-trip" % (b, text, dialect, chr(letter), _desc(out)))
            continue
        # hex forms (\xHH; / \u00HH): the reader's escape function is evaluated on the exact text the printer wrote
        res = tables.escape_text_pushes(crate, reader, text[1:])
        want = bytes([b]) if b < 0x80 else chr(b).encode("utf-8")
        if res == ("push", want):
            rule.ok("0x%02X -> %r -> the reader's escape decoding pushes %r" % (b, text, want))
        else:
            rule.violation(reader, "escape-mismatch:0x%02X" % b,
                           "the printer writes byte 0x%02X as %r; the %s reader decodes that text to %s instead of %r: "
                           "strings containing it do not round-trip" % (b, text, dialect, _desc(res) if res[0] != "push" else repr(res[1]), want))
    return n_esc


def _calls(out, name):
    if out[0] == "calls":
        return name in out[1]
    if out[0] == "inexact":
        return any(o[0] == "calls" and name in o[1] for o in out[1]) and all(o[0] in ("calls", "error") for o in out[1])
    return False


def _desc(out):
    if out[0] == "push":
        return "push %s" % ", ".join("0x%02X" % x if isinstance(x, int) else "?" for x in out[1])
    return "%s %s" % (out[0], out[1])


def follow_bytes(rule, crate, wanted, label):
    """Bytes the printer can emit directly after an atom must terminate every token kind."""
    fns = ["print::Formatter::begin_seq_element", "print::Formatter::end_list", "print::Formatter::end_vector",
           "<print::CustomizedFormatter as print::Formatter>::end_vector"]
    fb = tables.printer_follow_bytes(crate, fns)
    emitted = set()
    for fp, bs in fb.items():
        if bs is None:
            rule.anchor_missing(fp)
            return
        if "?" in bs:
            rule.violation(fp, "non-constant-follow", "%s writes a non-constant separator/closer" % fp)
            return
        emitted |= bs
    follow = emitted & wanted if wanted is not None else emitted
    if wanted is not None and not wanted <= emitted:
        rule.note("follow bytes %s are not emitted by the printer any more" % lex.fmt_bytes(wanted - emitted))
    terms = {}
    try:
        for name, fp in (("symbol scanner (stream)", classes.IO_SYMBOL), ("symbol scanner (slice)", classes.SLICE_SYMBOL)):
            tc = classes.scanner_classes(crate, fp)
            if tc is None:
                rule.anchor_missing(fp)
                return
            terms[(name, fp)] = tc[0]
        terms.update(classes.delimiter_classes(crate, rule.note))
    except classes.Inexact as e:
        rule.violation("<classes>", "inexact", str(e))
        return
    for b in sorted(follow):
        for (name, fp), tset in sorted(terms.items()):
            if b in tset:
                rule.ok("%s: printer's %s ends a token in %s" % (label, lex.fmt_bytes([b]), name))
            else:
                rule.violation(fp, "follow-not-terminator:0x%02X" % b,
                               "the printer emits %s directly after an atom but %s does not treat it as a token end "
                               "(class %s): e.g. a sign symbol or character printed last in a sequence is unreadable"
                               % (lex.fmt_bytes([b]), name, lex.fmt_bytes(tset)))


# ---------------------------------------------------------------- number alphabet
NUM_INLINE = ("parse::Parser::<R>::peek", "parse::Parser::<R>::peek_or_null", "parse::Parser::<R>::next_char",
              "parse::Parser::<R>::next_char_or_null", "parse::Parser::<R>::eat_char", "parse::Parser::<R>::error",
              "parse::Parser::<R>::peek_error", "parse::Parser::<R>::parse_number_token")


def _run_seq(crate, fn_path, seq, args, visits=3):
    f = crate.fn(fn_path)
    if f is None:
        return None
    # the stages of the number reader stay calls (the rule observes which of them is reached); every other
    # loop-free helper (sign readers, digit decoders) is looked through
    hi = lex.helper_inline(crate, NUM_INLINE)
    stages = ("parse_num_literal", "parse_num_tail", "parse_decimal", "parse_exponent", "parse_exponent_overflow",
              "parse_long_integer", "f64_from_parts", "parse_radix_literal", "parse_number")
    inl = lambda a, b: hi(a, b) and not (b.path.rsplit("::", 1)[-1] in stages and b.path != fn_path)
    S = sim.Sim([crate], hooks={"call": lex.seq_hook(seq)}, inline=inl, max_visits=visits, max_paths=5000)
    return f, S.run(f, args=args)


def _local_calls(p):
    out = []
    for ev in p.events:
        if ev[0] == "call":
            for n in ev[1]:
                if n.startswith("parse::Parser::<R>::parse_") or n.endswith("f64_from_parts"):
                    out.append(n.rsplit("::", 1)[1])
    return out


def number_alphabet(rule, crate):
    """In radix 10 the reader accepts every continuation byte of what itoa/ryu print: digits, '.', 'e', '-'."""
    checks = [
        # (function, byte sequence, args, required callee, description)
        ("parse::Parser::<R>::parse_num_literal", [0x35, 0x2E], {2: 10, 3: 1}, "parse_num_tail", "digit then '.'"),
        ("parse::Parser::<R>::parse_num_literal", [0x35, 0x65], {2: 10, 3: 1}, "parse_num_tail", "digit then 'e' (ryu prints 1e21)"),
        ("parse::Parser::<R>::parse_num_literal", [0x35, 0x37, 0x65], {2: 10, 3: 1}, "parse_num_tail", "digits then 'e'"),
        ("parse::Parser::<R>::parse_num_tail", [0x2E], {2: 10, 3: 1, 4: 5}, "parse_decimal", "'.' starts the fraction"),
        ("parse::Parser::<R>::parse_num_tail", [0x65], {2: 10, 3: 1, 4: 5}, "parse_exponent", "'e' starts the exponent"),
        ("parse::Parser::<R>::parse_decimal", [0x2E, 0x35, 0x65], {2: 1, 3: 5, 4: 0}, "parse_exponent", "fraction digit then 'e'"),
        ("parse::Parser::<R>::parse_decimal", [0x2E, 0x35, 0x20], {2: 1, 3: 5, 4: 0}, "f64_from_parts", "fraction digit then delimiter"),
        ("parse::Parser::<R>::parse_exponent", [0x65, 0x2D, 0x37, 0x20], {2: 1, 3: 5, 4: 0}, "f64_from_parts", "'e-7'"),
        ("parse::Parser::<R>::parse_exponent", [0x65, 0x32, 0x31, 0x29], {2: 1, 3: 5, 4: 0}, "f64_from_parts", "'e21'"),
        ("parse::Parser::<R>::parse_long_integer", [0x35, 0x65], {2: 10, 3: 1, 4: 5, 5: 1}, "parse_exponent", "over-long integer: digit then 'e'"),
        ("parse::Parser::<R>::parse_long_integer", [0x35, 0x2E], {2: 10, 3: 1, 4: 5, 5: 1}, "parse_decimal", "over-long integer: digit then '.'"),
    ]
    for fp, seq, args, need, desc in checks:
        res = _run_seq(crate, fp, seq, args)
        if res is None:
            rule.anchor_missing(fp)
            continue
        f, paths = res
        reached = False
        errs = set()
        for p in paths:
            if need in _local_calls(p):
                reached = True
            errs |= set(lex.error_codes(p, crate))
        if reached:
            rule.ok("%s: %s reaches %s" % (fp.rsplit("::", 1)[1], desc, need), f)
        else:
            rule.violation(fp, "alphabet:%s" % desc,
                           "%s (radix 10): %s does not reach %s (errors raised: %s): a number the printer emits is "
                           "rejected by the reader" % (fp, desc, need, sorted(errs) or "none"), f.loc())
    # '-' followed by a digit is a number, not a symbol (negative numbers round-trip)
    pt = crate.fn("parse::Parser::<R>::parse_token")
    if pt is None:
        rule.anchor_missing("parse_token")
        return
    def literal_args(seq):
        S = sim.Sim([crate], hooks={"call": lex.seq_hook(seq)}, inline=lex.helper_inline(crate, NUM_INLINE),
                    max_visits=2, max_paths=5000)
        got = set()
        for p in S.run(pt, args={2: seq[0]}):
            for ev in p.events:
                if ev[0] == "call" and any(n.endswith("parse_num_literal") for n in ev[1]):
                    a = [S._deref(x, p) for x in ev[2][1:]]
                    got.add(tuple(repr(x) for x in a))
        return got
    # the sign travels as a bool or as a private enum: what matters is that `-5` reaches the numeric routine in radix
    # 10 with a sign argument different from the one `5` and `+5` travel with
    minus, plus, plain = literal_args([0x2D, 0x35]), literal_args([0x2B, 0x35]), literal_args([0x35, 0x20])
    ok = len(minus) == 1 and len(plain) == 1 and plus == plain and minus != plain
    if ok:
        m, q = next(iter(minus)), next(iter(plain))
        ok = len(m) == len(q) and "10" in m and sum(1 for x, y in zip(m, q) if x != y) == 1
    if ok:
        rule.ok("parse_token: '-' followed by a digit -> parse_num_literal(radix 10, negative)", pt)
    else:
        rule.violation(pt.path, "alphabet:minus-digit",
                       "'-' followed by a digit does not reach parse_num_literal in radix 10 with the negative sign "
                       "(arguments for `-5`: %s, for `5`: %s, for `+5`: %s)" % (sorted(minus), sorted(plain), sorted(plus)), pt.loc())


# ---------------------------------------------------------------- characters
def _char_result(p):
    r = p.ret
    if isinstance(r, Adt) and r.adt.endswith("Result"):
        if r.variant == 0:
            return ("ok", r.fields[0])
        return ("err", None)
    return ("?", None)


def printable_chars(rule, crate, dialect):
    """Every printable ASCII character, in the form the printer writes it, is read back as itself."""
    # the printable range comes from the writer: (32..127).contains(&n)
    wf = crate.fn("print::write_elisp_char" if dialect == "elisp" else "print::write_scheme_char")
    nm = "parse_elisp_char" if dialect == "elisp" else "parse_r6rs_char"
    # the free function the trait's provided method forwards to, or - with its body moved back - that method itself
    rf = crate.fn("parse::read::" + nm) or crate.fn("parse::read::Read::" + nm)
    if wf is None or rf is None:
        rule.anchor_missing("char writer / reader for %s" % dialect)
        return
    # the character decoders and every scalar / loop-free helper they share are looked through
    hi = lex.helper_inline(crate, ("parse::read::decode_elisp_char_escape", "parse::read::is_delimiter",
                                   "parse::read::decode_r6rs_char_hex_escape", "parse::read::decode_hex_val"))
    inl = lambda a, b: hi(a, b) or (b.crate == crate.name and b.file.endswith("parse/read.rs") and b.kind != "closure"
                                    and not b.impl_trait and "decode_" in b.path and not cfg.back_edges(b))
    n_ok = 0
    fwd = common.sink_forwarders(crate)
    for n in range(32, 127):
        # what the writer emits (constant propagation with c = n)
        S = sim.Sim([crate], inline=lex.print_inline(crate))
        texts = set()
        for p in S.run(wf, args={2: n}):
            if p.end != "return":
                continue
            for ev in p.calls("std::io::Write::write_all"):
                a = ev[6][1]
                texts.add(bytes(a.b) if isinstance(a, Bytes) else None)
        if len(texts) != 1 or None in texts:
            rule.violation(wf.path, "char-text:%d" % n, "cannot determine the text written for character %r" % chr(n))
            continue
        text = texts.pop()
        prefix = b"?" if dialect == "elisp" else b"#\\"
        if not text.startswith(prefix):
            rule.violation(wf.path, "char-prefix:%d" % n, "character %r is written as %r" % (chr(n), text))
            continue
        body = list(text[len(prefix):]) + [0x20]
        S2 = sim.Sim([crate], hooks={"call": lex.seq_hook(body)}, inline=inl, max_visits=2, max_paths=3000)
        outs = set()
        for p in S2.run(rf):
            if p.end == "return":
                outs.add(_char_result(p))
        if outs == {("ok", n)}:
            n_ok += 1
            rule.ok("%r -> %r -> %r" % (chr(n), text, chr(n)))
        else:
            rule.violation(rf.path, "char-mismatch:0x%02X" % n,
                           "the %s printer writes the character %r as %r but the reader yields %s"
                           % (dialect, chr(n), text, sorted(outs, key=repr)))
    return n_ok


# ---------------------------------------------------------------- '#' tokens
def hash_tokens(rule, crate):
    """Every '#'-token the printer has a constant for is dispatched by parse_token to the right token kind."""
    consts = set()
    for fn in crate.fns:
        if not fn.file.endswith("lexpr/src/print.rs"):
            continue
        for bi, t in fn.calls():
            if t["callee"].get("trait") == "std::io::Write" and t["callee"].get("method") == "write_all":
                defs = common.defs_of(fn)
                o = common.origin(fn, defs, t["args"][1])
                cands = []
                if o["k"] == "const" and "bytes" in o["op"]:
                    cands.append(bytes(o["op"]["bytes"]))
                elif o["k"] == "multi":
                    for (b, si, d) in defs.get(o["l"], []):
                        if si != "term" and d["k"] in ("use", "cast"):
                            o2 = common.origin(fn, defs, d["op"])
                            if o2["k"] == "const" and "bytes" in o2["op"]:
                                cands.append(bytes(o2["op"]["bytes"]))
                for c in cands:
                    if c.startswith(b"#"):
                        consts.add(c)
    want = {b"#nil": "Nil", b"#t": "Bool", b"#f": "Bool", b"#(": "VecOpen", b"#u8(": "ByteVecOpen",
            b"#vu8(": "ByteVecOpen", b"#:": "Keyword"}
    pt = crate.fn("parse::Parser::<R>::parse_token")
    tm = lex.TokenModel(crate)
    if pt is None or not tm.ok:
        rule.anchor_missing("parse_token / Token")
        return
    rule.floor("hash-constants", len(consts))
    for c in sorted(consts):
        body = list(c)
        # `(` of the byte-vector openers is consumed by parse_byte_list, not by parse_token
        if c.endswith(b"(") and c != b"#(":
            body = body[:-1]
        seq = body + [0x61, 0x20]
        inl = lex.helper_inline(crate, {"parse::Parser::<R>::expect_ident"})

        def extra(S, fn, bb, t, args, path, names):
            if any(n.endswith("parse_symbol") for n in names) and "parse::read::Read::parse_symbol" not in names:
                return ("value", lex.ok(UNK))
            return None

        S = sim.Sim([crate], hooks={"call": lex.seq_hook(seq, extra)}, inline=inl, max_visits=3, max_paths=5000)
        kinds = set()
        for p in S.run(pt, args={2: body[0]}):
            if p.end != "return":
                continue
            r = p.ret
            if isinstance(r, Adt) and r.variant == 0 and isinstance(r.fields[0], Adt):
                kinds.add(tm.kind(r.fields[0], S, p))
            elif isinstance(r, Adt) and r.variant == 1:
                kinds.add("Err")
        w = want.get(c)
        if w is None:
            rule.violation("print.rs", "unknown-hash-token:%s" % c.decode("latin1"),
                           "the printer emits the token %r for which no expected reader token kind is recorded" % c)
        elif w in kinds:
            rule.ok("printer token %r -> parse_token yields Token::%s%s" % (c, w, " (when the option is enabled)" if len(kinds) > 1 else ""), pt)
        else:
            rule.violation(pt.path, "hash-token:%s" % c.decode("latin1"),
                           "the printer emits %r but parse_token turns it into %s, never Token::%s" % (c, sorted(kinds), w), pt.loc())
