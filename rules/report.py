"""Check context: rule bookkeeping, violation keys, known findings, evidence."""
import json
import os
import time

from . import build, facts

VERIF = build.VERIF
# evidence of runs against a scratch copy (mutation testing) never overwrites the real evidence
EVID = os.path.join(VERIF, "evidence") if os.path.realpath(build.REPO) == "/repo" else os.path.join(build.WORK, "evidence-scratch")
KNOWN = os.path.join(VERIF, "known_findings.json")
FLOORS = os.path.join(VERIF, "tables", "floors.json")


def load_table(name):
    p = os.path.join(VERIF, "tables", name)
    with open(p) as fh:
        return json.load(fh)


def _range_family(detail):
    import re
    m = re.match(r"^(index:\[[^\]]*\])\[std::ops::Range(From|To|Inclusive|ToInclusive)?<usize>\]$", detail)
    return m.group(1) + "[range]" if m else None


class Pool:
    """Reviewed exceptions, keyed "<fn path> | <detail>" with an exact count per build configuration.

    A site is first matched against the entry of its own function.  Sites left over are matched, after the
    whole scan, against allowances that stayed unused *with the same detail* (same construct and type): that is
    what moving a reviewed construct into a helper function, or renaming its function, looks like.  On the
    unchanged tree every allowance is used up by its own function (tools/check_tables.py asserts it), so a
    construct can only borrow an allowance if a reviewed one of the same kind disappeared elsewhere; a
    construct added on top of the reviewed ones always exceeds the total and is reported."""

    def __init__(self, table, config="default", scope=None, every=None):
        """scope: function paths examined by this scan; every: all function paths of the crate.  Entries of
        functions that exist but are outside the scan's scope belong to another scan and lend nothing."""
        if scope is not None:
            table = {k: v for k, v in table.items()
                     if k.split(" | ", 1)[0] in scope or k.split(" | ", 1)[0] not in every}
        self.table = table
        self.left = {}
        for k, v in table.items():
            c = v.get("count", 0)
            if isinstance(c, dict):
                c = c.get(config, 0)
            self.left[k] = c
        self.pending = []

    def take(self, fnpath, detail):
        k = "%s | %s" % (fnpath, detail)
        if self.left.get(k, 0) > 0:
            self.left[k] -= 1
            return self.table[k]
        return None

    def site(self, fnpath, detail, on_ok, on_violation):
        """on_ok(entry, moved_from or None); on_violation() -- called now or at settle()."""
        ent = self.take(fnpath, detail)
        if ent is not None:
            on_ok(ent, None)
        else:
            self.pending.append((fnpath, detail, on_ok, on_violation))

    def settle(self):
        for fnpath, detail, on_ok, on_violation in self.pending:
            donor = None
            for k in sorted(self.left):
                if self.left[k] > 0 and k.split(" | ", 1)[1] == detail:
                    donor = k
                    break
            if donor is None:
                # the same slice expression re-spelled inside its function: `s[a..b]` as `s[a..]` / `&rest[..n]`
                fam = _range_family(detail)
                for k in sorted(self.left):
                    kf, kd = k.split(" | ", 1)
                    if self.left[k] > 0 and kf == fnpath and fam is not None and _range_family(kd) == fam:
                        donor = k
                        break
            if donor is None:
                on_violation()
            else:
                self.left[donor] -= 1
                on_ok(self.table[donor], donor.split(" | ", 1)[0])
        self.pending = []

    def unused(self):
        return {k: n for k, n in self.left.items() if n > 0}


class Rule:
    def __init__(self, ctx, rid, text):
        self.ctx = ctx
        self.id = rid
        self.text = text
        self.obligations = 0
        self.discharged = 0
        self.samples = []
        self.keys = set()
        self.analysed = []

    # an obligation that holds
    def ok(self, what, fn=None, line=None, detail=None):
        self.obligations += 1
        self.discharged += 1
        self.keys.add(str(what))
        if len(self.samples) < 4:
            s = {"rule": self.id, "obligation": str(what), "verdict": "holds"}
            if fn is not None:
                s["at"] = fn.loc(line)
                s["function"] = fn.path
            if detail:
                s["detail"] = detail
            self.samples.append(s)

    # an obligation that fails
    def violation(self, fnpath, detail, message, at=None):
        self.obligations += 1
        key = "%s | %s | %s" % (self.id, fnpath, detail)
        self.keys.add(key)
        self.ctx._violation(self, key, message, at)

    # anchor / floor failures are violations too (fail closed)
    def anchor_missing(self, what):
        self.violation("<anchor>", what, "anchor missing: %s (rule cannot be evaluated; failing closed)" % what)

    def floor(self, name, n):
        """n must be >= the number counted by hand on the pinned tree."""
        fkey = self.ctx.prop + ":" + self.id + ":" + name
        fl = self.ctx.floors.get(fkey)
        self.ctx.measured[fkey] = n
        if fl is None and self.ctx.calibrating:
            return True
        if fl is None:
            raise build.MachineryError("no floor recorded for %s (measured %d)" % (fkey, n))
        if n < fl:
            self.violation("<floor>", name,
                           "instance count %d for '%s' fell below the floor %d counted on the pinned tree: "
                           "the rule would pass vacuously" % (n, name, fl))
            return False
        return True

    def note(self, s):
        self.analysed.append(s)


class Ctx:
    def __init__(self, prop, tier, seed=0):
        self.prop = prop
        self.tier = tier
        self.seed = seed
        self.t0 = time.time()
        self.rules = []
        self.violations = []      # (rule, key, message, at)
        self.known_hits = []
        self.db = None
        self.kinds = []
        self.assumptions = []
        self.trusted = []
        self.explanation = ""
        self.measured = {}
        self.renames = []
        self.calibrating = bool(os.environ.get("VERIF_CALIBRATE"))
        with open(FLOORS) as fh:
            self.floors = json.load(fh)
        with open(KNOWN) as fh:
            kf = json.load(fh)
        self.known = {}
        for f in kf.get("findings", []):
            if f.get("property") == prop:
                self.known[f["key"]] = f

    def facts(self, kinds):
        d = build.ensure_facts(kinds)
        self.kinds = sorted(set(self.kinds) | set(kinds))
        if self.db is not None and self.db.dir != d:
            # the tree changed between two requests of one run: all kinds must come from the same tree
            d = build.ensure_facts(self.kinds)
            self.db = None
        if self.db is None:
            self.db = facts.DB(d)
        from . import rename
        self.renames = rename.load_notes(d)
        return self.db

    def rule(self, rid, text):
        r = Rule(self, rid, text)
        self.rules.append(r)
        return r

    def _violation(self, rule, key, message, at):
        if key in self.known:
            self.known_hits.append((rule, key, self.known[key]))
        else:
            self.violations.append((rule, key, message, at))

    # ------------------------------------------------------------------
    def finish(self):
        os.makedirs(EVID, exist_ok=True)
        rep_dir = os.path.join(EVID, "replay")
        lines = []
        for n in self.renames:
            lines.append("RENAMED %s (reports use the reviewed name)" % n)
        for r in self.rules:
            lines.append("RULE %s instances=%d discharged=%d" % (r.id, r.obligations, r.discharged))
        seen_known = set()
        for (rule, key, kf) in self.known_hits:
            if key in seen_known:
                continue
            seen_known.add(key)
            lines.append("KNOWN-FINDING: property=%s %s [%s]" % (self.prop, kf.get("what", ""), key))
        n = 0
        for (rule, key, message, at) in self.violations:
            os.makedirs(rep_dir, exist_ok=True)
            n += 1
            rp = os.path.join(rep_dir, "%s-%d.json" % (self.prop, n))
            with open(rp, "w") as fh:
                json.dump({"property": self.prop, "rule": rule.id, "key": key, "message": message,
                           "at": at, "rule_text": rule.text}, fh, indent=1)
            lines.append("  %s" % message + (" (%s)" % at if at else ""))
            lines.append("  key: %s" % key)
            lines.append("VIOLATION property=%s replay=%s" % (self.prop, rp))
        obligations = sum(r.obligations for r in self.rules)
        discharged = sum(r.discharged for r in self.rules)
        samples = []
        for r in self.rules:
            samples.extend(r.samples[:3])
        for (rule, key, message, at) in self.violations[:5]:
            samples.append({"rule": rule.id, "obligation": key, "verdict": "VIOLATED", "message": message, "at": at})
        for (rule, key, kf) in self.known_hits[:5]:
            samples.append({"rule": rule.id, "obligation": key, "verdict": "known finding (open)",
                            "what": kf.get("what")})
        distinct = len(set().union(*[r.keys for r in self.rules])) if self.rules else 0
        ev = {
            "property_id": self.prop,
            "tier": self.tier,
            "seed": self.seed,
            "level": "other",
            "coverage": {
                "explanation": self.explanation,
                "obligations": obligations,
                "discharged": discharged,
                "evaluations": max(obligations, 1),
                "distinct_nontrivial": distinct,
                "rule": "one evaluation = one rule instance (call site, table entry, byte class, cycle, "
                        "match arm) examined in the MIR of /repo's current tree; distinct = distinct instance keys",
                "checker_cmd": "./check %s --tier %s" % (self.prop, self.tier),
                "trusted_base": self.trusted,
                "samples": samples if samples else [{"note": "no instances"}],
                "rules": [{"id": r.id, "text": r.text, "instances": r.obligations, "discharged": r.discharged,
                           "analysed": r.analysed} for r in self.rules],
                "fact_kinds": self.kinds,
                "renames_applied": self.renames,
                "instance_counts": self.measured,
                "known_findings_open": sorted(seen_known),
                "exhaustive": False,
            },
            "assumptions": self.assumptions,
            "wall_s": round(time.time() - self.t0, 3),
            "violations": len(self.violations),
        }
        with open(os.path.join(EVID, "%s.json" % self.prop), "w") as fh:
            json.dump(ev, fh, indent=1)
        print("\n".join(lines))
        return 1 if self.violations else 0
