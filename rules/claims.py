"""What each check claims (feeds MANIFEST.json via tools/gen_manifest.py)."""

NOTES = (
    "Technique family: static analysis only. Every verdict is computed from the type-checked MIR of /repo's "
    "current working tree (rustc_private driver under `cargo +nightly check`), never by running lexpr code. "
    "Most properties quantify over runtime values; for those the check decides named structural clauses that are "
    "necessary conditions of the behaviour (stated in level_claimed.text) and does not decide the behaviour itself. "
    "Exit 2 means the machinery itself is broken."
)

NOT_APPLICABLE = {
    "C13": "quantifies over the parser's whole accepted language and compares values after a print/parse cycle "
           "(runtime value equality); its only structural content (writer/reader tables, number alphabet) is already "
           "decided under C01/C02/C05, and repeating it under a third id would be a proxy, not a decision",
}

_TB = ("Trusted base: rustc nightly's MIR construction and type checking, the mirfacts driver's transcription of it, "
       "std's documented contracts. ")

CLAIMS = {
    "C07": {
        "text": "Claimed (structural, all values / all write schedules): the printer's only emission primitive on a sink "
                "is io::Write::write_all (or write_fmt), no io::Write::write count is ever discarded, no io::Result is "
                "dropped on a normal path, and the customised formatter specialised to default options performs the same "
                "sink operations as the default formatter. These are necessary conditions for 'nothing dropped, "
                "duplicated or reordered; errors surface'; byte-for-byte equality of whole outputs is not decided.",
        "note": _TB + "Sinks obey the io::Write contract; itoa/ryu produce complete text.",
        "technique": "MIR call-site audit (who-may-call io::Write::write), error-drop dataflow, constant propagation of "
                     "Options::default() through formatter overrides",
    },
    "C03": {
        "text": "Claimed for every input, option set and source kind (a property of the program text): (1) bounded recursion - "
                "every cycle of the parser's call graph contains a call site charged to remaining_depth (delta -1, with a test of the counter against exhaustion on the path, before or after the decrement), the counter is restored on every exit and starts at a constant >= 101; (2) no panic - every "
                "panic!/unreachable!/unwrap/expect/index/bounds/division construct reachable from the parse entry points is "
                "discharged by a guard on the same places or listed with its reason in the reviewed inventory (a new site "
                "alarms); (3) returns - every lexer loop makes progress on each cycle and each successful parse step "
                "consumes input for all 257 first-byte cases. Thorough adds the arithmetic-overflow audit and the "
                "--no-default-features build. Which error is returned is not decided.",
        "note": _TB + "Reasons recorded in tables/panics.json, tables/arith.json, tables/progress.json are reviewed by hand; "
                "std collections do not panic except on allocation failure; inputs shorter than 2^31 bytes.",
        "technique": "call-graph SCC + dominator/dataflow analysis of the depth counter, panic-site inventory with guard "
                     "discharge, natural-loop progress analysis, conditional constant propagation over the first input byte",
    },
    "C16": {
        "text": "Claimed for every list length (a property of the whole-program call graph): in the monomorphic call graph of "
                "every list-walking public operation (parse, print, Display, to_vec family, iterators, get/index, is_list, "
                "clone, ==, drop, Datum clone/==/drop, from_value/to_value) no recursive cycle passes through code over the "
                "(car, cdr) payload aggregate - the shape derived Clone/PartialEq and drop glue have - except drop glue "
                "sanctioned by an iterative manual Drop, and no recursive call receives a cdr-derived argument unless it is "
                "edge-dominated by the non-Cons arm of a match on that cdr. Recursion therefore follows car / vector "
                "nesting only. One open known finding (ConsAccess, deserialize_any) is reported as KNOWN-FINDING.",
        "note": _TB + "Recursion behind dyn calls is not followed (virtual calls are leaves, counted in evidence; none on "
                "these paths today). Operation coverage is what /verif/roots instantiates. Two reviewed cdr-argument "
                "exceptions live in tables/spine_exceptions.json.",
        "technique": "monomorphic call-graph SCC analysis (rustc instance resolution incl. drop glue and shims) + cdr-taint "
                     "dataflow with edge-dominance guards",
    },
    "C17": {
        "text": "Claimed for every input, value and option set: unchecked bytes->str/String/char conversions (and transmutes "
                "to those types) occur only at the reviewed sites, and for each site the bytes that can reach it are bounded "
                "structurally - every byte the printer hands to the sink is an ASCII constant, part of a str, or a computed byte whose interval is below 0x80 (each printer entry point evaluated with its parameters ranging over their whole type: char over every scalar value, u8 over 0..=255, enums over every variant; intervals refined at comparisons); the scanners feeding StrRead's unchecked closures cut the input only at ASCII "
                "bytes (class extraction over all 256 byte values), write only whole UTF-8 to the scratch buffer, start "
                "from a cleared or validated scratch, and no function that pushes a raw byte is reachable from them in the "
                "monomorphic call graph; decode_utf8_sequence returns Ok only behind str::from_utf8; a StrRead can only be "
                "built from a &str (MIR check + compile_fail witnesses in thorough). Thorough repeats this for the build "
                "without fast-float-parsing.",
        "note": _TB + "std's from_utf8 / encode_utf8 / String invariants, itoa and ryu emitting ASCII, core::fmt emitting "
                "only &str fragments.",
        "technique": "who-may-call audit of unchecked conversions, interval analysis of every byte handed to the sink over the parameters' whole types, byte-class "
                     "extraction by conditional constant propagation, dominator checks, call-graph reachability, "
                     "compile_fail witnesses",
    },
    "C19": {
        "text": "Claimed (structural clauses): (1) the complete ErrorCode -> Category map of Error::classify and the "
                "Category -> io::ErrorKind map of From<Error> for io::Error, extracted by constant propagation of every "
                "variant, equal the documented ones (Eof* -> Eof -> UnexpectedEof, Io -> Io -> the original error, all "
                "others Syntax -> InvalidData), likewise for serde_lexpr::Error (+ Data -> InvalidData, no panic); "
                "syntax/EOF errors are only built by Error::syntax with Some(location) and Io errors only by Error::io; "
                "(2) at every read site of the lexer (and every use of parse_whitespace / next_value / next_datum "
                "returning Ok(None)), the end-of-input outcome can raise an Eof* code before the next read - a site whose "
                "only answer to end of input is a syntax code is reported. The numeric bounds of line/column and whether a "
                "data-dependent branch at end of input picks the right code are not decided.",
        "note": _TB + "std::io::Error::new keeps the kind it is given.",
        "technique": "variant-map extraction by conditional constant propagation; end-of-input injection at each read "
                     "site with abstract path enumeration; constructor-site audit",
    },
    "C12": {
        "text": "Claimed (structural clauses, for all byte values): the five whitespace bytes and `;` comments (to LF or end of "
                "input) are skipped by parse_whitespace; every trivia byte is in the terminator class of both symbol "
                "scanners and of both is_delimiter predicates (classes extracted exactly over all 256 bytes + EOF), which "
                "is necessary for trivia changes never to merge or split tokens; iteration terminates because the "
                "iterators are fused by a sticky flag (tested on entry, set on every Some(Err) path) and each successful "
                "item consumes input for all 257 first-byte cases. The yielded values are not decided.",
        "note": _TB + "u8::is_ascii_whitespace's documented set.",
        "technique": "byte-class extraction by conditional constant propagation over the input byte, exact subset checks "
                     "between extracted classes, abstract path enumeration of the iterator bodies",
    },
    "C06": {
        "text": "Claimed (structural clauses): a read failure is never swallowed - no value that can hold parse::Error / "
                "io::Error is dropped or passed to a discarding adaptor on a normal path of the parser (5 reviewed "
                "exceptions where an error is still returned), and the complete outcome maps of IoRead::next/peek and "
                "LineColIterator::next send Some(Err(e)) to an error carrying e, None to end of input, Some(Ok(b)) to b; "
                "lexpr touches the user's reader only through io::Read::bytes, so chunking and Interrupted are std's "
                "contract; the Io and Slice variants of the symbol and string scanners have identical byte classes over "
                "all 256 bytes. Equality of parse results across the three sources is not decided.",
        "note": _TB + "std::io::Bytes reads one byte per call and retries ErrorKind::Interrupted.",
        "technique": "error-drop dataflow over MIR drop terminators, outcome-map extraction by constant propagation, "
                     "who-may-call audit of io::Read, byte-class extraction and comparison of sibling scanners",
    },
    "C01": {
        "text": "Claimed (table clauses only, each a necessary condition of the round trip): for all 256 byte values the text "
                "the default printer emits for the byte inside a string is read back as exactly that byte by the R6RS "
                "string reader (ESCAPE -> CharEscape -> escape text composed with the reader's escape switch; HEX inverts "
                "HEX_DIGITS; quote and backslash are escaped); every printable ASCII character written as #\\c is read "
                "back as itself (95 cases); the separator ' ' and closer ')' are in every token-terminator class; in radix "
                "10 the number reader routes '.', 'e', '-' and digits of itoa/ryu output to its fraction/exponent paths. "
                "Equality of values, float exactness, nesting and the independent reader are not decided.",
        "note": _TB + "itoa/ryu output alphabet is digits . e -; char::encode_utf8 is the identity below 0x80.",
        "technique": "writer/reader table composition by conditional constant propagation over all byte values; exact "
                     "subset checks between extracted byte classes",
    },
    "C02": {
        "text": "Claimed (table clauses only): ' ', ')' and ']' end every token kind; for all 256 byte values the Emacs Lisp "
                "string printer's text is read back as that byte by the Emacs Lisp string reader, control characters using "
                "the \\u00XX form; every printable character written by write_elisp_char (backslash chosen from "
                "ELISP_ESCAPE_CHARS) is read back as itself (95 cases); every `#` token constant of the printer is "
                "dispatched by parse_token to the matching token kind; The 576 x 1536 "
                "option cross product, nil/t folding and value equality are not decided.",
        "note": _TB + "core::fmt {:x} prints lowercase hexadecimal.",
        "technique": "writer/reader table composition by conditional constant propagation; byte-class subset checks",
    },
    "C05": {
        "text": "Claimed (structural clauses): decimal-only routines (parse_decimal, parse_exponent, f64_from_parts) are "
                "reachable only under a radix == 10 edge, so non-decimal literals are never scaled by powers of ten; in both "
                "cfg variants of f64_from_parts (default and --no-default-features) a multiplied or std-parsed double "
                "reaches `return` only through a finiteness test, so infinity is never returned; POW10 (read from the "
                "compiled static) equals the correctly rounded 1e0..1e308 and is looked up with slice::get; the radix-10 "
                "dispatch accepts the printer's number alphabet; lossy casts in the scanner and Number are the reviewed "
                "ones. Exact rounding of individual literals and the 2^-50 bound are runtime-value questions and are not "
                "decided.",
        "note": _TB + "Python's float('1e%d') is correctly rounded; rustc rounds float literals correctly.",
        "technique": "edge-dominance analysis on the radix parameter, path-cut reachability between double producers and "
                     "return, constant-table comparison, cast inventory, byte-sequence constant propagation",
    },
    "C20": {
        "text": "Claimed: the complete outcome maps of every is_x / as_x pair on Value and Number, extracted by constant "
                "propagation over all 11 Value kinds and the integer boundary payloads (0, 1, i64::MAX, i64::MAX+1, "
                "u64::MAX, -1, i64::MIN), agree (is_x true exactly where as_x is Some; is_f64/as_f64 with the documented "
                "integer->double asymmetry); as_i64/as_u64 return the stored integer exactly when in range; as_name is Some "
                "exactly for String/Symbol/Keyword; From<i8..i64> stores n>=0 as PosInt(n) and n<0 as NegInt(n) on the "
                "boundary values of every width, unsigned as PosInt, floats as Float with exactly the argument as payload (an f32 widened exactly; six values per "
                "width whose f32 / f64 / decimal forms all differ); each of the 50 PartialEq impls between Value and a primitive, in both operand orders and through references, is evaluated abstractly on the stored integer cases x the boundary values of the primitive type, on booleans, on strings of each name kind, on stored floats against every integer primitive (never equal: a float is never an integer) and against float primitives (IEEE equality with as_f64, integers converted to the nearest double), and on the non-matching kinds (4874 cases): integers compare by mathematical value, every other pairing is unequal. Preservation of "
                "string/byte/char payloads as values is not decided.",
        "note": _TB + "std's integer From impls are lossless.",
        "technique": "outcome-map extraction by conditional constant propagation over enum variants and boundary "
                     "constants; abstract evaluation of the macro-generated comparison impls on boundary cases",
    },
    "C15": {
        "text": "Claimed: the clause 'indexing never panics on any value' - every panic!/unreachable!/unwrap/expect/"
                "slice-index/bounds-check/division construct in the code reachable from Value::get, the Index impls for "
                "usize/str/String/&T/Value and ops::Index::index is discharged or reviewed (the inventory is empty today) "
                "and ops::Index falls back with unwrap_or(&NIL); thorough recomputes the surface from the monomorphic call "
                "graph. The consistency relations between the ten traversals are value-level and are not decided.",
        "note": _TB + "slice::get and std iterator adaptors do not panic.",
        "technique": "panic-site inventory over call-graph reachability (polymorphic in quick, monomorphic in thorough)",
    },
    "C04": {
        "text": "Claimed (shape compatibility and widening only): for every Serde data-model category the top-level value kinds "
                "that the serializer method can produce (extracted as constructor terms from the MIR) are accepted by the "
                "deserializer method serde pairs with it (accept maps extracted over 15 input shapes), including the cons "
                "shapes for Some / variants and the payload routing of VariantAccess; numeric serializer methods widen "
                "with From only and every stored number representation reaches the visitor method of its own payload "
                "type. These are necessary for any value to deserialize from its own serialization; identity on values, "
                "shape-ambiguous nestings and the text path are not decided.",
        "note": _TB + "serde's derived impls pair serialize_x with deserialize_x.",
        "technique": "constructor-term extraction and accept-map extraction by abstract evaluation of MIR; inclusion check "
                     "per data-model category",
    },
    "C14": {
        "text": "Claimed: the constructor term returned or pushed by each of the 44 serializer / collector methods equals the "
                "term transcribed from the crate documentation and C14's statement (sequences list(items), tuples "
                "Vector(items), maps/structs list of cons(key|symbol(field), ser(value)), None Null, Some cons(ser(x), Null), "
                "unit Null, newtype ser(x), variants symbol / cons(symbol, ..), integers from:i64/u64 of a From-widened "
                "value ...); since every child goes through ser(x) these level-one terms compose to nested shapes. The "
                "accept map of every deserialize_* method over 15 input shapes equals the documented one (vector where a "
                "sequence is expected, list where a tuple is expected, wrong kinds -> error) and ListAccess/MapAccess "
                "reject improper tails and non-pair entries.",
        "note": _TB + "The transcription in tables/serde_shapes.json is reviewed by hand against serde-lexpr/src/lib.rs; a "
                "behaviour-preserving rewrite of a serializer method into a different constructor expression (e.g. "
                "Value::list(vec![x]) for Value::cons(x, Null)) would need the table updated.",
        "technique": "constructor-term extraction by abstract evaluation of MIR compared with a documented term table; "
                     "accept-map extraction",
    },
    "C18": {
        "text": "Claimed (totality and error category; not the re-serialisation fixed point): the complete outcome map of the "
                "29 deserialize_* methods over 15 input shapes (11 kinds, three number representations, three cdr shapes) "
                "contains only visitor calls and invalid_value errors and no panic path; the access objects answer "
                "improper tails, non-pair entries and exhausted cursors with Err / Ok(None); panicking constructs in the "
                "deserializer are discharged or reviewed (one expect reachable only by violating serde's MapAccess "
                "protocol); every ErrorImpl built on this path is a Message, which classify() maps to Category::Data.",
        "note": _TB + "Visitor implementations (derived / std) follow the MapAccess protocol and do not panic themselves.",
        "technique": "outcome-map extraction by abstract evaluation of MIR, panic-site inventory, constructor-site audit",
    },
    "C11": {
        "text": "Claimed (one structural clause, necessary for 'the same spans from str, slice and stream'): with a lookahead "
                "byte pending, IoRead::position returns the position that IoRead::peek saved before it advanced the "
                "line/column iterator, and without one the iterator's own line/column; SliceRead::peek does not move the "
                "index; byte_offset compensates likewise. All span arithmetic, containment, adjacency and re-parsing of the "
                "covered text are runtime-value questions and are not decided.",
        "note": _TB,
        "technique": "abstract evaluation of the reader's position/peek functions in both lookahead states with symbolic "
                     "line/column tokens",
    },
    "C10": {
        "text": "Claimed (twin cross-check; not item-for-item equality): each hand-duplicated pair (next_value/next_datum, "
                "parse_list/parse_list_meta, parse_vector/parse_vector_meta, expect_value/expect_datum, parse::from_trait/"
                "datum::from_trait) agrees on the set of error codes raised, the byte constants tested and the set of parser routines called (loop-free private helpers looked through, location-only callees removed, *_meta/*_datum renamed); next_value "
                "and next_datum map every atom token to the same Value variant (extracted by abstract evaluation); all four "
                "sequence parsers accept exactly the closing byte given by their terminator parameter in every position "
                "(40 abstract cases incl. after a dotted tail). A change made to both twins alike is not detected.",
        "note": _TB,
        "technique": "feature extraction and comparison of sibling implementations over MIR; variant-map extraction; "
                     "abstract evaluation of the close-delimiter logic",
    },
    "C08": {
        "text": "Claimed (structural clauses): every option field is read only inside parse_token and only while lexing a "
                "token whose first byte is in the option's documented class (all 256 first bytes evaluated with symbolic "
                "options), which makes it impossible for an option to change tokens it does not name; for 19 (first-byte "
                "class, option value) cases the set of token kinds parse_token can produce changes exactly as documented "
                "(brackets, string/char syntax, the three keyword spellings, #%, leading digits, nil, t); a Parser built "
                "inside the crate is checked with expect_end before its result is used; ' ` , ,@ map to their four symbols "
                "and both expansion sites build a two-element list; closing delimiters are compared with the opener's "
                "partner in all 40 abstract cases; number tokens are returned only after inspecting the following byte. "
                "Pairwise equality of results between option sets is not decided.",
        "note": _TB + "The documented first-byte classes in tables/option_classes.json.",
        "technique": "conditional constant propagation of parse_token over first bytes and option values; dominance / "
                     "call-site audits",
    },
    "C09": {
        "text": "Claimed (alphabets only, a thin necessary condition): every punctuation character lexpr-macros accepts as the "
                "first character of a symbol can start a symbol for the text parser, every character it joins into a "
                "punctuation symbol continues a symbol in both text scanners, and its `#` identifiers t / f / nil are `#` "
                "tokens of the text parser with the same meaning (all read from the `char` switches and constants in the "
                "MIR of both crates). Spacing-driven joining, dotted-tail flattening, literal typing and unquote relate "
                "two parsers over a language; that needs generated programs to be compiled and run and is not decided.",
        "note": _TB + "proc_macro2::Punct::as_char yields the ASCII punctuation character.",
        "technique": "switch-constant extraction from MIR of the macro crate compared with byte classes extracted from the "
                     "text parser",
    },
}


# Rules added after the first version of a claim; appended so that MANIFEST.json names every rule that decides.
_ALSO = {
    "C01": ("text reaches an io sink only through write_all / write_fmt (no short write can lose part of the printed "
            "text, for the io-writer and Display entry points); a token `+c` / `-c` with c an R7RS <sign subsequent> "
            "character (138 cases) is read as a symbol, as the printer writes such names verbatim; the integer boundary "
            "magnitudes (0, 1, 2^63-1, 2^63, 2^63+1, 2^64-1, both signs) keep their representation when read (shared with C05); "
            "the number printer hands the sink exactly the text itoa / ryu produced, once, on every path; the byte-vector "
            "reader accepts an element n exactly for 0 <= n <= 255 and stores n (the element ranges over all of u64); a printed "
            "float such as 1e-7 or 2.5e21 reaches the float constructor with the exponent it was written with (12 texts, "
            "shared with C05).", None),
    "C02": ("the empty list is printed as `()` under every printer option value; with the nil-as-false option nil is "
            "written exactly as `false` is under every boolean syntax; with Emacs Lisp bytes syntax each of the 256 byte "
            "values is written as a three-digit octal escape between quotes and the reader's octal decoder yields the same "
            "byte; text reaches an io sink only through write_all / "
            "write_fmt; on the leading-digit path the token reaches the numeric sub-parser without a data-dependent "
            "pre-filter; a letter-initial name, which the printer writes verbatim, is read back as that symbol unless it is "
            "exactly the `nil` / `t` the parser options give a meaning to or ends in the postfix-keyword colon - case variants "
            "(`NIL`, `Nil`, `T`) included (decision table over 13 texts x option values, shared with C08); under each of the six "
            "combinations of vector syntax and bytes syntax a byte vector is written in the notation its bytes syntax "
            "documents (`#vu8(`, `#u8(`, unibyte string), never in the bracket notation of generic vectors; the integer boundary "
            "magnitudes keep their representation when read (shared with C01 / C05).", None),
    "C03": ("the reader's lookahead byte is discarded only right after a peek that returned a byte (typestate over all "
            "abstract paths, with a fixpoint over functions that start by discarding); helpers the counter logic is split "
            "into (enter/leave style) are summarised by outcome (result variant, delta, tested) and accounted for at each "
            "call site (where the counter lives behind a type of its own, or the recursive step is passed on as a function "
            "value, the charge is established by evaluating every function of the recursive component over all abstract "
            "paths with a budget of 5 and of 1); a closure handed to a wrapper that takes the level, calls it and gives the level back counts as "
            "charged; slicing the slice reader's input from its cursor is in range because the cursor never passes the end "
            "of the slice (induction over every store to it).",
            "call-graph SCC + dataflow analysis of the depth counter (path-sensitive in Result/Option variants, with helper "
            "summaries), lookahead typestate analysis, panic-site inventory with guard discharge, natural-loop progress "
            "analysis, conditional constant propagation over the first input byte"),
    "C04": ("every collector method records exactly one element per call; strings, byte vectors and identifiers are "
            "handed to the visitor as borrowed data (needed by borrowing targets such as &str); deserialize_newtype_struct "
            "passes a deserializer over the very same value for all 15 value kinds; every other type of the crate that "
            "implements serde::Deserializer answers like the value deserializer; on the text path the integer boundary "
            "magnitudes keep their representation (shared with C05) and each of the 256 byte values inside a string is "
            "written by the default printer as text the default reader maps back to that byte (shared with C01); the "
            "numeric serializer methods convert only in ways that cannot change the value.", None),
    "C05": ("the u64/i64 boundary of integer literals (|i64::MIN| accepted as negative, one more goes to the float path) "
            "is decided on the abstract paths of the number tail; the digit loop of parse_num_literal is evaluated on 88 "
            "boundary literals (u64::MAX, u64::MAX +- 1, 2^64, longest all-max-digit strings, with and without leading "
            "zeros) in radix 2, 8, 10 and 16: the exact value is handed on up to u64::MAX, the long-integer path is "
            "taken above it with a significand that is the value of the digits read minus those its exponent argument counts, "
            "and no arithmetic overflows on the way (cases, not all literals); a decimal literal with a fraction and / or an "
            "exponent reaches the float constructor as (significand, exponent) with significand * 10^exponent equal to the "
            "literal (12 texts: both exponent signs, fraction digits, upper-case E, leading zeros); the radix prefixes #b #o "
            "#d #x read the literal `10` as 2, 8, 10 and 16 in the lexer and in byte-vector elements; the number printer hands the sink "
            "exactly the text itoa / ryu produced (the shortest text that reads back as the same number), once, on every path.", None),
    "C06": ("when the contents of a list or vector fail to parse, next_value and next_datum return that very error - which "
            "may be the stream's I/O error - whether or not closing the sequence fails as well (4 cases); the error type's "
            "category map sends the I/O code to the I/O category and only Eof* codes to the EOF category, so a read failure "
            "is never classified as end of input (shared with C19).", None),
    "C07": ("no buffering writer (whose pending bytes would be flushed in Drop with the error discarded) is interposed on "
            "the print path; local helpers that only forward to write_all count as the write_all they perform; a method with a "
            "`char` / `u8` parameter is compared with the default formatter's sub-range by sub-range of that parameter "
            "(comparisons split the range per path).", None),
    "C08": ("for 240 (token text, option values) cases over representative letter-initial texts {nil, t, x, nil:, t:, x:, "
            "...} the token produced is exactly the documented one (postfix keyword first, then nil, then t, else symbol); "
            "parse_token may be split into loop-free helpers, the evaluation looks through them; on the leading-digit path "
            "the token reaches the numeric sub-parser without a textual pre-filter (shared with C02); each Options builder method, "
            "evaluated over the options' finite domains (23 prior states, every argument value, arrays and slices of "
            "keyword spellings; 782 cases), makes the accessor of its option answer the argument and leaves every other "
            "accessor's answer unchanged - with_keyword_syntax adds a spelling, with_keyword_syntaxes sets the list.",
            "conditional constant propagation of parse_token (and the loop-free helpers it is split into) over first bytes, "
            "option values and representative token texts; dominance / call-site audits"),
    "C09": ("a sign followed by a character the macro joins is a symbol for the text parser too (two open findings: `-.`, "
            "`+.`); the macro's alphabets are obtained by abstract evaluation of its token parser for each ASCII "
            "punctuation character with the token stream symbolic; a character reported Spacing::Alone ends the macro's symbol "
            "and a Joint one continues it, at the start of a symbol and inside one (70 cases); inside a list the macro's list "
            "parser consumes a token itself exactly for a `.` standing Alone (the dotted-tail marker) - a `.` glued to "
            "further punctuation, every other punctuation character and a `-` before a literal go to the element parser "
            "unconsumed, whatever follows (384 token vectors); the element parser consumes exactly the tokens of each "
            "documented form (identifier, literal, group, #t/#f/#nil, #\"..\", #(..), #:name, #:\"..\", :name, :\"..\", "
            "negative literal, unquote, punctuation symbols) whatever token follows - nothing is glued on, nothing left "
            "over (17 forms x 11 followers) - and reads it as the documented kind whatever the text of an identifier or "
            "literal is (an identifier is always a symbol).",
            "abstract evaluation of the macro crate's token parser per punctuation character, compared with byte classes "
            "and token kinds extracted from the text parser"),
    "C10": ("around each nested construct (list, vector, byte vector, quote shorthand) both APIs can raise exactly the same "
            "error codes (recursion limit, end of input after a quote shorthand, closing delimiter; 8 cases), also with one "
            "and two levels of the depth budget left (both APIs give out at the same nesting level; 8 more cases); "
            "the dotted-tail handling of the list twins maps each tail token to the same outcome; after a `.` both list "
            "parsers classify the following byte identically (dotted tail vs symbol starting with a dot) for all 256 byte "
            "values and end of input; the hand-written, iterative clone of the span information rebuilds the chain it is given "
            "cell for cell, terminator kind for terminator kind and span for span (10 structural chains); value_iter and "
            "datum_iter are fused by the same sticky flag on every error return (shared with C12); list_iter() of the value "
            "and of the datum API accept the same kinds of value (a pair and the empty list, nothing else).", None),
    "C11": ("for a quote shorthand the end position handed to Datum::quotation is read before the quoted datum is parsed; "
            "reader fields are identified by type and accessors by signature; the stream's line/column counter and the "
            "slice's recount special-case exactly the same byte values (only LF) and advance for each of the others (256 "
            "byte values); for each of the 12 non-quote token kinds the span handed to the Datum constructor starts at the "
            "position read before the token is lexed and ends at a position read after the last thing consumed for that "
            "datum (the element list of a byte vector, the closing delimiter).", None),
    "C12": ("the fused flag lives in the parser, not in the per-call iterator object, and no function reachable from the "
            "iterator entry points (including value_iter / datum_iter) clears it.", None),
    "C18": ("'serializing x and deserializing again returns x' needs the numeric serializer methods to store the number "
            "they are given: on the way they convert only in ways that cannot change the value (shared with C04); the "
            "constructor of data errors is found by what it does, not by its name.", None),
    "C19": ("the stream's line/column counter starts a new line at exactly the byte the slice recount does (the line feed, "
            "nothing else, over all 256 byte values): the line of an error location counts the same lines for every kind of "
            "input (shared with C11); every proper prefix (two bytes or more) of each of the 12 character names the R6RS "
            "character reader accepts - the names are discovered by evaluating the reader on ranged bytes - followed by the "
            "end of input is reported with an Eof code (39 prefixes).", None),
    "C16": ("a hand-written Drop for a spine type may skip the detaching loop only on a test of the chain's own shape "
            "(a branch on anything else that returns with the tail attached hands the chain to the recursive drop glue); "
            "the cdr of a cell reached through a car is an element's payload, not the spine; `meta[1]` of the span pair counts "
            "as the cdr however the index is spelled, `meta[0]` and vector payloads as elements; passing a cdr to a callee "
            "that continues only into its car does not follow the spine; 'nesting depth, which the parser bounds' is checked, "
            "not assumed: every cycle of the parser's call graph is charged to the depth counter, directly or through a "
            "closure-taking wrapper that charges around the call, and the counter is balanced (shared with C03); after the manual "
            "Drop of a cons cell has run on chains of 2..6 cells, proper and dotted (16 cases), at most two further cells still "
            "hang off it - the recursive drop glue never sees a long chain, whatever test the impl uses to skip its loop.", None),
    "C15": ("association-list lookup by name and by value, evaluated abstractly over six synthetic lists with concrete "
            "key texts (entries that are not pairs, duplicate keys, the same text under each name kind, a dotted tail, "
            "a non-list): the answer is the cdr of the first entry whose key matches - any name kind with that text "
            "for lookup by name, the same kind and text for lookup by value - and None otherwise (24 cases); "
            "the tail handling of the list traversals maps each cdr shape to the documented outcome; the hand-written, "
            "iterative Cons::clone (which the cloning conversions go through) gives back the cells, elements and tail of "
            "1..3-element chains with six kinds of tail and nested chains (20 cases); Value::append / list, the three vector "
            "conversions of a cell chain, Value::to_vec / to_ref_vec, is_list / is_dotted_list, positional indexing (i = 0..n+1) "
            "and the number of cells Cons::iter visits, each evaluated on structural chains of 0..3 elements with six kinds "
            "of tail (278 cases, loops unrolled over the concrete cells), give the (xs, t) answers the property states - "
            "cases with small n, not all lists.; the hand-written, iterative Cons::eq holds exactly for chains with the same elements in order and the same tail (12 pairs of chains)", None),
}
for _k, (_t, _tech) in _ALSO.items():
    CLAIMS[_k]["text"] = CLAIMS[_k]["text"] + " Also claimed: " + _t
    if _tech:
        CLAIMS[_k]["technique"] = _tech
