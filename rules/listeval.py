"""R-TRAVERSE: construction, conversion, predicates and positional indexing of lists, evaluated over structural chains.

C15 relates ten operations through the pair (xs, t) a list was built from.  Taken whole that quantifies over all
element sequences; what is decided here is each operation's own MIR on structural chains of 0..3 cells (thorough:
up to 5) with every kind of tail, with the loops unrolled by the simulator over the concrete cells:

  build      Value::append(xs, t) / Value::list(xs) give the chain x1 .. xn . t (t itself for no elements)
  to-vec     Cons::to_vec / into_vec / to_ref_vec return (xs, t); the reference flavour returns the very cells' cars
  value-vec  Value::to_vec / to_ref_vec are Some(xs) exactly for a proper list
  predicates is_list is true exactly for the empty-list tail, is_dotted_list is its complement
  index      positional lookup returns xs[i] for i < n and None beyond, also on dotted lists
  cells      Cons::iter visits n cells

Elements are booleans and characters, whose payload the simulator carries exactly, so "the same elements in the
same order" is decided by value; payloads behind unmodelled std calls are compared by kind.  These are cases (small
n), not all lists: a rewrite that is wrong only from the fourth cell on is not seen.  An operation whose evaluation
meets a construct the simulator has no model for is undecided (counted; the floors are the counts on the pinned tree).
"""
from . import alist, sim
from .sim import Adt, Ref, Tup

FILES = ("value/index.rs", "value/mod.rs", "value/from.rs", "cons.rs", "number.rs")


def _sim(lexpr):
    S = alist.make_sim(lexpr)
    S.structural_box = True
    S.structural_vec = True
    S.inline = lambda a, b: b.crate == lexpr.name and any(b.file.endswith(f) for f in FILES)
    return S


def _vec_items(S, p, v):
    v = S._deref(v, p)
    if isinstance(v, Adt) and v.adt == "sim::Vec":
        return [alist.describe(S, p, x) for x in v.fields[0].fields]
    return None


def _opt(S, p, v):
    v = S._deref(v, p)
    if isinstance(v, Adt) and v.adt.endswith("Option"):
        return ("none",) if v.variant == 0 else ("some", v.fields[0])
    return ("?",)


def check(r, lexpr, thorough=False):
    B = lambda x: alist.mk(lexpr, "Bool", x)
    C = lambda x: alist.mk(lexpr, "Char", x)
    tails = [("the empty list", lambda: alist.mk(lexpr, "Null"), True), ("a boolean", lambda: B(1), False),
             ("#nil", lambda: alist.mk(lexpr, "Nil"), False), ("a character", lambda: C(0x78), False),
             ("a vector", lambda: alist.mk(lexpr, "Vector"), False),
             ("a string", lambda: alist.name_value(lexpr, "String", b"t"), False)]
    mk_items = lambda n: [C(0x61 + i) if i % 2 == 0 else B(i % 4 == 1) for i in range(n)]
    lens = (0, 1, 2, 3, 5) if thorough else (0, 1, 2, 3)
    fns = {k: lexpr.fn(v) for k, v in {
        "append": "value::Value::append", "list": "value::Value::list",
        "to_vec": "cons::Cons::to_vec", "into_vec": "cons::Cons::into_vec", "to_ref_vec": "cons::Cons::to_ref_vec",
        "v_to_vec": "value::Value::to_vec", "v_to_ref_vec": "value::Value::to_ref_vec",
        "is_list": "value::Value::is_list", "is_dotted_list": "value::Value::is_dotted_list",
        "index": "<usize as value::index::Index>::index_into", "iter": "cons::Cons::iter",
        "iter_next": "<cons::Iter<'a> as std::iter::Iterator>::next"}.items()}
    missing = sorted(k for k, f in fns.items() if f is None and k not in ("iter_next",))
    if fns["iter_next"] is None:
        for f in lexpr.fns:
            if f.impl_trait == "std::iter::Iterator" and f.path.endswith("::next") and (f.self_ty or "").startswith("cons::Iter<"):
                fns["iter_next"] = f
    if missing:
        r.anchor_missing("list operations %s" % missing)
        return
    stats = {"n": 0, "und": 0}

    def run(fn, args):
        S = _sim(lexpr)
        try:
            return S, [p for p in S.run(fn, args=args)]
        except sim.Limit:
            return S, None

    def judge(op, what, fn, got, want):
        """got: set of outcomes over all paths (None = could not evaluate)."""
        stats["n"] += 1
        if got is None or any(g is None or (isinstance(g, tuple) and "?" in repr(g)) for g in got):
            stats["und"] += 1
            r.note("undecided: %s on %s gives %s" % (op, what, sorted(map(repr, got or []))[:2]))
        elif got == {want}:
            r.ok("%s on %s" % (op, what), fn)
        else:
            r.violation(fn.path, "%s:%s" % (op, what.replace(" ", "-")),
                        "%s on %s gives %s, the documented result is %s" % (op, what, _fmt(sorted(got, key=repr)[0]), _fmt(want)),
                        fn.loc())

    def outcomes(S, ps, f):
        if ps is None:
            return None
        out = set()
        for p in ps:
            if p.end == "return":
                out.add(f(S, p))
            else:
                out.add(("end", str(p.end)))
        return out

    for n in lens:
        for tname, mk_tail, proper in tails:
            items = mk_items(n)
            tail = mk_tail()
            what = "%d element(s) and tail %s" % (n, tname)
            S0 = _sim(lexpr)
            d_items = [alist.describe(S0, None, x) for x in items]
            d_tail = alist.describe(S0, None, tail)
            chain = alist.lst(lexpr, items, tail)
            d_chain = alist.describe(S0, None, chain)
            # construction
            S, ps = run(fns["append"], {1: Tup(list(mk_items(n))), 2: mk_tail()})
            judge("Value::append", what, fns["append"], outcomes(S, ps, lambda S, p: alist.describe(S, p, p.ret)), d_chain)
            if proper:
                S, ps = run(fns["list"], {1: Tup(list(mk_items(n)))})
                judge("Value::list", "%d element(s)" % n, fns["list"], outcomes(S, ps, lambda S, p: alist.describe(S, p, p.ret)), d_chain)
            # predicates
            for op, want in (("is_list", int(proper)), ("is_dotted_list", int(not proper))):
                S, ps = run(fns[op], {1: Ref([alist.lst(lexpr, mk_items(n), mk_tail())], 0, ())})
                judge("Value::" + op, what, fns[op], outcomes(S, ps, lambda S, p: p.ret if isinstance(p.ret, int) else None), want)
            # Value::to_vec / to_ref_vec: Some(xs) exactly for a proper list
            for op in ("v_to_vec", "v_to_ref_vec"):
                S, ps = run(fns[op], {1: Ref([alist.lst(lexpr, mk_items(n), mk_tail())], 0, ())})

                def f(S, p):
                    o = _opt(S, p, p.ret)
                    if o[0] == "some":
                        vi = _vec_items(S, p, o[1])
                        return ("some", tuple(vi)) if vi is not None else None
                    return o
                judge("Value::" + op[2:], what, fns[op], outcomes(S, ps, f), ("some", tuple(d_items)) if proper else ("none",))
            # positional indexing
            for i in range(0, n + 2):
                if n == 0 and tname == "a vector":
                    break       # that value *is* a vector: indexing answers its elements, which is not a list matter
                S, ps = run(fns["index"], {1: Ref([i], 0, ()), 2: Ref([alist.lst(lexpr, mk_items(n), mk_tail())], 0, ())})

                def f(S, p):
                    o = _opt(S, p, p.ret)
                    return ("some", alist.describe(S, p, o[1])) if o[0] == "some" else o
                judge("index %d" % i, what, fns["index"], outcomes(S, ps, f), ("some", d_items[i]) if i < n else ("none",))
            if n == 0:
                continue
            # conversions of the cell chain
            for op in ("to_vec", "into_vec", "to_ref_vec"):
                chain = alist.lst(lexpr, mk_items(n), mk_tail())
                cell = chain.fields[0]
                S, ps = run(fns[op], {1: cell if op == "into_vec" else Ref([cell], 0, ())})

                def f(S, p):
                    rv = S._deref(p.ret, p)
                    if isinstance(rv, Tup) and len(rv.fields) == 2:
                        vi = _vec_items(S, p, rv.fields[0])
                        return (tuple(vi), alist.describe(S, p, rv.fields[1])) if vi is not None else None
                    return None
                judge("Cons::" + op, what, fns[op], outcomes(S, ps, f), (tuple(d_items), d_tail))
            # cell iteration visits n cells
            if fns["iter_next"] is not None:
                chain = alist.lst(lexpr, mk_items(n), mk_tail())
                S, ps = run(fns["iter"], {1: Ref([chain.fields[0]], 0, ())})
                got = None
                if ps and len(ps) == 1 and ps[0].end == "return":
                    itc = [ps[0].ret]
                    cnt, ok = 0, True
                    for _ in range(n + 2):
                        q = [p for p in S.run(fns["iter_next"], args={1: Ref(itc, 0, ())})]
                        if len(q) != 1 or q[0].end != "return" or not isinstance(q[0].ret, Adt):
                            ok = False
                            break
                        if q[0].ret.variant == 0:
                            break
                        cnt += 1
                    got = {cnt} if ok else None
                judge("Cons::iter (cells visited)", what, fns["iter"], got, n)
    r.floor("traverse-cases", stats["n"])
    r.floor("traverse-decided", stats["n"] - stats["und"])
    return stats["n"]


def _fmt(d):
    try:
        return _fmt0(d)
    except Exception:
        return repr(d)


def _fmt0(d):
    from .cloneid import _show
    if d == ():
        return "[]"
    if isinstance(d, tuple) and d and d[0] in ("some", "none"):
        return "None" if d[0] == "none" else "Some(%s)" % _fmt0(d[1])
    if isinstance(d, tuple) and len(d) == 2 and isinstance(d[0], tuple) and (not d[0] or isinstance(d[0][0], tuple)):
        # (items, tail) or a tuple of items
        if d[0] and isinstance(d[0][0], tuple) and isinstance(d[1], tuple) and d[1] and isinstance(d[1][0], str):
            return "([%s], %s)" % (", ".join(_show(x) for x in d[0]), _show(d[1]))
    if isinstance(d, tuple) and d and all(isinstance(x, tuple) for x in d) and not isinstance(d[0], str):
        return "[%s]" % ", ".join(_show(x) for x in d)
    if isinstance(d, tuple):
        return _show(d)
    return repr(d)
