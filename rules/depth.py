"""R-DEPTH-CYCLE and R-DEPTH-BALANCE: recursion of the parser is charged to a
depth counter on every cycle of its call graph, and the counter is balanced."""
from . import cfg, common, facts
from . import facts as facts_mod

FIELD = "remaining_depth"
TOP = "T"
# The counter is a budget counting down to 0 on the reviewed tree.  A tree that counts the *depth* up from 0 to a limit
# constant instead (same limit, same error) is read with the signs exchanged: `+= 1` takes a level, the exhaustion test
# compares with the limit.  Set by check_depth from how Parser values are constructed.
STATE = {"up": False, "limits": set()}


def is_depth_place(pl):
    return any(isinstance(e, dict) and e.get("n") == FIELD and e.get("adt") == "parse::Parser" for e in pl["p"])


def local_call_graph(crate):
    """fn path -> list of (fn, block, term-or-None, callee path) for resolved local callees.

    Closures are nodes of their own; a function has an edge to every closure it
    creates (the closure may be called by std adaptors the walk does not see)."""
    by_path = {}
    edges = {}
    for fn in crate.fns:
        by_path.setdefault(fn.path, fn)
    impls = {}
    for fn in crate.fns:
        if fn.impl_trait and fn.kind != "closure":
            impls.setdefault((fn.impl_trait, fn.path.rsplit("::", 1)[1]), []).append(fn.path)
    for fn in crate.fns:
        for bi, t in fn.calls():
            c = t["callee"]
            tgt = c.get("resolved") if c.get("resolved_crate") == crate.name else None
            if tgt is None and c.get("crate") == crate.name and "trait" not in c:
                tgt = c.get("path")
            if tgt is None and c.get("trait") and "resolved" not in c and c.get("crate") == crate.name:
                # a method of a local trait called on a type parameter: any of its local impls may run
                for ip in impls.get((c["trait"], c.get("method")), []):
                    edges.setdefault(fn.path, []).append((fn, bi, t, ip))
                continue
            if tgt is None or tgt not in by_path:
                continue
            edges.setdefault(fn.path, []).append((fn, bi, t, tgt))
        for bi, b in enumerate(fn.blocks):
            if b.get("cleanup"):
                continue
            for s in b["stmts"]:
                if s["k"] == "assign" and s["rv"]["k"] == "agg" and s["rv"].get("agg") == "closure":
                    cp = s["rv"]["closure"]
                    if cp in by_path:
                        edges.setdefault(fn.path, []).append((fn, bi, {"k": "closure", "line": s.get("line")}, cp))
            # a local function handed on as a value (`self.parse_seq(close, Self::parse_list)`): whoever receives it
            # may call it, so the one who hands it on has an edge to it
            t = b["term"]
            if t["k"] == "call":
                for a in t["args"]:
                    if a.get("c") == "const" and a.get("fn") in by_path:
                        edges.setdefault(fn.path, []).append((fn, bi, {"k": "fnitem", "line": t.get("line")}, a["fn"]))
    return edges


FN_CALLS = ("std::ops::FnOnce::call_once", "std::ops::FnMut::call_mut", "std::ops::Fn::call")


def _charging_wrapper(fn, bi, closure_path, by_path, resolve, summaries):
    """The closure created in block `bi` of `fn` is passed straight to a local function that (a) calls its closure
    parameter only at depth delta -1 past the depth != 0 test and (b) returns with the counter restored on every
    path.  Returns that function's path, or None."""
    local = None
    for s in fn.blocks[bi]["stmts"]:
        if s["k"] == "assign" and s["rv"]["k"] == "agg" and s["rv"].get("closure") == closure_path and not s["place"]["p"]:
            local = s["place"]["l"]
    if local is None:
        return None
    holders = {local}
    for b in fn.blocks:
        for s in b["stmts"]:
            if s["k"] == "assign" and not s["place"]["p"] and s["rv"]["k"] == "use" and s["rv"]["op"].get("c") in ("move", "copy") \
                    and not s["rv"]["op"]["pl"]["p"] and s["rv"]["op"]["pl"]["l"] in holders:
                holders.add(s["place"]["l"])
    uses = []
    for cb, t in fn.calls():
        if any(a.get("c") in ("move", "copy") and not a["pl"]["p"] and a["pl"]["l"] in holders for a in t["args"]):
            uses.append(t)
    if len(uses) != 1:
        return None
    w = resolve(uses[0])
    if w is None:
        return None
    wf = by_path[w]
    _e, pre, rets = flow(wf, summaries, resolve)
    zt = zero_tests(wf)
    idom = cfg.dominators(wf)
    calls = [(cb, t) for cb, t in wf.calls() if facts.callee_names(t) & set(FN_CALLS) and "resolved" not in t["callee"]]
    if not calls or any(d != 0 for (_v, d, _g) in rets):
        return None
    for cb, t in calls:
        els = pre.get(cb, set())
        dom_guard = any(cfg.dominates(idom, nz, cb) and nz != z for (_tb, (nz, z)) in zt.items())
        if not els or {e[0] for e in els} != {-1} or not all(e[1] or dom_guard for e in els):
            return None
    return w


def depth_effects(fn):
    """Per block: list of +1/-1/TOP effects of stores to remaining_depth (in order)."""
    defs = common.defs_of(fn)
    eff = {}
    for bi, b in enumerate(fn.blocks):
        for s in b["stmts"]:
            if s["k"] != "assign" or not is_depth_place(s["place"]):
                continue
            rv = s["rv"]
            k = TOP
            if rv["k"] == "use" and rv["op"].get("c") in ("move", "copy"):
                src = rv["op"]["pl"]
                if src["p"] and isinstance(src["p"][0], dict) and src["p"][0].get("f") == 0:
                    for (db, si, d) in defs.get(src["l"], []):
                        if isinstance(d, dict) and d.get("k") == "bin" and d["op"] in ("SubWithOverflow", "AddWithOverflow", "Sub", "Add"):
                            a, b2 = d["a"], d["b"]
                            if a.get("c") in ("copy", "move") and is_depth_place(a["pl"]) and common.const_int(b2) == 1:
                                k = -1 if d["op"].startswith("Sub") else 1
            elif rv["k"] == "bin" and rv["op"] in ("Sub", "Add", "SubUnchecked", "AddUnchecked"):
                a, b2 = rv["a"], rv["b"]
                if a.get("c") in ("copy", "move") and is_depth_place(a["pl"]) and common.const_int(b2) == 1:
                    k = -1 if rv["op"].startswith("Sub") else 1
            if STATE["up"] and k != TOP:
                k = -k
            eff.setdefault(bi, []).append((k, s.get("line")))
    return eff


def _stmt_effects(fn):
    """Per block: ordered list of ('d', k) depth effects and ('f', ...) variant-fact updates."""
    eff = depth_effects(fn)
    return eff


MAX_ELEMS = 96


def flow(fn, summaries=None, resolve=None):
    """Forward analysis of the depth counter, path-sensitive in the variant of Result/Option locals.

    An element is (delta, guarded, facts): the change of remaining_depth since entry, whether a
    `remaining_depth == 0` test was passed on its non-zero edge since the last decrement, and the known variants
    of locals (set by aggregate assignments, by calls of summarised helpers and carried through `?`).
    `summaries`: callee path -> list of (variant or None, delta, guarded) outcomes of local helpers that change the
    counter (e.g. `enter_nested() -> Result<()>`: Ok with -1 after the test, Err with 0).
    Returns (entry, pre_term, rets): states at block entry, before each terminator, and at return."""
    summaries = summaries or {}
    eff_by_stmt = {}
    defs = common.defs_of(fn)
    for bi, b in enumerate(fn.blocks):
        for si, st in enumerate(b["stmts"]):
            if st["k"] == "assign" and is_depth_place(st["place"]):
                eff_by_stmt[(bi, si)] = _store_kind(fn, defs, st)
    zt = zero_tests(fn)
    entry = {0: {(0, False, frozenset())}}
    pre_term = {}
    work = [0]
    while work:
        b = work.pop()
        blk = fn.blocks[b]
        outs = set()
        for (delta, guarded, facts) in entry[b]:
            fd = dict(facts)
            for si, st in enumerate(blk["stmts"]):
                if st["k"] != "assign":
                    continue
                if (b, si) in eff_by_stmt:
                    k = eff_by_stmt[(b, si)]
                    if k == TOP or delta == TOP:
                        delta = TOP
                    else:
                        delta += k
                        if k == 1:
                            guarded = False      # leaving a level: the next decrement needs its own test
                        if abs(delta) > 4:
                            delta = TOP
                    continue
                pl = st["place"]
                if pl["p"]:
                    continue
                l = pl["l"]
                rv = st["rv"]
                fd.pop(l, None)
                fd.pop(("d", l), None)
                if rv["k"] == "agg" and "adt" in rv and rv["adt"] in ("std::result::Result", "std::option::Option",
                                                                      "std::ops::ControlFlow"):
                    fd[l] = rv["variant"]
                elif rv["k"] == "use" and rv["op"].get("c") in ("copy", "move") and not rv["op"]["pl"]["p"]:
                    m = rv["op"]["pl"]["l"]
                    if m in fd:
                        fd[l] = fd[m]
                elif rv["k"] == "discr" and not rv["pl"]["p"] and rv["pl"]["l"] in fd:
                    fd[("d", l)] = fd[rv["pl"]["l"]]
            outs.add((delta, guarded, frozenset(fd.items())))
        if len(outs) > MAX_ELEMS:
            outs = {(TOP, False, frozenset())}
        pre_term.setdefault(b, set()).update(outs)
        t = blk["term"]
        nxt = {}    # succ -> set of elements

        def push(sb, el):
            if sb is None or fn.is_cleanup(sb):
                return
            nxt.setdefault(sb, set()).add(el)

        for (delta, guarded, facts) in outs:
            fd = dict(facts)
            if t["k"] == "call":
                dst = t["dest"]["l"] if not t["dest"]["p"] else None
                if dst is not None:
                    fd.pop(dst, None)
                    fd.pop(("d", dst), None)
                names = facts_mod.callee_names(t)
                tgt = resolve(t) if resolve else None
                if tgt in summaries:
                    for (v, d, g) in summaries[tgt]:
                        fd2 = dict(fd)
                        if dst is not None and v is not None:
                            fd2[dst] = v
                        nd = TOP if (delta == TOP or d == TOP) else delta + d
                        ng = False if (d != TOP and d > 0) else (guarded or g)
                        push(t.get("t"), (nd, ng, frozenset(fd2.items())))
                    continue
                if "std::ops::Try::branch" in names and t["args"] and dst is not None:
                    a = t["args"][0]
                    if a.get("c") in ("copy", "move") and not a["pl"]["p"] and a["pl"]["l"] in fd:
                        v = fd[a["pl"]["l"]]
                        aty = (t.get("arg_tys") or [""])[0]
                        if aty.startswith("std::result::Result"):
                            fd[dst] = v            # Ok(0) -> Continue(0), Err(1) -> Break(1)
                        elif aty.startswith("std::option::Option"):
                            fd[dst] = 1 - v        # Some(1) -> Continue(0), None(0) -> Break(1)
                elif "std::ops::FromResidual::from_residual" in names and dst is not None:
                    rty = fn.local_ty(dst)
                    if rty.startswith("std::result::Result"):
                        fd[dst] = 1
                    elif rty.startswith("std::option::Option"):
                        fd[dst] = 0
                push(t.get("t"), (delta, guarded, frozenset(fd.items())))
            elif t["k"] == "switch":
                op = t["op"]
                known = None
                if op.get("c") in ("copy", "move") and not op["pl"]["p"]:
                    known = fd.get(("d", op["pl"]["l"]))
                if known is not None:
                    tg = t["otherwise"]
                    for v, x in t["targets"]:
                        if v == known:
                            tg = x
                    push(tg, (delta, guarded, facts))
                elif b in zt:
                    nz, z = zt[b]
                    for sb in set(fn.succs(b)):
                        push(sb, (delta, True if (sb == nz and sb != z) else guarded, facts))
                else:
                    for sb in set(fn.succs(b)):
                        push(sb, (delta, guarded, facts))
            else:
                for sb in set(fn.succs(b)):
                    push(sb, (delta, guarded, facts))
        for sb, els in nxt.items():
            cur = entry.get(sb, set())
            new = cur | els
            if len(new) > MAX_ELEMS:
                new = {(TOP, False, frozenset())}
            if new != cur:
                entry[sb] = new
                work.append(sb)
    rets = set()
    for bi, blk in enumerate(fn.blocks):
        if blk["term"]["k"] == "return" and bi in pre_term and not fn.is_cleanup(bi):
            for (delta, guarded, facts) in pre_term[bi]:
                rets.add((dict(facts).get(0), delta, guarded))
    return entry, pre_term, rets


def _store_kind(fn, defs, s):
    rv = s["rv"]
    k = TOP
    if rv["k"] == "use" and rv["op"].get("c") in ("move", "copy"):
        src = rv["op"]["pl"]
        if src["p"] and isinstance(src["p"][0], dict) and src["p"][0].get("f") == 0:
            for (db, si, d) in defs.get(src["l"], []):
                if isinstance(d, dict) and d.get("k") == "bin" and d["op"] in ("SubWithOverflow", "AddWithOverflow", "Sub", "Add"):
                    a, b2 = d["a"], d["b"]
                    if a.get("c") in ("copy", "move") and is_depth_place(a["pl"]) and common.const_int(b2) == 1:
                        k = -1 if d["op"].startswith("Sub") else 1
    elif rv["k"] == "bin" and rv["op"] in ("Sub", "Add", "SubUnchecked", "AddUnchecked"):
        a, b2 = rv["a"], rv["b"]
        if a.get("c") in ("copy", "move") and is_depth_place(a["pl"]) and common.const_int(b2) == 1:
            k = -1 if rv["op"].startswith("Sub") else 1
    if STATE["up"] and k != TOP:
        k = -k
    return k


def delta_dataflow(fn, summaries=None, resolve=None):
    """Compatibility view of flow(): sets of deltas at block entry / before the terminator."""
    entry, pre, _ = flow(fn, summaries, resolve)
    eff = depth_effects(fn)
    return ({b: frozenset(e[0] for e in v) for b, v in entry.items()},
            {b: frozenset(e[0] for e in v) for b, v in pre.items()}, eff)


def zero_tests(fn):
    """Blocks that branch on `remaining_depth == 0`; returns {block: (nonzero_succ, zero_succ)}."""
    out = {}
    for bi, b in enumerate(fn.blocks):
        t = b["term"]
        if t["k"] != "switch":
            continue
        op = t["op"]
        if op.get("c") not in ("copy", "move"):
            continue
        # direct switch on the field
        if is_depth_place(op["pl"]):
            z = None
            for v, tg in t["targets"]:
                if v == 0:
                    z = tg
            if z is not None:
                out[bi] = (t["otherwise"], z)
            continue
        if op["pl"]["p"]:
            continue
        l = op["pl"]["l"]
        # find the defining compare in this block
        cmpd = None
        copies = {}
        for s in b["stmts"]:
            if s["k"] != "assign" or s["place"]["p"]:
                continue
            rv = s["rv"]
            if rv["k"] == "use" and rv["op"].get("c") in ("copy", "move") and is_depth_place(rv["op"]["pl"]):
                copies[s["place"]["l"]] = True
            if s["place"]["l"] == l and rv["k"] == "bin":
                cmpd = rv
        if cmpd is None:
            continue

        def is_depth(o):
            if o.get("c") not in ("copy", "move"):
                return False
            return is_depth_place(o["pl"]) or (not o["pl"]["p"] and o["pl"]["l"] in copies)

        a, b2, opn = cmpd["a"], cmpd["b"], cmpd["op"]
        zero_when = None  # value of the bool when depth == 0, and when depth >= 1
        # any comparison of the counter with a small constant that is true (or false) exactly for an exhausted
        # budget: evaluate it at counter = 0 and at counter = 200 (far from the boundary)
        def ev(op, x, y):
            return {"Eq": x == y, "Ne": x != y, "Lt": x < y, "Le": x <= y, "Gt": x > y, "Ge": x >= y}.get(op)
        ka, kb = common.const_int(a), common.const_int(b2)
        if STATE["up"]:
            # `depth == LIMIT` (or `>=`): true for an exhausted budget, false far below the limit
            lim, side = (kb, "a") if (is_depth(a) and kb is not None) else ((ka, "b") if (is_depth(b2) and ka is not None) else (None, None))
            if lim is not None and 2 < lim <= 255:
                z = ev(opn, lim, lim) if side == "a" else ev(opn, lim, lim)
                big = ev(opn, 0, lim) if side == "a" else ev(opn, lim, 0)
                if z is not None and big is not None and z != big:
                    zero_when = (int(z), int(big))
                    STATE["limits"].add(lim)
        elif is_depth(a) and kb is not None and 0 <= kb <= 2 and ev(opn, 0, kb) is not None:
            z, big = ev(opn, 0, kb), ev(opn, 200, kb)
            if z != big:
                zero_when = (int(z), int(big))
        elif is_depth(b2) and ka is not None and 0 <= ka <= 2 and ev(opn, ka, 0) is not None:
            z, big = ev(opn, ka, 0), ev(opn, ka, 200)
            if z != big:
                zero_when = (int(z), int(big))
        if zero_when is None:
            continue

        def target_for(v):
            for val, tg in t["targets"]:
                if val == v:
                    return tg
            return t["otherwise"]

        out[bi] = (target_for(zero_when[1]), target_for(zero_when[0]))
    return out


def evaluate_budget(crate, comp):
    """Second opinion by abstract evaluation, for shapes the counter dataflow does not follow (the counter behind a
    newtype with `descend() -> bool` / `ascend()`, closure-taking wrappers, ...).  Every function of the recursive
    component is evaluated over all of its abstract paths with the counter field holding a concrete budget K = 5 and
    again with K = 1 (exhausted at the next level); calls into the component are not followed but recorded with the
    counter's value at that moment.  Returns ({(caller, callee): set of deltas at K=5}, {(caller, callee)} reached at
    K=1, {fn: set of counter deltas at return}, set of functions that could not be evaluated)."""
    from . import lex, sim
    from .sim import Opq
    cs = set(comp)
    light = lex.light_fns(crate)
    hi = lex.helper_inline(crate)
    fns = [crate.fn(p) for p in comp if crate.fn(p) is not None]
    tys = {}
    a = crate.adts.get("parse::Parser")
    depth_ty = None
    if a:
        for fl in a["variants"][0]["fields"]:
            if fl["name"] == FIELD:
                depth_ty = fl["ty"]

    scalar = depth_ty is None or depth_ty in lex.SCALARS

    def inl(x, b):
        if b.path in cs and b.kind != "closure":
            return False
        if b.kind == "closure":
            return b.owner in cs or b.owner in light
        return hi(x, b) or (depth_ty is not None and (b.self_ty or "") == depth_ty and b.crate == crate.name)

    def counter(path, k):
        for key, v in path.heap.items():
            if isinstance(key, Opq) and FIELD in key.path:
                return v
        return k

    deltas, at_one, rets, failed = {}, set(), {}, set()
    for f in fns:
        if f.kind == "closure":
            continue
        for k in (5, 1):
            seen = []

            def opaque(o, k=k):
                # the counter itself: the field, or the integer inside a newtype it is wrapped in
                if o.path and FIELD in o.path and (o.path[-1] == FIELD) == scalar:
                    return k
                return None

            def hook(S, fn, bb, t, args, path, k=k, seen=seen, root=f.path):
                c = t["callee"]
                tgt = c.get("resolved") or c.get("path") or ""
                if tgt in cs and c.get("resolved_crate", c.get("crate")) == crate.name:
                    seen.append((fn.path, tgt, counter(path, k)))
                    if fn.path != root:
                        seen.append((root, tgt, counter(path, k)))      # reached from `root` through looked-through helpers
                    return ("value", sim.UNK)
                return None

            S = sim.Sim([crate], hooks={"call": hook, "opaque": opaque}, inline=inl, max_paths=20000, max_depth=6, max_visits=2)
            try:
                paths = S.run(f)
            except sim.Limit:
                failed.add(f.path)
                continue
            for (src, tgt, v) in seen:
                if k == 5:
                    deltas.setdefault((src, tgt), set()).add(v - 5 if isinstance(v, int) else "?")
                else:
                    at_one.add((src, tgt))
            if k == 5:
                for p in paths:
                    if p.end == "return":
                        v = counter(p, 5)
                        rets.setdefault(f.path, set()).add(v - 5 if isinstance(v, int) else "?")
    return deltas, at_one, rets, failed


def _counts_up(crate):
    """Every construction of a Parser sets the counter to the constant 0: it counts the depth up."""
    a = crate.adts.get("parse::Parser")
    if not a:
        return False
    names = [f["name"] for f in a["variants"][0]["fields"]]
    if FIELD not in names:
        return False
    i = names.index(FIELD)
    vals = []
    for fn in crate.fns:
        for b in fn.blocks:
            for st in b["stmts"]:
                if st["k"] == "assign" and st["rv"]["k"] == "agg" and st["rv"].get("adt") == "parse::Parser":
                    op = st["rv"]["fields"][i]
                    v = common.const_int(op)
                    if v is None and op.get("c") == "const" and "newtype_int" in op:
                        v = int(op["newtype_int"])
                    vals.append(v)
    return bool(vals) and all(v == 0 for v in vals)


def check_depth(ctx, crate, r_cycle, r_bal):
    STATE["up"] = _counts_up(crate)
    STATE["limits"] = set()
    if STATE["up"]:
        r_cycle.note("the counter starts at 0 on this tree: it is read as a depth counted up to a limit constant")
    edges = local_call_graph(crate)
    owners = sorted({f.path for f in crate.fns})
    succ = lambda o: sorted({e[3] for e in edges.get(o, [])})
    comps = [c for c in cfg.sccs(owners, succ) if len(c) > 1 or c[0] in succ(c[0])]
    parser_comps = []
    for comp in comps:
        fns = [crate.fn(p) for p in comp if crate.fn(p) is not None]
        if any((f.self_ty or "").startswith("parse::Parser<") or f.file.endswith("parse/mod.rs") or
               f.file.endswith("parse/read.rs") for f in fns):
            parser_comps.append(sorted(comp))
    r_cycle.note("recursive SCCs in lexpr's call graph: %d; in the parser: %s" % (len(comps), parser_comps))
    if not parser_comps:
        r_cycle.anchor_missing("no recursive strongly connected component found in the parser's call graph "
                               "(expected the value/datum/list/vector parsing cycle)")
        return
    n_fns = sum(len(c) for c in parser_comps)
    r_cycle.floor("scc-functions", n_fns)
    in_scc = {p for c in parser_comps for p in c}
    by_path = {}
    for f in crate.fns:
        by_path.setdefault(f.path, f)

    def resolve(t):
        c = t["callee"]
        tgt = c.get("resolved") if c.get("resolved_crate") == crate.name else None
        if tgt is None and c.get("crate") == crate.name and "trait" not in c:
            tgt = c.get("path")
        return tgt if tgt in by_path else None

    # summaries of local helpers outside the recursive cycle that change the counter (enter/leave style helpers)
    summaries = {}
    state = {}

    def summarise(path):
        if path in state:
            return
        state[path] = "busy"
        f = by_path[path]
        for _bi, t in f.calls():
            tg = resolve(t)
            if tg and tg not in in_scc and state.get(tg) != "busy":
                summarise(tg)
        _e, _p, rets = flow(f, summaries, resolve)
        state[path] = "done"
        if any(d != 0 for (_v, d, _g) in rets):
            summaries[path] = sorted(rets, key=repr)
        elif rets and len({v for (v, _d, _g) in rets}) == 1 and next(iter(rets))[0] is not None \
                and f.local_ty(0).startswith(("std::result::Result", "std::option::Option")):
            # a helper that always answers with the same variant (`fn peek_fail<T>(..) -> Result<T>`, always Err) and
            # leaves the counter alone: its callers' paths are told which variant they hold
            summaries[path] = sorted(rets, key=repr)

    for f in crate.fns:
        if f.path not in in_scc and (f.file.endswith("parse/mod.rs") or f.file.endswith("parse/read.rs")):
            summarise(f.path)
    for hp, outs in sorted(summaries.items()):
        r_cycle.note("helper %s changes the counter: outcomes (result variant, delta, tested) = %s" % (hp, outs))

    budget_cache = {}

    def budget(comp):
        k = tuple(comp)
        if k not in budget_cache:
            try:
                budget_cache[k] = evaluate_budget(crate, comp)
            except Exception as e:      # the second opinion never decides alone against the tree
                r_cycle.note("abstract evaluation of the depth budget failed: %r" % (e,))
                budget_cache[k] = ({}, set(), {}, set(comp))
        return budget_cache[k]

    for comp in parser_comps:
        cs = set(comp)
        uncharged = {}   # owner -> set(callee owner) for uncharged intra-SCC edges
        charged_n = 0
        for o in comp:
            for (fn, bi, t, callee_owner) in edges.get(o, []):
                if callee_owner not in cs:
                    continue
                _entry, pre, _rets = flow(fn, summaries, resolve)
                zt = zero_tests(fn)
                idom = cfg.dominators(fn)
                els = pre.get(bi, set())
                delta = frozenset(e[0] for e in els)
                dom_guard = any(cfg.dominates(idom, nz, bi) and nz != z for (_tb, (nz, z)) in zt.items())
                guarded = bool(els) and all(e[1] or dom_guard for e in els)
                if t.get("k") == "closure" and not (delta == frozenset([-1]) and guarded):
                    # a closure handed to a charging wrapper (`self.nested(|p| p.parse_list(..))`): the wrapper takes the
                    # level, runs the closure, gives the level back
                    w = _charging_wrapper(fn, bi, callee_owner, by_path, resolve, summaries)
                    if w is not None:
                        charged_n += 1
                        r_cycle.ok("%s -> %s is charged: the closure only runs inside %s, which calls it one level down "
                                   "(after the depth != 0 test) and restores the level" % (o, callee_owner, w), fn, t.get("line"))
                        continue
                if delta == frozenset([-1]) and guarded:
                    charged_n += 1
                    r_cycle.ok("%s -> %s is charged (depth delta -1, dominated by the depth != 0 edge)" % (o, callee_owner),
                               fn, t.get("line"))
                elif t.get("k") != "closure" and budget(comp)[0].get((o.split("::{closure", 1)[0] if t.get("k") == "fnitem" else o, callee_owner)) == {-1} \
                        and (o, callee_owner) not in budget(comp)[1] and o.split("::{closure", 1)[0] not in budget(comp)[3]:
                    # by evaluation: with a budget of 5 every abstract path reaches this call with 4 left, and with a
                    # budget of 1 no path reaches it
                    charged_n += 1
                    r_cycle.ok("%s -> %s is charged (evaluated: one level taken on every path, unreachable on an exhausted budget)"
                               % (o, callee_owner), fn, t.get("line"))
                else:
                    uncharged.setdefault(o, set()).add(callee_owner)
                    uncharged.setdefault((o, callee_owner), []).append((fn, bi, t, delta, guarded))
        # remaining graph must be acyclic
        g = lambda o: sorted(x for x in uncharged.get(o, set()) if isinstance(x, str))
        cyc = cfg.find_cycle(comp, g)
        seen = set()
        while cyc is not None:
            # report every uncharged call site on this cycle, then cut it and look for more
            for a, b in zip(cyc, cyc[1:]):
                for (fn, bi, t, delta, guarded) in uncharged.get((a, b), []):
                    key = (a, b)
                    if key in seen:
                        continue
                    seen.add(key)
                    r_cycle.violation(
                        a, "uncharged-recursion->%s" % b,
                        "recursion cycle %s is not charged to the depth limit: the call %s -> %s happens with "
                        "depth delta %s%s, so input nested through this construct recurses without bound"
                        % (" -> ".join(cyc), a, b, sorted(delta, key=str) if delta else "unreachable",
                           "" if guarded else " and is not guarded by a remaining_depth == 0 test"),
                        fn.loc(t.get("line")))
            a, b = cyc[0], cyc[1]
            uncharged[a].discard(b)
            cyc = cfg.find_cycle(comp, g)
        r_cycle.note("SCC %s: %d charged call sites" % (comp, charged_n))

    # ---------------- balance: every fn that touches the counter
    touched = 0
    for fn in crate.fns:
        st, out_state, eff = delta_dataflow(fn, summaries, resolve)
        calls_helper = any(resolve(t) in summaries and any(d != 0 for (_v, d, _g) in summaries[resolve(t)]) for _bi, t in fn.calls())
        if not eff and not calls_helper:
            continue
        if fn.path in summaries and not any(d != 0 for (_v, d, _g) in summaries[fn.path]):
            continue        # only tells its callers a result variant; it does not touch the counter
        if fn.path in summaries:
            # a helper that hands a changed counter to its caller: legitimate only as a private building block whose
            # callers are all analysed with its summary (they are: every local caller is)
            outs = summaries[fn.path]
            if fn.is_pub:
                r_bal.violation(fn.path, "public-helper-unbalanced",
                                "%s is public and returns with the depth counter changed (%s)" % (fn.path, outs), fn.loc())
            elif any(d == TOP or abs(d) > 1 for (_v, d, _g) in outs):
                r_bal.violation(fn.path, "untracked-store",
                                "%s changes remaining_depth by more than one step or in an untracked way (%s)" % (fn.path, outs), fn.loc())
            else:
                r_bal.ok("%s: helper with counter outcomes %s, accounted for at each call site" % (fn.path, outs), fn)
            continue
        touched += 1
        bad = False
        for bi, b in enumerate(fn.blocks):
            if bi not in st or fn.is_cleanup(bi):
                continue
            cur = out_state.get(bi, st[bi])
            if TOP in cur:
                r_bal.violation(fn.path, "untracked-store",
                                "%s stores to remaining_depth in a way that is not `+= 1` / `-= 1`" % fn.path,
                                fn.loc())
                bad = True
                break
            if any(x < -1 or x > 0 for x in cur):
                r_bal.violation(fn.path, "delta-out-of-range",
                                "%s: depth delta %s leaves [-1, 0] at block %d" % (fn.path, sorted(cur), bi),
                                fn.loc(b["term"].get("line")))
                bad = True
                break
            if b["term"]["k"] == "return" and cur != frozenset([0]):
                # locate the exits: backwards from `return` through blocks that carry a nonzero delta and
                # do not restore it
                lines = []
                back = [bi]
                seen_b = set()
                while back:
                    x = back.pop()
                    if x in seen_b:
                        continue
                    seen_b.add(x)
                    for pb in fn.pred_map()[x]:
                        if fn.is_cleanup(pb) or pb not in out_state:
                            continue
                        if any(k == 1 for (k, _l) in eff.get(pb, [])):
                            continue
                        if all(v == 0 for v in out_state[pb]):
                            continue
                        back.append(pb)
                for pb in seen_b:
                    if pb in st and 0 not in st[pb]:
                        tl = fn.blocks[pb]["term"]
                        if tl["k"] == "call" and tl.get("line", 0) > 1:
                            lines.append(tl["line"])
                lines = sorted(set(l for l in lines if l))
                r_bal.violation(fn.path, "unbalanced-return",
                                "%s can return with the depth counter changed by %s (exit paths at line(s) %s do not "
                                "restore it): the limit is not restored on that exit, so repeated calls on one parser "
                                "drift towards 0 and the next `-= 1` underflows" % (fn.path, sorted(cur), lines),
                                fn.loc(lines[0] if lines else None))
                bad = True
                break
        if bad:
            continue
        # paths returning from inside: check each predecessor of the return block separately
        rets = [bi for bi, b in enumerate(fn.blocks) if b["term"]["k"] == "return" and bi in st]
        unbalanced = []
        for rb in rets:
            for p in fn.pred_map()[rb]:
                if p in out_state and out_state[p] != frozenset([0]) and not fn.is_cleanup(p):
                    unbalanced.append((p, out_state[p]))
        if unbalanced:
            p, d = unbalanced[0]
            r_bal.violation(fn.path, "unbalanced-return",
                            "%s reaches `return` (via block %d, line %s) with the depth counter changed by %s: "
                            "the limit is not restored on that exit" % (fn.path, p, fn.blocks[p]["term"].get("line"), sorted(d)),
                            fn.loc(fn.blocks[p]["term"].get("line")))
        else:
            r_bal.ok("%s: every return is reached with depth delta 0; delta stays within [-1,0]" % fn.path, fn)
    if touched == 0:
        # the counter is not stepped by `+= 1` / `-= 1` on the field in the parser's own functions (it lives behind a
        # type of its own): balance by evaluation - every function of the recursive component returns, on every abstract
        # path, with the budget it was entered with
        for comp in parser_comps:
            _d, _one, rets, failed = budget(comp)
            for fp in comp:
                f = by_path.get(fp)
                if f is None or f.kind == "closure":
                    continue
                got = rets.get(fp)
                if fp in failed or not got:
                    r_bal.violation(fp, "inexact", "the depth budget of %s could not be evaluated" % fp, f.loc())
                elif got == {0}:
                    touched += 1
                    r_bal.ok("%s: every return is reached with the depth budget it was entered with (evaluated)" % fp, f)
                else:
                    r_bal.violation(fp, "unbalanced-return",
                                    "%s can return with the depth budget changed by %s: the limit is not restored on that "
                                    "exit, so repeated calls on one parser drift towards 0" % (fp, sorted(map(str, got))), f.loc())
    r_bal.floor("functions-touching-counter", touched)

    # ---------------- the limit constant at construction
    n_ctor = 0
    for fn in crate.fns:
        for b in fn.blocks:
            for s in b["stmts"]:
                if s["k"] == "assign" and s["rv"]["k"] == "agg" and s["rv"].get("adt") == "parse::Parser":
                    n_ctor += 1
                    names = [f["name"] for f in crate.adts["parse::Parser"]["variants"][0]["fields"]]
                    i = names.index(FIELD)
                    v = common.const_int(s["rv"]["fields"][i])
                    if v is None and s["rv"]["fields"][i].get("c") == "const" and "newtype_int" in s["rv"]["fields"][i]:
                        v = int(s["rv"]["fields"][i]["newtype_int"])       # the counter wrapped in a newtype
                    if STATE["up"] and v == 0:
                        lims = sorted(STATE["limits"])
                        if lims and min(lims) >= 101:
                            r_bal.ok("%s: Parser constructed at depth 0; the limit tested is %s (>= 101)" % (fn.path, lims), fn, s.get("line"))
                        else:
                            r_bal.violation(fn.path, "limit-constant",
                                            "%s constructs a Parser at depth 0, but the limit the depth is compared with is %s; "
                                            "the documented behaviour requires at least 100 levels" % (fn.path, lims or "not a constant"),
                                            fn.loc(s.get("line")))
                        continue
                    if v is None or v < 101 or v > 255:
                        r_bal.violation(fn.path, "limit-constant",
                                        "%s constructs a Parser with remaining_depth %r; the documented behaviour "
                                        "requires a constant >= 101 (at least 100 levels accepted)" % (fn.path, v), fn.loc(s.get("line")))
                    else:
                        r_bal.ok("%s: Parser constructed with remaining_depth = %d (>= 101)" % (fn.path, v), fn, s.get("line"))
    r_bal.floor("constructors", n_ctor)
