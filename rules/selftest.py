"""E5: positive controls - the generic detectors must fire on /verif/fixtures.

Called from the thorough tier of the properties that rely on a detector.  A detector that
stays silent on its seeded violation means the machinery is broken (MachineryError -> exit 2);
a rule that matches nothing would otherwise pass forever.
"""
from . import arith, build, cfg, common, facts as F, panics
from .report import Rule


class _Sink:
    """Collects what a detector reports without touching the real check context."""

    def __init__(self):
        self.violations = []
        self.oks = []
        self.prop = "SELFTEST"
        self.floors = {}
        self.measured = {}
        self.calibrating = True

    def _violation(self, rule, key, message, at):
        self.violations.append(key)


def _rule(sink, rid):
    r = Rule(sink, rid, "selftest")
    return r


def fixtures(ctx):
    db = ctx.facts(["fixtures"])
    c = db.crate("fixtures", "fx")
    if c is None:
        raise build.MachineryError("fixtures facts missing")
    return c


def check_write(ctx, rule):
    c = fixtures(ctx)
    hits = []
    for fn, bi, t in common.iter_calls(c):
        cal = t["callee"]
        if cal.get("trait") == "std::io::Write" and cal.get("method") == "write":
            hits.append(fn.path)
    if "fx_write_count_dropped" not in hits:
        raise build.MachineryError("positive control failed: io::Write::write call in fixtures::fx_write_count_dropped not seen")
    rule.ok("positive control: detector sees io::Write::write in fixtures::fx_write_count_dropped")


def check_errdrop(ctx, rule):
    c = fixtures(ctx)
    sink = _Sink()
    r = _rule(sink, "R-ERRDROP")
    common.errdrop_scan(r, c, lambda f: True, ("std::io::Error",), {}, "fixture")
    want = {"fx_error_dropped", "fx_error_discarded", "fx_error_swallowed"}
    got = {k.split(" | ")[1] for k in sink.violations}
    if not want <= got:
        raise build.MachineryError("positive control failed: error-drop detector missed %s" % sorted(want - got))
    rule.ok("positive control: error-drop detector fires on %s" % sorted(want))


def check_unchecked(ctx, rule):
    c = fixtures(ctx)
    seen = any(t["callee"].get("path", "").endswith("from_utf8_unchecked") for fn, bi, t in common.iter_calls(c)
               if fn.path == "fx_unchecked")
    if not seen:
        raise build.MachineryError("positive control failed: from_utf8_unchecked in fixtures::fx_unchecked not seen")
    rule.ok("positive control: unchecked-conversion detector sees fixtures::fx_unchecked")


def check_panics(ctx, rule):
    c = fixtures(ctx)
    f = c.fn("fx_panics")
    g = c.fn("fx_guarded_index")
    if f is None or g is None:
        raise build.MachineryError("fixtures::fx_panics / fx_guarded_index missing")
    kinds = {(i["kind"]) for i in panics.inventory(f)}
    need = {"unwrap", "bounds", "panic", "div"}
    if not need <= kinds:
        raise build.MachineryError("positive control failed: panic inventory of fx_panics is %s, expected %s" % (sorted(kinds), sorted(need)))
    # the unguarded index must NOT be discharged, the guarded one must be
    for it in panics.inventory(f):
        if it["kind"] == "bounds" and panics.bounds_discharged(f, it)[0]:
            raise build.MachineryError("negative control failed: unguarded v[i] in fx_panics was discharged")
    gb = [it for it in panics.inventory(g) if it["kind"] == "bounds"]
    if not gb or not all(panics.bounds_discharged(g, it)[0] for it in gb):
        raise build.MachineryError("control failed: guarded v[i] in fx_guarded_index was not discharged")
    rule.ok("positive control: panic inventory sees unwrap/index/unreachable!/division in fixtures::fx_panics; "
            "`if i < v.len() { v[i] }` is discharged, the unguarded index is not")


def check_arith(ctx, rule):
    c = fixtures(ctx)
    f = c.fn("fx_overflow")
    inv = [i for i in panics.inventory(f) if i["kind"] == "overflow"] if f else []
    if not inv:
        raise build.MachineryError("positive control failed: no overflow assert seen in fixtures::fx_overflow")
    defs = common.defs_of(f)
    idom = cfg.dominators(f)
    if any(arith.discharge(f, it, defs, idom) for it in inv):
        raise build.MachineryError("negative control failed: unguarded a + b was discharged")
    rule.ok("positive control: arithmetic audit sees the unguarded u8 addition in fixtures::fx_overflow")
