"""R-DISCARD-AFTER-PEEK: typestate of the reader's lookahead.

`Read::discard` ("only valid after a call to peek()") advances SliceRead's index
unconditionally; at the end of input that pushes the index past the slice and the next
position()/error() panics on `slice[..index]`.  The parser must therefore discard only when the
most recent reader operation was a peek that returned a byte.

Abstract reader states along a path:  some  (a byte is peeked and not yet consumed)
                                       none  (the last peek reported end of input)
                                       unknown (after next(), a discard, or any call that may read)
                                       entry (nothing happened yet in this function)
A function whose first reader-relevant action on some path is a discard (or a call to such a
function) *requires* `some` from its callers; that set is computed as a fixpoint and every call
site of such a function is checked like a discard.
"""
from . import common, facts as F, lex, sim
from .sim import Adt, UNK

PEEKS = ("parse::read::Read::peek", lex.SLICE_PEEK, "parse::Parser::<R>::parse_whitespace")
NEXTS = ("parse::read::Read::next",)
DISCARDS = ("parse::read::Read::discard",)
INLINE = {"parse::Parser::<R>::peek", "parse::Parser::<R>::peek_or_null", "parse::Parser::<R>::next_char",
          "parse::Parser::<R>::next_char_or_null", "parse::Parser::<R>::eat_char", "parse::read::next_or_eof",
          "parse::read::next_or_eof_char", "parse::is_delimiter", "parse::is_sign_subsequent", "parse::read::is_delimiter"}


def _state(path):
    for e in reversed(path.events):
        if e[0] == "rstate":
            return e[1]
    return "entry"


def analyse(crate, fn, requires, summaries=None):
    """Returns (violations, needs_some_at_entry, summary). violations: list of (kind, state, line, callee);
    summary: {result variant ('ok' / 'err' / 'any'): set of reader states at return}."""
    viol = []
    needs = [False]
    summaries = summaries or {}

    def hook(S, f, bb, t, args, path):
        nm = F.callee_names(t)
        st = _state(path)
        if any(n in nm for n in DISCARDS):
            if st == "entry":
                needs[0] = True
            elif st != "some":
                viol.append(("discard", st, t.get("line"), "Read::discard", f.path))
            path.events.append(("rstate", "unknown"))
            return ("skip", sim.Tup([]))
        if any(n in nm for n in PEEKS):
            vals = []
            opt_some, opt_none = lex.some(UNK), lex.none()
            wrap = (lambda o: o) if lex.SLICE_PEEK in nm else lex.ok
            # fork: a byte is available / end of input
            if "peek-some" not in path.__dict__:
                pass
            return ("fork2", [(wrap(opt_some), "some"), (wrap(opt_none), "none")])
        if any(n in nm for n in NEXTS):
            return ("fork2", [(lex.ok(lex.some(UNK)), "unknown"), (lex.ok(lex.none()), "unknown")])
        c = t["callee"]
        tgt = c.get("resolved") or c.get("path") or ""
        if tgt in requires and tgt not in INLINE:
            if st == "entry":
                needs[0] = True
            elif st != "some":
                viol.append(("call", st, t.get("line"), tgt, f.path))
        # any other local routine that receives the reader / parser mutably may move it
        takes_mut = any(ty.startswith("&mut ") for ty in t.get("arg_tys", []))
        if (tgt.startswith("parse::Parser::<R>::") or tgt.startswith("parse::read::")) and tgt not in INLINE \
                and c.get("resolved_crate", c.get("crate")) == crate.name and takes_mut:
            sm = summaries.get(tgt)
            dty = fn.local_ty(t["dest"]["l"]) if not t["dest"]["p"] else ""
            if sm and dty.startswith("std::result::Result"):
                # a helper with a known effect on the lookahead, per result variant (e.g. `peek_list_item()`: Ok leaves
                # a byte peeked)
                def one(states):
                    return next(iter(states)) if len(states) == 1 else "unknown"
                outs = []
                if any(k.startswith("ok:") for k in sm) and "ok" not in sm:
                    # `peek_digit() -> Result<Option<u8>>`: Ok(Some(_)) leaves the byte it looked at peeked, Ok(None) may
                    # also mean the end of input
                    if "ok:some" in sm:
                        outs.append((Adt("std::result::Result", 0, [lex.some(UNK)]), one(sm["ok:some"])))
                    if "ok:none" in sm:
                        outs.append((Adt("std::result::Result", 0, [lex.none()]), one(sm["ok:none"])))
                else:
                    states = set().union(*[v for k, v in sm.items() if k == "ok" or k.startswith("ok:")]) or {"unknown"}
                    outs.append((Adt("std::result::Result", 0, [UNK]), one(states)))
                outs.append((Adt("std::result::Result", 1, [UNK]), one(sm.get("err", {"unknown"}))))
                return ("fork2", outs)
            path.events.append(("rstate", "unknown"))
        elif c.get("trait") == "parse::read::Read" and c.get("method") not in ("position", "peek_position", "byte_offset") \
                and takes_mut:
            path.events.append(("rstate", "unknown"))
        return None

    S = PeekSim([crate], hooks={"call": hook}, inline=lambda a, b: b.path in INLINE or (b.crate == crate.name and lex.scalar_fn(b)),
                max_paths=60000, max_depth=4)
    summary = {}
    for p in S.run(fn):
        if p.end != "return":
            continue
        st = _state(p)
        if st == "entry":
            st = "same"        # the function did not touch the reader on this path
        r = p.ret
        k = "any"
        if isinstance(r, Adt) and r.adt.endswith("Result"):
            k = "ok" if r.variant == 0 else "err"
            pay = r.fields[0] if r.variant == 0 and r.fields else None
            if isinstance(pay, Adt) and pay.adt.endswith("Option") and fn.local_ty(0).startswith("std::result::Result<std::option::Option<"):
                k = "ok:some" if pay.variant == 1 else "ok:none"
        summary.setdefault(k, set()).add(st)
    return viol, needs[0], summary


class PeekSim(sim.Sim):
    """Sim with a `fork2` hook result: list of (value, reader-state-tag)."""

    def __init__(self, crates, hooks=None, **kw):
        self.real_hook = (hooks or {}).get("call")
        self._pending = None
        h = dict(hooks or {})
        h["call"] = self._dispatch
        sim.Sim.__init__(self, crates, hooks=h, **kw)

    def _dispatch(self, S, fn, bb, t, args, path):
        # the answer was computed by _call just before delegating to Sim._call
        r = self._pending
        self._pending = None
        return r

    def _call(self, fn, env, bb, t, path, depth):
        args = [self.operand(env, a, path) for a in t["args"]]
        names = F.callee_names(t)
        r = self.real_hook(self, fn, bb, t, args, path) if self.real_hook else None
        if r is not None and r[0] == "fork2":
            nxt = t.get("t")
            outs = []
            alts = r[1]
            for i, (val, tag) in enumerate(alts):
                if i == len(alts) - 1:
                    e2, p2 = env, path
                else:
                    e2, p2 = self._clone(env, path)
                p2.events.append(("call", names, args, fn.path, bb, t.get("line"), args))
                p2.events.append(("rstate", tag))
                if nxt is None:
                    p2.end = "diverge"
                    outs.append((e2, p2, None))
                else:
                    self.write_place(e2, t["dest"], val, p2, fn, bb)
                    outs.append((e2, p2, nxt))
            return outs
        self._pending = r
        return sim.Sim._call(self, fn, env, bb, t, path, depth)


def check(rule, crate):
    fns = [f for f in crate.fns if f.kind != "closure" and common.in_file(f, "lexpr/src/parse/mod.rs", "lexpr/src/parse/read.rs")
           and not (f.self_ty or "").startswith("parse::read::SliceRead") and not (f.self_ty or "").startswith("parse::read::StrRead")
           and not (f.self_ty or "").startswith("parse::read::IoRead") and f.path not in INLINE]
    requires = set()
    results = {}
    summaries = {}
    light = lex.light_fns(crate)
    for _round in range(6):
        changed = False
        for f in fns:
            try:
                viol, needs, summ = analyse(crate, f, requires, summaries)
            except sim.Limit:
                results[f.path] = "inexact"
                continue
            results[f.path] = viol
            if needs and f.path not in requires:
                requires.add(f.path)
                changed = True
            # only loop-free helpers whose every Ok return leaves a byte peeked are summarised
            useful = summ.get("ok") == {"some"} or ("ok" not in summ and summ.get("ok:some") == {"some"})
            if f.path in light and useful and summaries.get(f.path) != summ:
                summaries[f.path] = summ
                changed = True
        if not changed:
            break
    n_sites = 0
    for f in fns:
        v = results.get(f.path)
        if v == "inexact":
            rule.violation(f.path, "inexact", "path limit while analysing the lookahead typestate of %s" % f.path, f.loc())
            continue
        seen = set()
        for (kind, st, line, callee, where) in v or []:
            key = (kind, st, callee)
            if key in seen:
                continue
            seen.add(key)
            what = "discards the lookahead byte" if kind == "discard" else "calls %s (which starts by discarding the lookahead byte)" % callee
            why = {"none": "after a peek that reported the end of input",
                   "unknown": "without a preceding peek that returned a byte (the reader was advanced in between)"}[st]
            rule.violation(f.path, "%s-at-%s:%s" % (kind, st, callee.rsplit("::", 1)[-1]),
                           "%s %s at line %s %s: on a slice this moves the index past the end of the input and the "
                           "next position()/error() panics" % (f.path, what, line, why), f.loc(line))
        if not v:
            rule.ok("%s: every discard follows a peek that returned a byte%s" % (
                f.path, " (requires a peeked byte from its callers)" if f.path in requires else ""), f)
        n_sites += 1
    rule.note("functions that require a peeked byte at entry: %s" % sorted(x.rsplit("::", 1)[-1] for x in requires))
    return n_sites
