"""Byte classes of the lexer, extracted from the MIR by A2 (shared by C01/C02/C06/C08/C12/C17)."""
from . import lex, sim
from .sim import Adt, UNK

IO_SYMBOL = "parse::read::IoRead::<R>::parse_symbol_bytes"
SLICE_SYMBOL = "parse::read::SliceRead::<'a>::parse_symbol_bytes"
DOM = list(range(256)) + [None]


class Inexact(Exception):
    pass


def predicate_class(crate, fn_path):
    """True-set of a local fn(u8) -> bool."""
    f = crate.fn(fn_path)
    if f is None:
        return None
    # byte predicates are looked through down to their tables: `is_delimiter(c)` may be `has_class(c, DELIMITER)`
    S = sim.Sim([crate], inline=lambda a, b: b.crate == crate.name and lex.scalar_fn(b))
    out = set()
    for b in range(256):
        rets = {repr(p.ret) for p in S.run(f, args={1: b}) if p.end == "return"}
        if rets == {"1"}:
            out.add(b)
        elif rets != {"0"}:
            raise Inexact("%s(%d) -> %s" % (fn_path, b, rets))
    return out


_TRAIT_FORM = {
    IO_SYMBOL: "<parse::read::IoRead<R> as parse::read::Read<'de>>::parse_symbol",
    SLICE_SYMBOL: "<parse::read::SliceRead<'a> as parse::read::Read<'a>>::parse_symbol",
}


def scanner_fn(crate, fn_path):
    """The scanning helper, or - when it has been inlined into it - the reader's trait method of that role."""
    g = crate.fn(fn_path)
    if g is None and fn_path in _TRAIT_FORM:
        g = crate.fn(_TRAIT_FORM[fn_path])
    return g


def scanner_classes(crate, fn_path):
    """For a scanning loop: (terminator bytes, continue bytes); None = EOF."""
    g = scanner_fn(crate, fn_path)
    if g is None:
        return None
    fn_path = g.path
    term, cont = set(), set()
    structural = (g.self_ty or "").startswith(lex.SLICE_READ) or lex.SLICE_READ + "::" in fn_path
    for d in DOM:
        outs = set()
        if structural:
            # the slice reader is a plain (bytes, index) pair: run the scanner on `d )` resp. on no input at all and
            # look at where the index ends up (any style of scanning loop, no reader model needed)
            try:
                _S, res = lex.slice_scan(crate, g, [d, 0x29] if d is not None else [])
            except sim.Limit:
                raise Inexact("%s: path limit on byte %s" % (fn_path, lex.fmt_bytes([d])))
            if res is None:
                raise Inexact("%s: SliceRead has an unexpected shape" % fn_path)
            for p, ix in res:
                if p.end == "panic":
                    outs.add("panic")
                elif ix is None:
                    outs.add("?")
                else:
                    outs.add("consume" if ix >= 1 else "stop")
        else:
            S = lex.make_sim([crate], d)
            for p in S.run(g):
                outs.add("consume" if lex.consumed(p) else "stop")
        if outs == {"consume"}:
            cont.add(d)
        elif outs == {"stop"}:
            term.add(d)
        else:
            raise Inexact("%s: byte %s has outcomes %s" % (fn_path, lex.fmt_bytes([d]), outs))
    return term, cont


def whitespace_classes(crate):
    """parse_whitespace: (trivia bytes skipped, comment starters, returned-to-caller bytes)."""
    f = crate.fn("parse::Parser::<R>::parse_whitespace")
    if f is None:
        return None
    skip, comment, ret = set(), set(), set()
    for d in DOM:
        S = lex.make_sim([crate], d)
        kinds = set()
        for p in S.run(f):
            if p.end == "return":
                kinds.add("return")
            elif p.end == "loop" and lex.consumed(p):
                kinds.add("skip")
            elif p.end == "stop:next-read":
                kinds.add("comment")
            else:
                kinds.add("?" + str(p.end))
        if kinds == {"return"}:
            ret.add(d)
        elif kinds == {"skip"}:
            skip.add(d)
        elif kinds == {"comment"}:
            comment.add(d)
        else:
            raise Inexact("parse_whitespace: byte %s has outcomes %s" % (lex.fmt_bytes([d]), kinds))
    return skip, comment, ret


def comment_end_classes(crate, starter):
    """Inside a comment (first read = starter): bytes that end it / continue it / EOF outcome."""
    f = crate.fn("parse::Parser::<R>::parse_whitespace")
    ends, goes, eof = set(), set(), None
    from . import cfg as _cfg
    loops = _cfg.natural_loops(f)
    if not loops:
        raise Inexact("parse_whitespace has no loop")
    outer = max(loops, key=lambda h: len(loops[h]))
    for d in DOM:
        # first read returns the comment starter, the second read the byte under test
        def extra(S, fn, bb, t, args, path, names, d=d):
            if lex.is_read_call(names):
                n = sum(1 for e in path.events if e[0] == "call" and lex.is_read_call(e[1]))
                if n == 0:
                    return ("value", lex.ok(lex.some(starter)))
                if n == 1:
                    return ("value", lex.ok(lex.some(d) if d is not None else lex.none()))
                return ("stop", "third-read")
            return None
        S = lex.make_sim([crate], d, extra=extra)
        kinds = set()
        for p in S.run(f):
            if p.end == "return":
                r = p.ret
                kinds.add("return-none" if isinstance(r, Adt) and r.variant == 0 and isinstance(r.fields[0], Adt)
                          and r.fields[0].variant == 0 else "return-other")
            elif p.end == "stop:third-read":
                # which loop are we in? the inner comment loop re-reads with `next`, the outer with `peek`
                last = [e for e in p.events if e[0] == "call" and lex.is_read_call(e[1])][-1]
                kinds.add("cont-comment" if lex.read_kind(last[1]) == "next" else "back-to-outer")
            elif p.end == "loop":
                hb = getattr(p, "loop_header", (None, None))[1]
                kinds.add("back-to-outer" if hb == outer else "cont-comment" if hb in loops else "loop?")
            else:
                kinds.add("?" + str(p.end))
        if d is None:
            eof = kinds
        elif kinds == {"back-to-outer"}:
            ends.add(d)
        elif kinds == {"cont-comment"}:
            goes.add(d)
        else:
            raise Inexact("comment body: byte %s has outcomes %s" % (lex.fmt_bytes([d]), kinds))
    return ends, goes, eof


def delimiter_classes(crate, note=None):
    """Token-end classes besides the symbol scanners': the two named delimiter predicates, where they exist as
    functions, and - independent of how the lexer spells the test - the set of bytes after which a number token
    is complete (parse_token evaluated on `1` followed by each byte value)."""
    out = {}
    for name, fp in (("parse::is_delimiter", "parse::is_delimiter"), ("read::is_delimiter", "parse::read::is_delimiter")):
        pc = predicate_class(crate, fp)
        if pc is None:
            if note:
                note("%s is not a function of its own any more; the number-end class below covers its role" % fp)
            continue
        out[(name, fp)] = pc
    pt = crate.fn("parse::Parser::<R>::parse_token")
    if pt is not None:
        ends = number_end_class(crate, pt)
        if ends is not None:
            out[("the end of a number token", pt.path)] = ends
    return out


def number_end_class(crate, pt):
    """Bytes (None = end of input) after which parse_token accepts a decimal literal as a complete number: the
    numeric routine's result is taken as given, every read after it delivers the byte under test."""
    from . import facts as F
    from .sim import Opq
    tm = lex.TokenModel(crate)
    ends = set()
    for d in DOM:
        def hook(S, fn, bb, t, args, path, d=d):
            nm = F.callee_names(t)
            if any(n.endswith("parse_num_literal") or n.endswith("parse_radix_literal") for n in nm):
                path.events.append(("number-parsed",))
                return ("skip", Adt("std::result::Result", 0, [Opq("number")]))
            if lex.is_read_call(nm):
                if any(e[0] == "number-parsed" for e in path.events):
                    return ("value", lex.ok(lex.some(d) if d is not None else lex.none()))
                return ("value", lex.ok(lex.some(0x31)))
            return None

        def opaque(o):
            if "options" in o.path and "leading_digit_symbols" in o.path:
                return 0
            return None

        S = sim.Sim([crate], hooks={"call": hook, "opaque": opaque}, inline=lex.helper_inline(crate),
                    max_paths=5000, max_depth=4)
        outs = set()
        try:
            for p in S.run(pt, args={2: 0x31}):
                if p.end != "return" or not any(e[0] == "number-parsed" for e in p.events):
                    continue
                rv = p.ret
                if isinstance(rv, Adt) and rv.variant == 0 and isinstance(rv.fields[0], Adt):
                    outs.add(tm.kind(rv.fields[0], S, p))
                elif isinstance(rv, Adt) and rv.variant == 1:
                    outs.add("Err")
                else:
                    outs.add("?")
        except sim.Limit:
            raise Inexact("parse_token: path limit while evaluating the end of a number before %s" % lex.fmt_bytes([d]))
        if outs == {"Number"}:
            ends.add(d)
        elif outs != {"Err"}:
            raise Inexact("parse_token: a decimal literal followed by %s gives %s" % (lex.fmt_bytes([d]), sorted(outs)))
    return ends
