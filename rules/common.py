"""Shared rule helpers."""
from . import facts

DISCARDING = {
    "std::result::Result::<T, E>::ok": "Result::ok",
    "std::result::Result::<T, E>::unwrap_or": "Result::unwrap_or",
    "std::result::Result::<T, E>::unwrap_or_default": "Result::unwrap_or_default",
    "std::result::Result::<T, E>::unwrap_or_else": "Result::unwrap_or_else",
    "std::result::Result::<T, E>::is_ok": "Result::is_ok",
    "std::result::Result::<T, E>::is_err": "Result::is_err",
    "std::result::Result::<T, E>::is_ok_and": "Result::is_ok_and",
    "std::result::Result::<T, E>::is_err_and": "Result::is_err_and",
    "std::result::Result::<T, E>::map_or": "Result::map_or",
    "std::result::Result::<T, E>::map_or_else": "Result::map_or_else",
    "std::result::Result::<T, E>::or": "Result::or",
    "std::result::Result::<T, E>::or_else": "Result::or_else",
    "std::result::Result::<T, E>::iter": "Result::iter",
    "std::result::Result::<T, E>::into_iter": "Result::into_iter",
    "std::iter::Iterator::flatten": "Iterator::flatten",
    "std::iter::Iterator::filter_map": "Iterator::filter_map",
    "std::mem::drop": "mem::drop",
    "std::mem::forget": "mem::forget",
}

ERR_MARKERS = ("parse::error::Error", "serde_lexpr::error::Error", "error::Error", "std::io::Error")


def ty_mentions_error(t, markers=ERR_MARKERS):
    return any(m in t for m in markers)


def in_file(fn, *suffixes):
    return any(fn.file.endswith(s) for s in suffixes)


def iter_calls(crate, pred=None):
    for fn in crate.fns:
        if pred and not pred(fn):
            continue
        for bi, t in fn.calls():
            yield fn, bi, t


def call_is(t, *names):
    ns = facts.callee_names(t)
    return any(n in ns for n in names)


def const_int(op):
    if op.get("c") == "const" and "int" in op:
        v = op["int"]
        return int(v) if isinstance(v, str) else v
    return None


def const_bytes(op):
    if op.get("c") == "const" and "bytes" in op:
        return op["bytes"]
    return None


def place_local(op):
    """Local index if the operand is a bare local (no projection)."""
    if op.get("c") in ("copy", "move") and not op["pl"]["p"]:
        return op["pl"]["l"]
    return None


def defs_of(fn):
    """Map local -> list of (block, stmt index or 'term', rvalue-or-call)."""
    out = {}
    for bi, b in enumerate(fn.blocks):
        for si, s in enumerate(b["stmts"]):
            if s["k"] == "assign" and not s["place"]["p"]:
                out.setdefault(s["place"]["l"], []).append((bi, si, s["rv"]))
        t = b["term"]
        if t["k"] == "call" and not t["dest"]["p"]:
            out.setdefault(t["dest"]["l"], []).append((bi, "term", t))
    return out


def _held_error(ty, markers):
    for m in sorted(markers, key=len, reverse=True):
        if m in ty:
            return m
    return ty


def _param_never_holds_error(crate, fn, t):
    """The dropped place is a by-value parameter of a private function, and at every call site in the crate the
    argument is a freshly built enum value of a variant without payload (`ErrorCode::EofWhileParsingString`): it is a
    code handed down for possible use and cannot carry an error that occurred."""
    pl = t.get("place") or {}
    l = pl.get("l")
    if pl.get("p") or l is None or not (1 <= l <= fn.arg_count) or fn.is_pub or fn.kind == "closure":
        return False
    sites = 0
    for g in crate.fns:
        for _bi, ct in g.calls():
            c = ct["callee"]
            if (c.get("resolved") or c.get("path")) != fn.path:
                continue
            if l - 1 >= len(ct["args"]):
                return False
            o = origin(g, defs_of(g), ct["args"][l - 1])
            if not (o["k"] == "agg" and not o["rv"].get("fields") and o["rv"].get("adt") and o["rv"].get("vname")):
                return False
            sites += 1
        # a function item passed as a value could be called with anything
        for b in g.blocks:
            for st in b["stmts"]:
                if st["k"] == "assign":
                    for op in [st["rv"].get("op"), st["rv"].get("a"), st["rv"].get("b")] + list(st["rv"].get("fields") or []):
                        if isinstance(op, dict) and op.get("c") == "const" and op.get("fn") == fn.path:
                            return False
            bt = b["term"]
            if bt["k"] == "call" and any(a.get("c") == "const" and a.get("fn") == fn.path for a in bt["args"]):
                return False
    return sites > 0


def _split_args(ty):
    """`A<B, C<D>>` -> ("A", ["B", "C<D>"])."""
    i = ty.find("<")
    if i < 0 or not ty.endswith(">"):
        return ty, []
    out, depth, cur = [], 0, ""
    for ch in ty[i + 1:-1]:
        if ch == "," and depth == 0:
            out.append(cur.strip())
            cur = ""
            continue
        depth += ch in "<(["
        depth -= ch in ">)]"
        cur += ch
    if cur.strip():
        out.append(cur.strip())
    return ty[:i], out


def _residual_ty(ty, known, prefix=()):
    """The type of what a value of type `ty` can still own, given the variants established for it and for the places
    below it (`known`: projection path -> variant name); Option and Result only, anything else is kept whole."""
    head, args = _split_args(ty)
    v = known.get(prefix)
    if head == "std::option::Option" and len(args) == 1:
        if v == "None":
            return ""
        if v == "Some":
            return _residual_ty(args[0], known, prefix + ("Some",))
    if head == "std::result::Result" and len(args) == 2:
        if v == "Ok":
            return _residual_ty(args[0], known, prefix + ("Ok",))
        if v == "Err":
            return _residual_ty(args[1], known, prefix + ("Err",))
    return ty


def _drop_cannot_hold_error(crate, fn, dblock, markers):
    """The drop (of a whole local, behind a drop flag) is reached only on paths on which the value is known - from the
    discriminant switches taken - to be in a variant without an error inside, or has been moved out (flag cleared).
    Paths are followed through the function with the drop flags and the established variants as state."""
    t = fn.blocks[dblock]["term"]
    pl = t.get("place") or {}
    if pl.get("p"):
        return False
    L = pl["l"]
    ty = t["ty"]
    flags = set()
    for b in fn.blocks:
        for st in b["stmts"]:
            if st["k"] == "assign" and not st["place"]["p"] and st["rv"]["k"] == "use" and \
                    st["rv"]["op"].get("c") == "const" and st["rv"]["op"].get("ty") == "bool":
                flags.add(st["place"]["l"])
    for b in fn.blocks:
        if b.get("cleanup"):
            continue
        for st in b["stmts"]:
            if st["k"] != "assign":
                continue
            if st["place"]["l"] == L and st["place"]["p"]:
                return False          # written through a projection: the variants established earlier may not hold
            if st["rv"]["k"] in ("ref", "raw", "rawptr") and st["rv"].get("mut") and (st["rv"].get("pl") or {}).get("l") == L:
                return False
    variants = {}

    def vname(adt, idx):
        if adt not in variants:
            if adt == "std::option::Option":
                variants[adt] = {0: "None", 1: "Some"}
            elif adt == "std::result::Result":
                variants[adt] = {0: "Ok", 1: "Err"}
            else:
                variants[adt] = {}
        return variants[adt].get(idx)

    def path_of(p):
        """projection below L -> tuple of variant names, or None when it is not a pure downcast/field-0 chain."""
        out = []
        i = 0
        while i < len(p):
            e = p[i]
            if isinstance(e, dict) and "d" in e and i + 1 < len(p) and isinstance(p[i + 1], dict) and p[i + 1].get("f") == 0:
                out.append(e["n"])
                i += 2
            else:
                return None
        return tuple(out)

    start = (0, frozenset(), frozenset())
    seen = {start}
    work = [start]
    n = 0
    while work:
        bi, fl, kn = work.pop()
        n += 1
        if n > 4000:
            return False
        b = fn.blocks[bi]
        if b.get("cleanup"):
            continue
        fl = dict(fl)
        kn = dict(kn)
        discr = {}
        for st in b["stmts"]:
            if st["k"] != "assign":
                continue
            if not st["place"]["p"] and st["place"]["l"] in flags and st["rv"]["k"] == "use" and st["rv"]["op"].get("c") == "const":
                fl[st["place"]["l"]] = st["rv"]["op"].get("int")
            elif st["rv"]["k"] == "discr" and st["rv"]["pl"]["l"] == L and not st["place"]["p"]:
                pp = path_of(st["rv"]["pl"]["p"])
                if pp is not None:
                    discr[st["place"]["l"]] = (pp, st["rv"].get("adt"))
            elif not st["place"]["p"] and st["place"]["l"] == L:
                kn = {}            # re-assigned
        t2 = b["term"]
        if t2["k"] == "call" and (t2.get("dest") or {}).get("l") == L:
            kn = {}
        if bi == dblock:
            if ty_mentions_error(_residual_ty(ty, kn), markers):
                return False
            continue
        succs = []
        if t2["k"] == "switch":
            op = t2["op"]
            key = op["pl"]["l"] if op.get("c") in ("copy", "move") and not op["pl"]["p"] else None
            if key in flags and key in fl:
                tg = dict((v, x) for v, x in t2["targets"]).get(fl[key], t2["otherwise"])
                succs = [(tg, fl, kn)]
            elif key in discr:
                pp, adt = discr[key]
                taken = set()
                for v, x in t2["targets"]:
                    k2 = dict(kn)
                    nm = vname(adt, v)
                    if nm:
                        k2[pp] = nm
                    taken.add(v)
                    succs.append((x, fl, k2))
                k2 = dict(kn)
                rest = [nm for i2, nm in variants.get(adt, {}).items() if i2 not in taken]
                if len(rest) == 1:
                    k2[pp] = rest[0]
                succs.append((t2["otherwise"], fl, k2))
            else:
                succs = [(x, fl, kn) for _v, x in t2["targets"]] + [(t2["otherwise"], fl, kn)]
        else:
            for k in ("t",):
                if t2.get(k) is not None:
                    succs.append((t2[k], fl, kn))
            if t2["k"] == "goto" and t2.get("t") is None:
                pass
        for x, f2, k2 in succs:
            if x is None:
                continue
            stt = (x, frozenset(f2.items()), frozenset(k2.items()))
            if stt not in seen:
                seen.add(stt)
                work.append(stt)
    return True


def errdrop_scan(rule, crate, fn_pred, markers, exceptions, what, scope_gone=True):
    """R-ERRDROP: no non-cleanup Drop of an error-typed place, no discarding adaptor.

    `exceptions`: dict key-detail -> {"count": n, "reason": ...} keyed by
    "<fn path> | <kind>:<type>"; suppresses up to count instances.
    Returns number of propagation sites seen (Try::branch on error-typed results).
    """
    from .report import Pool
    prop_sites = 0
    # only the entries of functions in this scan's scope can lend an allowance
    scope = {f.path for f in crate.fns if fn_pred(f)}
    every = {f.path for f in crate.fns}
    pool = Pool({k: v for k, v in exceptions.items()
                 if k.split(" | ", 1)[0] in scope or (scope_gone and k.split(" | ", 1)[0] not in every)},
                getattr(crate, "config", "default"))

    def ok_cb(fn, detail, line):
        def on_ok(ent, moved):
            rule.ok("%s | %s (table%s: %s)" % (fn.path, detail, " for %s, moved" % moved if moved else "", ent["reason"]), fn, line)
        return on_ok

    for fn in crate.fns:
        if not fn_pred(fn):
            continue
        for bi, b in enumerate(fn.blocks):
            if b.get("cleanup"):
                continue
            t = b["term"]
            if t["k"] == "drop":
                ty = t["ty"]
                if ty_mentions_error(ty, markers) and _param_never_holds_error(crate, fn, t):
                    rule.ok("%s: the dropped %s is a parameter that every caller fills with a payload-free constant "
                            "(an error *code* to use, not an error that happened)" % (fn.path, ty), fn, t.get("line"))
                    continue
                if ty_mentions_error(ty, markers) and _drop_cannot_hold_error(crate, fn, bi, markers):
                    rule.ok("%s: the %s dropped here is, on every path that reaches the drop with its flag set, in a "
                            "variant that holds no error (the error-carrying variants were moved out)" % (fn.path, ty), fn, t.get("line"))
                    continue
                if ty_mentions_error(ty, markers):
                    # keyed by the error type the dropped value can hold (a Result<T, E> and a bare E are the same
                    # kind of loss), so that moving the site into a generic helper keeps its identity
                    detail = "drop:%s" % _held_error(ty, markers)

                    def on_bad(fn=fn, ty=ty, detail=detail, t=t):
                        rule.violation(fn.path, detail,
                                       "%s: a value of type %s (which can hold %s) is dropped on a normal path "
                                       "instead of being propagated" % (fn.path, ty, what),
                                       fn.loc(t.get("line")))

                    pool.site(fn.path, detail, ok_cb(fn, detail, t.get("line")), on_bad)
            elif t["k"] == "call":
                names = facts.callee_names(t)
                if "std::ops::Try::branch" in names:
                    if t["arg_tys"] and ty_mentions_error(t["arg_tys"][0], markers):
                        prop_sites += 1
                        rule.ok("%s: `?` propagates %s" % (fn.path, t["arg_tys"][0]), fn, t.get("line"))
                    continue
                for n in names:
                    if n in DISCARDING:
                        if t["arg_tys"] and ty_mentions_error(t["arg_tys"][0], markers):
                            detail = "%s:%s" % (DISCARDING[n], t["arg_tys"][0])

                            def on_bad(fn=fn, n=n, detail=detail, t=t):
                                rule.violation(fn.path, detail,
                                               "%s: %s discards a result that can hold %s" % (fn.path, DISCARDING[n], what),
                                               fn.loc(t.get("line")))

                            pool.site(fn.path, detail, ok_cb(fn, detail, t.get("line")), on_bad)
                        break
    pool.settle()
    if pool.unused():
        rule.note("reviewed constructs no longer present: %s" % sorted(pool.unused().items()))
    return prop_sites


def origin(fn, defs, op, depth=0):
    """Trace an operand back through copies, moves, reborrows, unsizing casts and
    transparent derefs to what produced it.

    Returns one of
      {"k": "const", "op": op}
      {"k": "call", "t": terminator, "block": b}
      {"k": "place", "pl": place}          (a projection of some local that is not a plain copy)
      {"k": "param", "l": local}
      {"k": "agg", "rv": rvalue}
      {"k": "other", "rv": rvalue} / {"k": "multi", "l": local}
    """
    while depth < 24:
        depth += 1
        if op.get("c") == "const":
            return {"k": "const", "op": op}
        if op.get("c") not in ("copy", "move"):
            return {"k": "other", "rv": op}
        pl = op["pl"]
        if pl["p"] and pl["p"] != ["*"]:
            return {"k": "place", "pl": pl}
        l = pl["l"]
        if 1 <= l <= fn.arg_count:
            return {"k": "param", "l": l}
        ds = defs.get(l, [])
        if len(ds) != 1:
            return {"k": "multi", "l": l}
        (b, si, d) = ds[0]
        if si == "term":
            return {"k": "call", "t": d, "block": b}
        k = d["k"]
        if k == "use":
            op = d["op"]
            continue
        if k in ("ref", "rawptr"):
            rp = d["pl"]
            if not rp["p"] or rp["p"] == ["*"]:
                op = {"c": "copy", "pl": {"l": rp["l"], "p": []}}
                continue
            return {"k": "place", "pl": rp}
        if k == "cast" and (d["ck"].startswith("PointerCoercion") or d["ck"].startswith("PtrToPtr")):
            op = d["op"]
            continue
        if k == "agg":
            return {"k": "agg", "rv": d}
        return {"k": "other", "rv": d}
    return {"k": "other", "rv": None}


def field_names(pl):
    return [e.get("n") for e in pl["p"] if isinstance(e, dict) and "f" in e]


def fields_of_type(crate, adt, pred):
    """Names of the fields of struct `adt` whose type satisfies pred (fields are identified by role = type,
    not by name, so that renaming a private field does not change a rule's verdict)."""
    a = crate.adts.get(adt)
    if not a or not a["variants"]:
        return []
    return [f["name"] for f in a["variants"][0]["fields"] if pred(f["ty"])]


def stream_stepper(crate):
    """The function that pulls one item from the wrapped byte iterator of the stream reader and keeps the line / column
    counters: `LineColIterator::next` on the reviewed tree.  Found by role: the only function of lexpr's parse module
    that calls Iterator::next on `&mut I` (the wrapper's type parameter) or on `&mut io::Bytes<R>` itself.  None when
    there is not exactly one (then the rules that need it fail closed)."""
    found = []
    for f in crate.fns:
        if not f.file.startswith("lexpr/src/parse/") or f.kind == "closure":
            continue
        for bi, t in f.calls():
            if f.is_cleanup(bi):
                continue
            from . import facts as _F
            if "std::iter::Iterator::next" in _F.callee_names(t):
                tys = t.get("arg_tys") or []
                if tys and tys[0] in ("&mut I", "&mut std::io::Bytes<R>"):
                    found.append(f)
                    break
    return found[0] if len(found) == 1 else None


_FWD = {}


def _multi_forwarder(crate, f):
    byte_params = [i for i in range(1, f.arg_count + 1) if f.local_ty(i) in ("&[u8]", "&str")]
    if not byte_params or f.impl_trait or f.is_pub:
        return None
    parts = [f] + crate.closures_of(f.path)
    n = 0
    for g in parts:
        gd = defs_of(g)
        for bi, t in g.calls():
            if g.is_cleanup(bi):
                continue
            c = t["callee"]
            names = facts.callee_names(t)
            if c.get("trait") == "std::io::Write":
                if "std::io::Write::write_all" not in names or len(t["args"]) < 2:
                    return None
                o = origin(g, gd, t["args"][1])
                if g is f:
                    if not (o["k"] == "param" and o["l"] in byte_params):
                        return None
                else:
                    # a capture of the closure: `(*_1).k`
                    if not (o["k"] == "place" and o["pl"]["l"] == 1):
                        return None
                n += 1
            elif c.get("resolved_crate", c.get("crate")) == crate.name:
                return None          # calls other code of the crate: not a pure forwarder
    if n < 2:
        return None
    # the closures capture only parameters of the helper
    fd = defs_of(f)
    for b in f.blocks:
        for st in b["stmts"]:
            if st["k"] == "assign" and st["rv"]["k"] == "agg" and st["rv"].get("agg") == "closure":
                for op in st["rv"].get("fields") or []:
                    o = origin(f, fd, op)
                    if o["k"] != "param":
                        return None
    return byte_params[0]


def sink_forwarders(crate):
    """Local helpers of print.rs that do nothing but forward their byte-slice argument to io::Write::write_all
    (`fn put(w, bytes) -> io::Result<()> { w.write_all(bytes) }`): {path: 1-based index of the bytes parameter}.
    The printer rules treat a call of such a helper as the write_all it performs."""
    key = id(crate)
    if key in _FWD:
        return _FWD[key]
    out = {}
    for f in crate.fns:
        if f.kind == "closure" or not f.file.endswith("print.rs"):
            continue
        calls = [(bi, t) for bi, t in f.calls() if not f.is_cleanup(bi)]
        if len(calls) != 1 or "std::io::Write::write_all" not in facts.callee_names(calls[0][1]):
            # several parameters written one after the other (`write_both(w, first, second)`), possibly from a closure
            # handed to `and_then`: still nothing but its own byte-slice parameters reaches the sink
            idx = _multi_forwarder(crate, f)
            if idx is not None:
                out[f.path] = idx
            continue
        if any(b["term"]["k"] == "switch" for bi, b in enumerate(f.blocks) if not f.is_cleanup(bi)):
            continue
        t = calls[0][1]
        if len(t["args"]) < 2:
            continue
        o = origin(f, defs_of(f), t["args"][1])
        if o["k"] == "param":
            out[f.path] = o["l"]
    _FWD[key] = out
    return out


def copy_of_param(fn, l, param):
    """Is local l a copy / lossless integer widening of parameter `param` of fn?"""
    if l == param:
        return True
    defs = defs_of(fn)
    seen = 0
    while seen < 5:
        ds = defs.get(l, [])
        if len(ds) != 1:
            return False
        if ds[0][1] == "term":
            # `u64::from(radix)` / `radix.into()`: lossless integer widening from core::convert::num
            t = ds[0][2]
            c = t.get("callee", {})
            if t.get("k") == "call" and c.get("method") in ("from", "into") and len(t["args"]) == 1 \
                    and "convert::num" in (c.get("resolved_dp") or "") and place_local(t["args"][0]) is not None:
                l = place_local(t["args"][0])
                if l == param:
                    return True
                seen += 1
                continue
            return False
        rv = ds[0][2]
        if rv["k"] == "use" and rv["op"].get("c") in ("copy", "move") and not rv["op"]["pl"]["p"]:
            l = rv["op"]["pl"]["l"]
            if l == param:
                return True
            seen += 1
            continue
        # an integer conversion of the radix (`radix as u64`, `u64::from(radix)`): 2/8/10/16 survive every width
        if rv["k"] == "cast" and rv.get("op", {}).get("c") in ("copy", "move") and not rv["op"]["pl"]["p"]:
            l = rv["op"]["pl"]["l"]
            if l == param:
                return True
            seen += 1
            continue
        return False
    return False


_ALWAYS_ERR = {}


def always_err_fns(crate):
    """Local functions with a Result return type that only ever build `Err(..)` (`fn fail<T>(&mut self, code) ->
    Result<T> { Err(self.error(code)) }`): a call of one is an error return."""
    key = id(crate)
    if key not in _ALWAYS_ERR:
        out = set()
        for f in crate.fns:
            if f.kind == "closure" or not f.local_ty(0).startswith("std::result::Result<"):
                continue
            aggs = [st["rv"] for b in f.blocks for st in b["stmts"] if st["k"] == "assign" and st["rv"]["k"] == "agg"
                    and st["rv"].get("adt") == "std::result::Result"]
            ret_calls = [t for _bi, t in f.calls() if not t["dest"]["p"] and t["dest"]["l"] == 0]
            if aggs and all(a.get("variant") == 1 for a in aggs) and not ret_calls:
                out.add(f.path)
        # one level of forwarding: `peek_fail_or_eof` that returns what `peek_fail` returns on every path
        for _ in range(2):
            for f in crate.fns:
                if f.path in out or f.kind == "closure" or not f.local_ty(0).startswith("std::result::Result<"):
                    continue
                aggs = [st["rv"] for b in f.blocks for st in b["stmts"] if st["k"] == "assign" and st["rv"]["k"] == "agg"
                        and st["rv"].get("adt") == "std::result::Result" and st["place"]["l"] == 0]
                ret_calls = [t for _bi, t in f.calls() if not t["dest"]["p"] and t["dest"]["l"] == 0]
                if ret_calls and all(a.get("variant") == 1 for a in aggs) and all(
                        (t["callee"].get("resolved") or t["callee"].get("path")) in out
                        or "std::ops::FromResidual::from_residual" in facts.callee_names(t) for t in ret_calls):
                    out.add(f.path)
        _ALWAYS_ERR[key] = out
    return _ALWAYS_ERR[key]
