"""A6: polymorphic call graph of one crate with conservative trait dispatch."""
from . import facts


def build_graph(crate, std_dispatch=True):
    """fn path -> set(fn path). Unresolved trait-method calls get an edge to every
    local impl of a method of that name for that trait (over-approximation);
    a function has an edge to every closure it creates."""
    by_path = {f.path: f for f in crate.fns}
    impls = {}  # (trait, method) -> [fn path]
    for f in crate.fns:
        if f.impl_trait and f.kind == "assoc":
            m = f.path.rsplit("::", 1)[1]
            impls.setdefault((f.impl_trait, m), []).append(f.path)
        if f.d.get("in_trait"):
            m = f.path.rsplit("::", 1)[1]
            impls.setdefault((f.d["in_trait"], m), []).append(f.path)
    g = {}
    for f in crate.fns:
        out = g.setdefault(f.path, set())
        for bi, t in f.calls():
            c = t["callee"]
            tgt = None
            if c.get("resolved") and c.get("resolved_crate") == crate.name:
                tgt = c["resolved"]
            elif c.get("crate") == crate.name and "trait" not in c:
                tgt = c.get("path")
            if tgt and tgt in by_path:
                out.add(tgt)
                continue
            tr = c.get("trait")
            if tr and "resolved" not in c and (std_dispatch or c.get("crate") == crate.name):
                local_tr = tr
                if c.get("crate") == crate.name:
                    pass
                for p in impls.get((local_tr, c.get("method")), []):
                    out.add(p)
        for b in f.blocks:
            for s in b["stmts"]:
                if s["k"] == "assign" and s["rv"]["k"] == "agg" and s["rv"].get("agg") == "closure":
                    if s["rv"]["closure"] in by_path:
                        out.add(s["rv"]["closure"])
            # function items passed as values (e.g. `as_str` handed to a generic helper)
            for s in b["stmts"]:
                if s["k"] == "assign":
                    for op in _operands(s["rv"]):
                        if op.get("c") == "const" and op.get("fn") in by_path:
                            out.add(op["fn"])
            t = b["term"]
            if t["k"] == "call":
                for a in t["args"]:
                    if a.get("c") == "const" and a.get("fn") in by_path:
                        out.add(a["fn"])
    return g


def _operands(rv):
    for k in ("op", "a", "b"):
        if isinstance(rv.get(k), dict):
            yield rv[k]
    for f in rv.get("fields", []) or []:
        yield f


def reachable(g, roots):
    seen = set()
    st = [r for r in roots if r in g]
    while st:
        n = st.pop()
        if n in seen:
            continue
        seen.add(n)
        st.extend(g.get(n, ()))
    return seen


def typed_reachable(crate, roots):
    """Reachability over the crate's own functions with the instantiation carried along: a function is visited once
    per binding of its type parameters, and a call of a local trait's method on a type parameter that the binding
    makes concrete goes to the impl for that type only (`scan::<R6rs>` does not reach `<Elisp as Scan>::escape`).
    Where the binding says nothing the call goes to every local impl, as in build_graph."""
    by_path = {f.path: f for f in crate.fns}
    impls = {}
    for f in crate.fns:
        if f.impl_trait and f.kind == "assoc":
            impls.setdefault((f.impl_trait, f.path.rsplit("::", 1)[1]), []).append(f)
        if f.d.get("in_trait"):
            impls.setdefault((f.d["in_trait"], f.path.rsplit("::", 1)[1]), []).append(f)
    seen = set()
    work = [(r, ()) for r in roots if r in by_path]
    while work:
        p, envt = work.pop()
        if (p, envt) in seen:
            continue
        seen.add((p, envt))
        f = by_path[p]
        env = dict(envt)
        for bi, t in f.calls():
            c = t["callee"]
            tgt = None
            if c.get("resolved") and c.get("resolved_crate") == crate.name:
                tgt = c["resolved"]
            elif c.get("crate") == crate.name and "trait" not in c:
                tgt = c.get("path")
            if tgt and tgt in by_path:
                g = by_path[tgt]
                work.append((tgt, _bind(g, c, env, envt)))
                continue
            tr = c.get("trait")
            if tr and "resolved" not in c and c.get("crate") == crate.name:
                cands = impls.get((tr, c.get("method")), [])
                subs = c.get("substs") or []
                conc = env.get(subs[0], subs[0]) if subs else None
                exact = [g for g in cands if g.self_ty == conc and not g.d.get("in_trait")]
                for g in (exact if len(exact) == 1 else cands):
                    work.append((g.path, ()))
        for b in f.blocks:
            for s in b["stmts"]:
                if s["k"] != "assign":
                    continue
                if s["rv"]["k"] == "agg" and s["rv"].get("agg") == "closure" and s["rv"]["closure"] in by_path:
                    work.append((s["rv"]["closure"], envt))
                for op in _operands(s["rv"]):
                    if op.get("c") == "const" and op.get("fn") in by_path:
                        work.append((op["fn"], ()))
            t = b["term"]
            if t["k"] == "call":
                for a in t["args"]:
                    if a.get("c") == "const" and a.get("fn") in by_path:
                        work.append((a["fn"], ()))
    return {p for p, _ in seen}


def _bind(g, c, env, envt):
    """The callee's type parameters as this call site (under the caller's binding) instantiates them."""
    if g.kind == "closure":
        return envt
    gens = g.d.get("generics")
    subs = c.get("substs")
    if not gens or not subs or len(gens) != len(subs):
        return ()
    out = {}
    for gp, sv in zip(gens, subs):
        if gp.startswith("'"):
            continue
        sv = env.get(sv, sv)
        if sv != gp:
            out[gp] = sv
    return tuple(sorted(out.items()))
