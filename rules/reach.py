"""A6: polymorphic call graph of one crate with conservative trait dispatch."""
from . import facts


def build_graph(crate, std_dispatch=True):
    """fn path -> set(fn path). Unresolved trait-method calls get an edge to every
    local impl of a method of that name for that trait (over-approximation);
    a function has an edge to every closure it creates."""
    by_path = {f.path: f for f in crate.fns}
    impls = {}  # (trait, method) -> [fn path]
    for f in crate.fns:
        if f.impl_trait and f.kind == "assoc":
            m = f.path.rsplit("::", 1)[1]
            impls.setdefault((f.impl_trait, m), []).append(f.path)
        if f.d.get("in_trait"):
            m = f.path.rsplit("::", 1)[1]
            impls.setdefault((f.d["in_trait"], m), []).append(f.path)
    g = {}
    for f in crate.fns:
        out = g.setdefault(f.path, set())
        for bi, t in f.calls():
            c = t["callee"]
            tgt = None
            if c.get("resolved") and c.get("resolved_crate") == crate.name:
                tgt = c["resolved"]
            elif c.get("crate") == crate.name and "trait" not in c:
                tgt = c.get("path")
            if tgt and tgt in by_path:
                out.add(tgt)
                continue
            tr = c.get("trait")
            if tr and "resolved" not in c and (std_dispatch or c.get("crate") == crate.name):
                local_tr = tr
                if c.get("crate") == crate.name:
                    pass
                for p in impls.get((local_tr, c.get("method")), []):
                    out.add(p)
        for b in f.blocks:
            for s in b["stmts"]:
                if s["k"] == "assign" and s["rv"]["k"] == "agg" and s["rv"].get("agg") == "closure":
                    if s["rv"]["closure"] in by_path:
                        out.add(s["rv"]["closure"])
            # function items passed as values (e.g. `as_str` handed to a generic helper)
            for s in b["stmts"]:
                if s["k"] == "assign":
                    for op in _operands(s["rv"]):
                        if op.get("c") == "const" and op.get("fn") in by_path:
                            out.add(op["fn"])
            t = b["term"]
            if t["k"] == "call":
                for a in t["args"]:
                    if a.get("c") == "const" and a.get("fn") in by_path:
                        out.add(a["fn"])
    return g


def _operands(rv):
    for k in ("op", "a", "b"):
        if isinstance(rv.get(k), dict):
            yield rv[k]
    for f in rv.get("fields", []) or []:
        yield f


def reachable(g, roots):
    seen = set()
    st = [r for r in roots if r in g]
    while st:
        n = st.pop()
        if n in seen:
            continue
        seen.add(n)
        st.extend(g.get(n, ()))
    return seen
