"""R-ALIST: association-list lookup by name / by value, evaluated abstractly over small synthetic lists.

The list cells are synthetic (serde_shapes.SynCons: car / cdr cells answered by hooks on Cons::car / Cons::cdr);
everything else - Cons::iter, the iterator's next, find_map and its closure, the per-entry matcher, Value::as_name,
the derived PartialEq of Value - is the crate's own MIR, looked through by the simulator.  Key texts are concrete
(`Str`), so "same text under another name kind" is a distinct case from "same key".
"""
from . import facts as F, sim
from .serde_shapes import SynCons
from .sim import Adt, Bytes, Ref, UNK

V = "value::Value"


class Str:
    def __init__(self, b):
        self.b = bytes(b)

    def __repr__(self):
        return "Str(%r)" % self.b

    def __eq__(self, o):
        return isinstance(o, Str) and o.b == self.b

    def __hash__(self):
        return hash(self.b)


def _cell(v):
    return Ref([v], 0, ())


def boxed(v):
    """A Box<T> as MIR sees it after drop elaboration: Box { 0: Unique { pointer: NonNull<T> }, 1: alloc }."""
    return Adt("std::boxed::Box", 0, [Adt("std::ptr::Unique", 0, [_cell(v)]), UNK])


def name_value(lexpr, kind, text):
    """Value::Symbol / Keyword / String with the concrete text `text` (payload Box<str>)."""
    return mk(lexpr, kind, boxed(Str(text)))


def mk(lexpr, kind, payload=None):
    for var in lexpr.adts[V]["variants"]:
        if var["name"] == kind:
            fs = [payload if payload is not None else sim.Opq("payload:" + kind)] * len(var["fields"])
            return Adt(V, var["idx"], fs, kind)
    raise KeyError(kind)


def cons(lexpr, car, cdr):
    """Value::Cons(Cons { inner: Box<(car, cdr)> }), structurally, so that the crate's own accessors (car, cdr,
    as_pair, iter, ...) work on it when looked through."""
    return mk(lexpr, "Cons", Adt("cons::Cons", 0, [boxed(sim.Tup([car, cdr]))]))


def lst(lexpr, items, tail=None):
    out = tail if tail is not None else mk(lexpr, "Null")
    for it in reversed(items):
        out = cons(lexpr, it, out)
    return out


def hook(S, fn, bb, t, args, path):
    c = t["callee"]
    p = c.get("path", "")
    nm = F.callee_names(t)
    d = []
    for a in args:
        v = S._deref(a, path)
        d.append(v)
    if p in ("cons::Cons::car", "cons::Cons::cdr") and d and isinstance(d[0], SynCons):
        return ("value", d[0].cdr if p.endswith("cdr") else d[0].car)
    if p == "cons::Cons::as_pair" and d and isinstance(d[0], SynCons):
        return ("value", sim.Tup([d[0].car, d[0].cdr]))
    # dynamic dispatch of the (sealed) Index trait on the kind of key: &T / String forward to str, Value is by value
    if "value::index::Index::index_into" in nm and "resolved" not in c and d:
        tgt = None
        if isinstance(d[0], Str):
            tgt = "<str as value::index::Index>::index_into"
        elif isinstance(d[0], Adt) and d[0].adt == V:
            tgt = "<value::Value as value::index::Index>::index_into"
        f = S.find_fn(tgt) if tgt else None
        if f is not None:
            return ("inline", f)
    # `x.into()` with a generic source type inside Cons::new / Value::cons: decided by the value at hand
    if ("std::convert::Into::into" in nm or "std::convert::From::from" in nm) and d and (c.get("substs") or ["", ""])[-1] == V:
        if isinstance(d[0], Adt) and d[0].adt == V:
            return ("value", d[0])
        if isinstance(d[0], Adt) and d[0].adt == "cons::Cons":
            for crate in S.crates:
                if V in crate.adts:
                    for var in crate.adts[V]["variants"]:
                        if var["name"] == "Cons":
                            return ("value", Adt(V, var["idx"], [d[0]], "Cons"))
    # text comparisons on concrete key texts
    def text(v):
        if isinstance(v, Adt) and v.adt == "std::boxed::Box" and v.fields and isinstance(v.fields[0], Adt) and v.fields[0].fields:
            v = S._deref(v.fields[0].fields[0], path)
        if isinstance(v, Str):
            return v.b
        if isinstance(v, Bytes):
            return bytes(v.b)
        return None
    if ("std::cmp::PartialEq::eq" in nm or "std::cmp::PartialEq::ne" in nm) and len(d) == 2:
        a, b = d
        # Option<&str> == Option<&str>
        if isinstance(a, Adt) and isinstance(b, Adt) and a.adt.endswith("Option") and b.adt.endswith("Option"):
            if a.variant != b.variant:
                eq = False
            elif a.variant == 0:
                eq = True
            else:
                ta, tb = text(S._deref(a.fields[0], path)), text(S._deref(b.fields[0], path))
                if ta is None or tb is None:
                    return None
                eq = ta == tb
            return ("value", int(eq if c.get("method") == "eq" else not eq))
        if isinstance(a, Adt) and isinstance(b, Adt) and a.adt == V and b.adt == V:
            # Value == Value (the derived structural equality), for the key shapes used here
            eq = None
            if a.variant != b.variant:
                eq = False
            elif not a.fields:
                eq = True
            else:
                ta, tb = text(a.fields[0]), text(b.fields[0])
                if ta is not None and tb is not None:
                    eq = ta == tb
                elif isinstance(a.fields[0], int) and isinstance(b.fields[0], int):
                    eq = a.fields[0] == b.fields[0]
            if eq is None:
                return None
            return ("value", int(eq if c.get("method") == "eq" else not eq))
        ta, tb = text(a), text(b)
        if ta is not None and tb is not None:
            eq = ta == tb
            return ("value", int(eq if c.get("method") == "eq" else not eq))
    if d and isinstance(d[0], Str) and ("std::ops::Deref::deref" in nm or "std::convert::AsRef::as_ref" in nm
                                         or "std::borrow::Borrow::borrow" in nm or p.endswith("String::as_str")):
        return ("value", d[0])
    return None


def make_sim(lexpr, max_paths=6000):
    inl = lambda a, b: b.crate == lexpr.name and (
        b.file.endswith("value/index.rs") or b.file.endswith("value/mod.rs") or b.file.endswith("cons.rs")
        or b.file.endswith("number.rs"))
    return sim.Sim([lexpr], hooks={"call": hook}, inline=inl, max_depth=9, max_paths=max_paths, max_visits=6)


def outcome(S, paths, val_of):
    """Set of outcomes: 'none' | ('some', tag of the returned value) | 'panic' | '?'."""
    outs = set()
    for p in paths:
        if p.end == "panic":
            outs.add("panic")
            continue
        if p.end != "return":
            outs.add("?" + str(p.end))
            continue
        r = p.ret
        if isinstance(r, Adt) and r.adt.endswith("Option"):
            if r.variant == 0:
                outs.add("none")
            else:
                v = S._deref(r.fields[0], p)
                outs.add(("some", val_of(v)))
        else:
            outs.add("?ret")
    return outs


def unbox(S, path, v):
    v = S._deref(v, path)
    if isinstance(v, Adt) and v.adt == "std::boxed::Box" and v.fields and isinstance(v.fields[0], Adt) and v.fields[0].fields:
        return S._deref(v.fields[0].fields[0], path)
    return v


def describe(S, path, v, depth=0):
    """A printable structure of an abstract Value / Cons: ('cons', car, cdr) | (kind, payload text or None)."""
    v = S._deref(v, path)
    if depth > 12:
        return ("...",)
    if isinstance(v, Adt) and v.adt == "cons::Cons" and v.fields:
        pair = unbox(S, path, v.fields[0])
        if isinstance(pair, sim.Tup) and len(pair.fields) == 2:
            return ("cons", describe(S, path, pair.fields[0], depth + 1), describe(S, path, pair.fields[1], depth + 1))
        return ("cons?", repr(pair)[:40])
    if isinstance(v, Adt) and v.adt == V:
        if v.vname == "Cons" and v.fields:
            return describe(S, path, v.fields[0], depth + 1)
        pay = None
        if v.fields:
            f0 = unbox(S, path, v.fields[0])
            # payloads the simulator carries exactly; everything else is compared by kind
            pay = f0 if isinstance(f0, int) else None
        return (v.vname or str(v.variant), pay)
    return ("?", repr(v)[:40])
