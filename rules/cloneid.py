"""R-CLONE-ID: the hand-written (iterative) Clone impls of the list types give back the structure they were given.

`Cons::clone` and `SpanInfo::clone` were rewritten as loops so that cloning a long list does not recurse (C16).
A loop that rebuilds a chain cell by cell has more ways to be wrong than the derived impl it replaced: dropping
the tail of a dotted pair, confusing the kinds of terminator, mixing up car and cdr.  The rule evaluates the impl's
own MIR over small structural chains (1..3 cells, every kind of terminator, a nested chain as element) and compares
the structure of the result with the structure of the argument: cell for cell, kind for kind, and for payloads the
simulator carries exactly (booleans, characters, span positions) value for value.  Payloads behind std calls that
are not modelled (Box<str>::clone, Vec::clone) are compared by kind only.

A derived impl is structural by construction and is accepted as such.
"""
from . import alist, sim
from .sim import Adt, Ref, Tup, UNK

V = "value::Value"
SI = "datum::SpanInfo"


def _inline_for(lexpr, files):
    return lambda a, b: b.crate == lexpr.name and any(b.file.endswith(f) for f in files)


def _run(S, fn, v):
    try:
        return S.run(fn, args={1: Ref([v], 0, ())}), None
    except sim.Limit as e:
        return None, str(e)


def check_cons(r, lexpr, thorough=False):
    """Cons::clone over structural chains; returns the number of cases."""
    fn = lexpr.fn("<cons::Cons as std::clone::Clone>::clone")
    if fn is None:
        r.anchor_missing("impl Clone for Cons")
        return 0
    if fn.derived:
        r.ok("Clone for Cons is derived: structural by construction", fn)
        r.note("derived impl: nothing to evaluate")
        return 0
    B = lambda x: alist.mk(lexpr, "Bool", x)
    C = lambda x: alist.mk(lexpr, "Char", x)
    tails = {"the empty list": None, "a boolean": B(1), "a character": C(0x78), "#nil": alist.mk(lexpr, "Nil"),
             "a vector": alist.mk(lexpr, "Vector"), "a string": alist.name_value(lexpr, "String", b"t")}
    lens = (1, 2, 3, 4, 6) if thorough else (1, 2, 3)
    cases = []
    for n in lens:
        for tn, tail in tails.items():
            items = [B(i % 2) if i % 3 else C(0x61 + i) for i in range(n)]
            cases.append(("%d element(s), tail %s" % (n, tn), alist.lst(lexpr, items, tail)))
    inner = alist.lst(lexpr, [C(0x70), B(0)], B(1))
    cases.append(("a dotted list as first element", alist.lst(lexpr, [inner, B(1)], None)))
    cases.append(("a dotted list as last element", alist.lst(lexpr, [B(1), inner], C(0x71))))
    n = und = 0
    for name, v in cases:
        S = alist.make_sim(lexpr)
        S.structural_box = True
        S.inline = _inline_for(lexpr, ("value/index.rs", "value/mod.rs", "value/from.rs", "cons.rs", "number.rs"))
        cell = v.fields[0]
        paths, lim = _run(S, fn, cell)
        n += 1
        if paths is None:
            r.note("undecided: %s (%s)" % (name, lim))
            und += 1
            continue
        want = alist.describe(S, paths[0], cell) if paths else None
        got = set()
        for p in paths:
            got.add(alist.describe(S, p, p.ret) if p.end == "return" else ("end", str(p.end)))
        if got == {want}:
            r.ok("clone of a list with %s has the structure of the original" % name, fn)
        elif any(_unknown(g) for g in got):
            r.note("undecided: %s gives %s" % (name, sorted(map(repr, got))[:3]))
            und += 1
        else:
            r.violation(fn.path, "clone:%s" % name.replace(" ", "-"),
                        "cloning a list with %s gives %s, the original is %s" % (name, _show(sorted(got, key=repr)[0]), _show(want)),
                        fn.loc())
    r.floor("clone-cases", n)
    r.floor("clone-decided", n - und)
    return n


def _unknown(d):
    if not isinstance(d, tuple):
        return False
    if d and d[0] in ("?", "cons?", "...", "end") and not (d[0] == "end" and d[1] == "panic"):
        return True
    return any(_unknown(x) for x in d if isinstance(x, tuple))


def _show(d):
    if not isinstance(d, tuple):
        return repr(d)
    if d[0] == "cons":
        out = []
        while isinstance(d, tuple) and d[0] == "cons":
            out.append(_show(d[1]))
            d = d[2]
        if d == ("Null", None):
            return "(" + " ".join(out) + ")"
        return "(" + " ".join(out) + " . " + _show(d) + ")"
    if d[0] == "end":
        return "<%s>" % d[1]
    if d[0] in ("Prim", "Vec", "Cons") and len(d) >= 2 and isinstance(d[1], int):
        if d[0] == "Cons":
            return "Cons@%d[%s | %s]" % (d[1], _show(d[2]), _show(d[3]))
        return "%s@%d" % (d[0], d[1])
    return d[0] if d[1] is None else "%s:%s" % (d[0], d[1] if not isinstance(d[1], bytes) else d[1].decode("latin1"))


# ---- SpanInfo ----

def _span(i):
    pos = lambda k: Adt("parse::read::Position", 0, [k, k])
    return Adt("datum::Span", 0, [pos(i), pos(i + 1000)])


def _si(lexpr, kind, i, a=None, b=None):
    for var in lexpr.adts[SI]["variants"]:
        if var["name"] == kind:
            if kind == "Prim":
                return Adt(SI, var["idx"], [_span(i)], kind)
            if kind == "Vec":
                return Adt(SI, var["idx"], [_span(i), sim.Opq("elements")], kind)
            return Adt(SI, var["idx"], [_span(i), alist.boxed(Tup([a, b]))], kind)
    raise KeyError(kind)


def describe_si(S, path, v, depth=0):
    v = S._deref(v, path)
    if depth > 12:
        return ("...",)
    if not (isinstance(v, Adt) and v.adt == SI and v.fields):
        return ("?", repr(v)[:40])
    sp = S._deref(v.fields[0], path)
    sid = None
    if isinstance(sp, Adt) and sp.fields:
        st = S._deref(sp.fields[0], path)
        if isinstance(st, Adt) and st.fields and isinstance(S._deref(st.fields[0], path), int):
            sid = S._deref(st.fields[0], path)
    if sid is None:
        return ("?", "span " + repr(sp)[:40])
    kind = v.vname or {0: "Prim", 1: "Cons", 2: "Vec"}.get(v.variant, str(v.variant))
    if kind == "Cons":
        pair = alist.unbox(S, path, v.fields[1])
        if isinstance(pair, Tup) and len(pair.fields) == 2:
            return ("Cons", sid, describe_si(S, path, pair.fields[0], depth + 1), describe_si(S, path, pair.fields[1], depth + 1))
        return ("?", repr(pair)[:40])
    return (kind, sid)


def check_spaninfo(r, lexpr, thorough=False):
    fn = lexpr.fn("<datum::SpanInfo as std::clone::Clone>::clone")
    if fn is None:
        r.anchor_missing("impl Clone for SpanInfo")
        return 0
    if fn.derived:
        r.ok("Clone for SpanInfo is derived: structural by construction", fn)
        r.note("derived impl: nothing to evaluate")
        return 0
    si = lexpr.adts.get(SI) or {}
    shape = {v["name"]: [f["ty"] for f in v["fields"]] for v in si.get("variants", [])}
    if not (si.get("kind") == "enum" and set(shape) == {"Prim", "Cons", "Vec"} and len(shape["Prim"]) == 1
            and len(shape["Cons"]) == 2 and "[datum::SpanInfo; 2]" in shape["Cons"][1] and len(shape["Vec"]) == 2):
        # the chains this rule builds follow the representation Prim(span) | Cons(span, Box<[_; 2]>) | Vec(span, Vec<_>);
        # under another private representation the rule has nothing to say (C16 still decides that the impl is iterative)
        r.note("SpanInfo is represented differently (%s): clone fidelity is not evaluated on this tree" % sorted(shape.items()))
        r.ok("SpanInfo's private representation is not the one this rule models; not evaluated", fn)
        return 0
    ctr = [0]

    def nid():
        ctr[0] += 1
        return ctr[0]

    def chain(cars, term):
        out = _si(lexpr, term, nid())
        for c in reversed(cars):
            out = _si(lexpr, "Cons", nid(), c(), out)
        return out

    prim = lambda: _si(lexpr, "Prim", nid())
    vec = lambda: _si(lexpr, "Vec", nid())
    nested = lambda: chain([prim, vec], "Vec")
    cases = [("an atom", prim()), ("a vector", vec())]
    lens = (1, 2, 3, 5) if thorough else (1, 2, 3)
    for n in lens:
        for term, tn in (("Prim", "an atom"), ("Vec", "a vector")):
            cars = [(prim, vec, prim)[i % 3] for i in range(n)]
            cases.append(("%d cell(s) ending in %s" % (n, tn), chain(cars, term)))
    cases.append(("a list as first element", chain([nested, prim], "Prim")))
    cases.append(("a list as last element", chain([prim, nested], "Vec")))
    n = und = 0
    for name, v in cases:
        S = sim.Sim([lexpr], inline=_inline_for(lexpr, ("datum.rs",)), max_depth=9, max_paths=6000, max_visits=8)
        S.structural_box = True
        paths, lim = _run(S, fn, v)
        n += 1
        if paths is None:
            r.note("undecided: %s (%s)" % (name, lim))
            und += 1
            continue
        want = describe_si(S, paths[0], v) if paths else None
        got = set()
        for p in paths:
            got.add(describe_si(S, p, p.ret) if p.end == "return" else ("end", str(p.end)))
        if got == {want}:
            r.ok("clone of the span information of %s has the structure and spans of the original" % name, fn)
        elif any(_unknown(g) for g in got):
            r.note("undecided: %s gives %s" % (name, sorted(map(repr, got))[:3]))
            und += 1
        else:
            r.violation(fn.path, "clone:%s" % name.replace(" ", "-"),
                        "cloning the span information of %s gives %s, the original is %s" % (
                            name, _show(sorted(got, key=repr)[0]), _show(want)), fn.loc())
    r.floor("spaninfo-clone-cases", n)
    r.floor("spaninfo-clone-decided", n - und)
    return n


def check_cons_eq(r, lexpr):
    """Cons::eq over pairs of structural chains: equal exactly when the chains have the same length, the same elements
    in order and the same tail.  A hand-written loop over two chains has its own ways to be wrong (stopping at the end
    of the shorter one, skipping the tail).  Cases with small n, not all lists."""
    fn = lexpr.fn("<cons::Cons as std::cmp::PartialEq>::eq")
    if fn is None:
        r.anchor_missing("impl PartialEq for Cons")
        return 0
    if fn.derived:
        r.ok("PartialEq for Cons is derived: structural by construction", fn)
        return 0
    B = lambda x: alist.mk(lexpr, "Bool", x)
    C = lambda x: alist.mk(lexpr, "Char", x)
    nil = lambda: alist.mk(lexpr, "Nil")

    def chain(elems, tail):
        return alist.lst(lexpr, [B(e) if e in (0, 1) else C(e) for e in elems], tail() if tail else None)

    cases = [
        ("(#f #t #f) and (#f #t #f)", ([0, 1, 0], None), ([0, 1, 0], None), True),
        ("(#f #t #f) and (#f #t)", ([0, 1, 0], None), ([0, 1], None), False),
        ("(#f #t) and (#f #t #f)", ([0, 1], None), ([0, 1, 0], None), False),
        ("(#f) and (#f #t #f #t)", ([0], None), ([0, 1, 0, 1], None), False),
        ("(#f #t) and (#f #f)", ([0, 1], None), ([0, 0], None), False),
        ("(#t #t) and (#f #t)", ([1, 1], None), ([0, 1], None), False),
        ("(#f #t . #nil) and (#f #t)", ([0, 1], nil), ([0, 1], None), False),
        ("(#f #t) and (#f #t . #nil)", ([0, 1], None), ([0, 1], nil), False),
        ("(#f #t . #nil) and (#f #t . #nil)", ([0, 1], nil), ([0, 1], nil), True),
        ("(#f . #t) and (#f . #f)", ([0], lambda: B(1)), ([0], lambda: B(0)), False),
        ("(#\\a #f) and (#\\a #f)", ([0x61, 0], None), ([0x61, 0], None), True),
        ("(#\\a #f) and (#\\b #f)", ([0x61, 0], None), ([0x62, 0], None), False),
    ]
    n = und = 0
    for name, (e1, t1), (e2, t2), want in cases:
        a, b = chain(e1, t1), chain(e2, t2)
        S = alist.make_sim(lexpr)
        S.structural_box = True
        S.structural_vec = True
        S.inline = lambda x, g: g.crate == lexpr.name and (any(g.file.endswith(f) for f in ("value/mod.rs", "cons.rs", "number.rs", "value/partial_eq.rs"))
                                                           or (g.derived and g.impl_trait == "std::cmp::PartialEq"))
        n += 1
        try:
            paths = [p for p in S.run(fn, args={1: Ref([a.fields[0]], 0, ()), 2: Ref([b.fields[0]], 0, ())}) if p.end == "return"]
        except sim.Limit as e:
            r.note("undecided: %s (%s)" % (name, e))
            und += 1
            continue
        got = {p.ret if isinstance(p.ret, int) else "?" for p in paths}
        if got == {int(want)}:
            r.ok("%s compare %s" % (name, "equal" if want else "unequal"), fn)
        elif not got or "?" in got or len(got) > 1:
            r.note("undecided: %s gives %s" % (name, sorted(map(str, got))))
            und += 1
        else:
            r.violation(fn.path, "list-eq:%s" % name.replace(" ", ""),
                        "%s compare %s with the hand-written Cons::eq; lists are equal exactly when they have the same "
                        "elements in the same order and the same tail" % (name, "equal" if not want else "unequal"), fn.loc())
    r.floor("list-eq-cases", n)
    r.floor("list-eq-decided", n - und)
    return n
