"""R-SPINE: no recursion whose depth follows the cdr chain of a list."""
from . import cfg, common, facts as F

PAYLOAD_MARKERS = (
    "(lexpr::Value, lexpr::Value)",
    "[lexpr::datum::SpanInfo; 2]",
)

# functions whose result is (derived from) the cdr of their receiver
CDR_SOURCES = ("Cons::cdr", "Cons::cdr_mut")
PAIR_SOURCES = ("Cons::as_pair", "Cons::into_pair", "Value::as_pair")
CAR_KILLS = ("Cons::car", "Cons::car_mut")
TRANSPARENT = (
    "Value::as_cons", "Value::as_cons_mut", "Option::<T>::unwrap", "Option::<T>::expect", "Option::<T>::as_ref",
    "Option::<T>::as_mut", "Option::<T>::unwrap_or", "Deref::deref", "DerefMut::deref_mut", "AsRef::as_ref",
    "Borrow::borrow", "Deserializer::<'de>::from_value", "Try::branch", "Option::<T>::ok_or_else",
    "Option::<T>::ok_or", "Into::into", "From::from", "Clone::clone", "Ref::<'a>::new", "Option::<T>::map",
    "Box::<T>::new", "SpanInfo::cons_mut",
)


def name_has(names, suffixes):
    for n in names:
        for s in suffixes:
            if n.endswith(s):
                return True
    return False


def car_derived(fn, carlike=(), seed=()):
    """Locals that *must* hold (a wrapper of / a reference into) the car of a cell: every definition is a car
    accessor call, a call of a local car-like helper, a transparent adaptor applied to such a local, or a copy /
    reference / cast of one.  The cdr of such a cell is part of an *element* (one nesting level down), not the
    successor on the spine being walked."""
    defs = common.defs_of(fn)
    der = set(seed)
    changed = True

    def src_local(d):
        bi, si, x = d
        if si == "term":
            names = F.callee_names(x)
            if name_has(names, CAR_KILLS) or (x["callee"].get("resolved") or x["callee"].get("path")) in carlike:
                return True
            # a local helper that hands back (part of) its argument without following a cdr: `map_entry(cell.car())`
            if ("pass", x["callee"].get("resolved") or x["callee"].get("path")) in carlike and x["args"]:
                return common.place_local(x["args"][0]) in der
            if name_has(names, TRANSPARENT) and x["args"]:
                l = common.place_local(x["args"][0])
                return l in der
            return False
        k = x["k"]
        if k in ("use", "cast"):
            op = x["op"]
            return op.get("c") in ("copy", "move") and op["pl"]["l"] in der
        if k in ("ref", "rawptr"):
            return x["pl"]["l"] in der
        if k == "agg" and x.get("adt") in ("std::option::Option", "std::result::Result"):
            if x["adt"].endswith("Result") and x.get("variant") == 1:
                return True          # Err(..) carries no cell: it does not spoil "the Ok value is car-derived"
            if len(x["fields"]) == 0:
                return True          # None
            f0 = x["fields"][0]
            return f0.get("c") in ("copy", "move") and f0["pl"]["l"] in der     # Some(entry) / Ok(entry)
        return False

    while changed:
        changed = False
        for l, ds in defs.items():
            if l in der or not ds:
                continue
            if all(src_local(d) for d in ds):
                der.add(l)
                changed = True
    return der


def carlike_fns(crate):
    """Local helpers whose result is derived from the car of their argument only (e.g. `entry_pair(cell)` =
    `cell.car().as_cons().ok_or_else(..)`)."""
    like = set()
    # a helper that only ever returns `Err(..)` (`fn invalid<T>(..) -> Result<T>`) hands on no cell at all: as a source
    # of a value it is as harmless as an `Err` aggregate
    for f in crate.fns:
        if f.kind == "closure" or not f.local_ty(0).startswith("std::result::Result<"):
            continue
        aggs = [st["rv"] for b in f.blocks for st in b["stmts"] if st["k"] == "assign" and st["rv"]["k"] == "agg"
                and st["rv"].get("adt") == "std::result::Result"]
        ret_calls = [t for _bi, t in f.calls() if not t["dest"]["p"] and t["dest"]["l"] == 0]
        if aggs and all(a.get("variant") == 1 for a in aggs) and not ret_calls:
            like.add(f.path)
    for _ in range(4):
        new = set()
        for f in crate.fns:
            if f.kind == "closure" or f.path in like:
                continue
            if not any(name_has(F.callee_names(t), CAR_KILLS) or (t["callee"].get("resolved") or t["callee"].get("path")) in like
                       for _, t in f.calls()):
                continue
            if 0 in car_derived(f, like) and 0 not in cdr_taint(f, like):
                new.add(f.path)
        if not new:
            break
        like |= new
    # pass-through helpers: the result derives from the first parameter only, through transparent adaptors, and no
    # cdr is followed inside (`fn map_entry(entry: &Value) -> Result<&Cons> { entry.as_cons().ok_or_else(..) }`)
    for f in crate.fns:
        if f.kind == "closure" or f.path in like or f.arg_count < 1 or f.crate != crate.name:
            continue
        if not (f.local_ty(1).startswith("&") and ("Cons" in f.local_ty(0) or "Value" in f.local_ty(0))):
            continue
        if any(name_has(F.callee_names(t), CDR_SOURCES) or name_has(F.callee_names(t), PAIR_SOURCES) for _, t in f.calls()):
            continue
        if 0 in car_derived(f, like, seed=(1,)) and not cdr_taint(f, like):
            like.add(("pass", f.path))
    return like


def cdr_taint(fn, carlike=()):
    """Flow-insensitive: set of locals that may hold (a pointer to / a wrapper of) the
    cdr of a cons cell.  Returns (tainted locals, {local: receiver local of the cdr call})."""
    tainted = {}
    changed = True
    car_der = car_derived(fn, carlike)

    def op_taint(op):
        if op.get("c") in ("copy", "move"):
            l = op["pl"]["l"]
            if l in tainted:
                return tainted[l]
            # direct field path .inner .1
            if _is_cdr_place(fn, op["pl"]):
                return ("field", l)
        return None

    while changed:
        changed = False
        for bi, b in enumerate(fn.blocks):
            if b.get("cleanup"):
                continue
            for s in b["stmts"]:
                if s["k"] != "assign":
                    continue
                dst = s["place"]["l"]
                rv = s["rv"]
                src = None
                k = rv["k"]
                if k == "use":
                    src = op_taint(rv["op"])
                elif k in ("ref", "rawptr"):
                    l = rv["pl"]["l"]
                    if _is_cdr_place(fn, rv["pl"]):
                        src = ("field", l)
                    elif l in tainted and not _projects_car(rv["pl"]["p"], fn):
                        src = tainted[l]
                elif k == "cast":
                    src = op_taint(rv["op"])
                elif k == "agg":
                    for f in rv["fields"]:
                        src = src or op_taint(f)
                if src is not None and dst not in tainted:
                    tainted[dst] = src
                    changed = True
            t = b["term"]
            if t["k"] == "call" and not t["dest"]["p"]:
                dst = t["dest"]["l"]
                names = F.callee_names(t)
                src = None
                if name_has(names, CAR_KILLS):
                    src = None
                elif name_has(names, CDR_SOURCES) or name_has(names, PAIR_SOURCES):
                    recv = common.place_local(t["args"][0]) if t["args"] else None
                    # the cdr of an element cell (reached through a car) is payload, not the spine's successor
                    src = None if recv in car_der else ("call", recv, bi)
                elif name_has(names, TRANSPARENT):
                    for a in t["args"][:1]:
                        src = op_taint(a)
                if src is not None and dst not in tainted:
                    tainted[dst] = src
                    changed = True
    return tainted


def param_flow(fn, params, carlike=()):
    """Locals of fn that may hold (a reference into / a wrapper of) one of the parameters `params` reached *without*
    stepping into a car: what the function could pass on along the spine.  A projection or accessor that selects
    the car (`.0` of the pair, `[0]` of the span pair, Cons::car, a car-like helper) ends the flow; any other
    assignment, projection or call carries it."""
    tainted = set(params)
    changed = True
    while changed:
        changed = False
        for b in fn.blocks:
            if b.get("cleanup"):
                continue
            for st in b["stmts"]:
                if st["k"] != "assign":
                    continue
                dst = st["place"]["l"]
                if dst in tainted:
                    continue
                rv = st["rv"]
                src = False
                k = rv["k"]
                ops = []
                if k in ("use", "cast"):
                    ops = [rv["op"]]
                elif k == "agg":
                    ops = rv["fields"]
                elif k in ("ref", "rawptr", "discr"):
                    pl = rv["pl"]
                    src = pl["l"] in tainted and not _projects_car(pl["p"], fn) and k != "discr"
                for op in ops:
                    if op.get("c") in ("copy", "move") and op["pl"]["l"] in tainted and not _projects_car(op["pl"]["p"], fn):
                        src = True
                if src:
                    tainted.add(dst)
                    changed = True
            t = b["term"]
            if t["k"] == "call" and not t["dest"]["p"] and t["dest"]["l"] not in tainted:
                names = F.callee_names(t)
                if name_has(names, CAR_KILLS) or (t["callee"].get("resolved") or t["callee"].get("path")) in carlike:
                    continue
                if any(common.place_local(a) in tainted for a in t["args"] if common.place_local(a) is not None):
                    tainted.add(t["dest"]["l"])
                    changed = True
    return tainted


PAIR_TYPES = ("(value::Value, value::Value)", "(lexpr::Value, lexpr::Value)")
META_TYPES = ("[datum::SpanInfo; 2]", "[lexpr::datum::SpanInfo; 2]")


def _is_cdr_place(fn, pl):
    """Type-aware: the second component of the (car, cdr) pair / the [car_info, cdr_info] array, however
    the Box around it was dereferenced (rustc lowers Box derefs into raw-pointer locals)."""
    if _is_cdr_field_path(pl["p"]):
        return True
    ty = fn.local_ty(pl["l"])
    for e in pl["p"]:
        if not isinstance(e, dict):
            continue
        if any(t in ty for t in META_TYPES) and (e.get("ci") == 1 and not e.get("fe")):
            return True
        # `meta[1]` through a Box is an Index projection by a local holding the constant; an index that is not
        # known to be 0 may select the cdr's entry
        if any(t in ty for t in META_TYPES) and "i" in e and _const_index(fn, e["i"]) != 0:
            return True
        if any(t in ty for t in PAIR_TYPES) and e.get("f") == 1 and e.get("n") in (None, "1") and "adt" not in e:
            return True
    return False


def _const_index(fn, l):
    """The constant a local used as an array index holds (single definition `const n`), else None."""
    ds = common.defs_of(fn).get(l, [])
    if len(ds) == 1 and ds[0][1] != "term":
        d = ds[0][2]
        if d["k"] == "use":
            return common.const_int(d["op"])
    return None


def _is_cdr_field_path(ps):
    """`.inner` (Cons) then deref then `.1`, or SpanInfo::Cons payload then [1]."""
    names = []
    for e in ps:
        if isinstance(e, dict) and "f" in e:
            names.append((e.get("adt", ""), e.get("n"), e["f"]))
        elif isinstance(e, dict) and "ci" in e:
            names.append(("[]", None, e["ci"]))
    for i, (adt, n, f) in enumerate(names):
        if n == "inner" and adt.endswith("Cons"):
            for (a2, n2, f2) in names[i + 1:]:
                if f2 == 1 and n2 in (None, "1"):
                    return True
                break
        if adt.endswith("SpanInfo") and f == 1:
            for (a2, n2, f2) in names[i + 1:]:
                if a2 == "[]" and f2 == 1:
                    return True
    return False


def _projects_car(ps, fn=None):
    for e in ps:
        # `[0]` of the [car_info, cdr_info] array (or any element of an array / slice): an element, not the successor
        if isinstance(e, dict) and e.get("ci") == 0 and not e.get("fe"):
            return True
        if isinstance(e, dict) and "i" in e and fn is not None and _const_index(fn, e["i"]) == 0:
            return True
        # the payload of a vector variant (Value::Vector / SpanInfo::Vec): elements, one nesting level down
        if isinstance(e, dict) and "d" in e and e.get("n") in ("Vec", "Vector"):
            return True
        # `.0` of the (car, cdr) tuple - not the payload field `.0` of an enum variant such as Value::Cons(cell)
        if isinstance(e, dict) and e.get("f") == 0 and e.get("n") in ("0",) and "adt" not in e:
            return True
    return False


def tail_guarded(fn, bi, arg_local, tainted, cons_variant=None):
    """Is the call block dominated by the non-Cons edge of a discriminant switch on a cdr value
    obtained from the same receiver?"""
    src = tainted.get(arg_local)
    # find the receiver of the cdr call feeding this argument
    recv = _root_recv(fn, arg_local, tainted)
    if recv is None:
        return False
    idom = cfg.dominators(fn)
    for si, b in enumerate(fn.blocks):
        t = b["term"]
        if t["k"] != "switch" or b.get("cleanup"):
            continue
        op = t["op"]
        if op.get("c") not in ("copy", "move") or op["pl"]["p"]:
            continue
        dl = op["pl"]["l"]
        # discriminant of which place?
        dsrc = None
        for s in b["stmts"]:
            if s["k"] == "assign" and s["place"]["l"] == dl and not s["place"]["p"] and s["rv"]["k"] == "discr":
                dsrc = s["rv"]
        if dsrc is None:
            continue
        adt_name = dsrc.get("adt", "").rsplit("::", 1)[-1]
        if adt_name not in ("Value", "SpanInfo"):
            continue
        pl = dsrc["pl"]
        if pl["l"] not in tainted:
            continue
        if _root_recv(fn, pl["l"], tainted) != recv:
            continue
        explicit = {v: tg for v, tg in t["targets"]}
        # the Cons variant (index 9 in Value) must be routed away from the call
        cons_idx = (cons_variant or {}).get(adt_name, 9 if adt_name == "Value" else 1)
        succs = set(explicit.values()) | {t["otherwise"]}
        for sdom in succs:
            # edge dominance: the successor is entered only from this switch
            if cfg.dominates(idom, sdom, bi) and all(p == si for p in fn.pred_map()[sdom]):
                if cons_idx in explicit and explicit[cons_idx] != sdom:
                    return True
        # the same test through a boolean (`if !matches!(cell.cdr(), Value::Null | Value::Cons(_)) { recurse }`): the
        # switch dominates the call and no consistent path leads from its Cons edge to the call
        if cons_idx in explicit and cfg.dominates(idom, si, bi) and si != bi:
            from . import progress
            # (re-entering the switch, e.g. in the next iteration of a loop over the cells, is a new test)
            if not progress.feasible_path(fn, explicit[cons_idx], bi, avoid=(si,)):
                return True
    return False


def _root_recv(fn, l, tainted):
    seen = set()
    src = tainted.get(l)
    while src is not None and l not in seen:
        seen.add(l)
        if src[0] == "call":
            return _copy_root(fn, src[1])
        if src[0] == "field":
            return _copy_root(fn, src[1])
        break
    # follow def chain
    defs = common.defs_of(fn)
    cur = l
    for _ in range(12):
        src = tainted.get(cur)
        if src is None:
            return None
        if src[0] in ("call", "field") and src[1] is not None:
            return _copy_root(fn, src[1])
        return None
    return None


def _copy_root(fn, l):
    if l is None:
        return None
    defs = common.defs_of(fn)
    for _ in range(10):
        ds = defs.get(l, [])
        if len(ds) != 1 or ds[0][1] == "term":
            return l
        rv = ds[0][2]
        if rv["k"] == "use" and rv["op"].get("c") in ("copy", "move") and not rv["op"]["pl"]["p"]:
            l = rv["op"]["pl"]["l"]
            continue
        if rv["k"] == "ref" and rv["pl"]["p"] == ["*"]:
            l = rv["pl"]["l"]
            continue
        return l
    return l


DETACH = ("::take", "mem::replace", "mem::take", "mem::swap")


def _detaches(crate, t, depth=0):
    """A call that takes the rest of the chain out of its owner: take / mem::replace / mem::take / mem::swap, or a
    local helper that does so (`self.take_cdr()`)."""
    names = F.callee_names(t)
    if name_has(names, DETACH):
        return True
    if crate is None or depth > 2:
        return False
    c = t["callee"]
    g = crate.fn(c.get("resolved") or c.get("path") or "") if c.get("resolved_crate", c.get("crate")) == crate.name else None
    if g is None or cfg.natural_loops(g):
        return False
    return any(_detaches(crate, t2, depth + 1) for _bi, t2 in g.calls())


def manual_drop_conforms(fn, crate=None):
    """A manual Drop for a spine type must be iterative: it has a loop and detaches the
    rest of the chain (take / mem::replace / mem::take) inside it, and does not call itself."""
    loops = cfg.natural_loops(fn)
    if not loops:
        return False, "no loop"
    body = set().union(*loops.values())
    detaches = False
    for bi in body:
        t = fn.blocks[bi]["term"]
        if t["k"] == "call":
            if _detaches(crate, t):
                detaches = True
    if not detaches:
        return False, "loop does not detach the rest of the chain (no take/mem::replace/mem::take/swap)"
    # Skipping the detaching code is only sound when the decision looks at the chain itself (`_ => return` when the
    # cdr is not a cons): a branch on anything else (a flag, thread::panicking(), a length) that lets one side
    # return without detaching leaves the whole chain to the recursive drop glue.
    D = set()
    for bi, b in enumerate(fn.blocks):
        t = b["term"]
        if t["k"] == "call" and not fn.is_cleanup(bi) and _detaches(crate, t):
            D.add(bi)
    rets = [bi for bi, b in enumerate(fn.blocks) if b["term"]["k"] == "return" and not fn.is_cleanup(bi)]
    # blocks from which `return` can be reached without executing a detaching block
    preds = fn.pred_map()
    avoid = set()
    work = [r for r in rets if r not in D]
    while work:
        x = work.pop()
        if x in avoid:
            continue
        avoid.add(x)
        for p in preds[x]:
            if p not in D and not fn.is_cleanup(p):
                work.append(p)
    defs = common.defs_of(fn)
    for bi in cfg.reachable(fn, 0):
        b = fn.blocks[bi]
        t = b["term"]
        if t["k"] != "switch" or fn.is_cleanup(bi):
            continue
        succ = [x for x in set(fn.succs(bi)) if not fn.is_cleanup(x)]
        kinds = {x in avoid for x in succ}
        if len(kinds) < 2:
            continue
        if not _shape_switch(fn, defs, bi, set()):
            return False, ("the branch at line %s decides whether the chain is detached, but does not look at the "
                           "chain: on one side drop returns with the tail still attached" % t.get("line"))
    return True, "iterative: loop detaching the tail with take/replace; it is skipped only on tests of the chain's shape"


def _shape_switch(fn, defs, bi, stack):
    """The switch in block bi tests the shape of the chain: its operand is computed from `self` only, or it is a
    boolean temporary (`matches!`, `&&`) assigned constants in blocks that are themselves reached only through
    shape tests."""
    if bi in stack:
        return True
    stack = stack | {bi}
    op = fn.blocks[bi]["term"]["op"]
    if _derives_from_self(fn, defs, op, set()):
        return True
    if op.get("c") not in ("copy", "move") or op["pl"]["p"]:
        return False
    ds = defs.get(op["pl"]["l"], [])
    # `let long_chain = matches!(..); if !long_chain { return }`: a copy or the negation of a shape test is a shape test
    for _ in range(4):
        nxt = None
        if len(ds) == 1 and ds[0][1] != "term":
            d = ds[0][2]
            if d["k"] == "un" and d.get("op") == "Not" and d["a"].get("c") in ("copy", "move") and not d["a"]["pl"]["p"]:
                nxt = d["a"]
            elif d["k"] == "use" and d["op"].get("c") in ("copy", "move") and not d["op"]["pl"]["p"]:
                nxt = d["op"]
        if nxt is not None:
            op = nxt
            if _derives_from_self(fn, defs, op, set()):
                return True
            ds = defs.get(op["pl"]["l"], [])
        else:
            break
    if not ds or not all(si != "term" and d["k"] == "use" and d["op"].get("c") == "const" for (_b, si, d) in ds):
        return False
    def_blocks = {b for (b, _si, _d) in ds}
    for x in cfg.reachable(fn, 0):
        if x == bi or fn.is_cleanup(x) or fn.blocks[x]["term"]["k"] != "switch":
            continue
        if cfg.reachable(fn, x) & def_blocks:
            if not _shape_switch(fn, defs, x, stack):
                return False
    return True


def _derives_from_self(fn, defs, op, seen):
    """Is the operand computed from `self` only (discriminants, fields, accessor calls on it)?"""
    if op.get("c") not in ("copy", "move"):
        return False
    l = op["pl"]["l"]
    if l == 1:
        return True
    if l in seen:
        return True
    seen.add(l)
    ds = defs.get(l, [])
    if not ds:
        return False
    for (_b, si, d) in ds:
        if si == "term":
            if d.get("k") != "call" or not d["args"]:
                return False
            # the shape of the *element* (reached through the car) says nothing about the chain that hangs off the cdr
            if name_has(F.callee_names(d), CAR_KILLS):
                return False
            if not _derives_from_self(fn, defs, d["args"][0], seen):
                return False
            continue
        k = d["k"]
        if k in ("use", "cast"):
            if d["op"].get("c") in ("copy", "move") and _projects_car(d["op"]["pl"]["p"], fn):
                return False
            if not _derives_from_self(fn, defs, d["op"], seen):
                return False
        elif k in ("ref", "rawptr", "discr"):
            if _projects_car(d["pl"]["p"], fn):
                return False
            if not _derives_from_self(fn, defs, {"c": "copy", "pl": {"l": d["pl"]["l"], "p": []}}, seen):
                return False
        else:
            return False
    return True
