"""The slice reader's cursor invariant: SliceRead.index <= SliceRead.slice.len().

Several slicing expressions of the slice reader (`&self.slice[self.index..]`) cannot go out of range *because* the
cursor never runs past the end of its slice.  That is an invariant of the type, established here by induction over
every store to the cursor in the crate: each one must be

  - the constant 0 (construction),
  - the slice's own length,
  - cursor + 1 where the cursor is known to be below the length at that point: under a dominating `index < len`
    test, after a dominating bounds-checked `slice[index]`, on the Some edge of a `&self` helper that answers Some
    only below the length (peek_byte), or inside Read::discard, whose callers are held to "only right after a peek
    that returned a byte" by R-DISCARD-AFTER-PEEK,
  - start + n where start is the cursor's value and n a position found in (or the length of) `slice[start..]`,

with no other store to the cursor in between.  If every store conforms, a slicing `self.slice[self.index..]` is in
range.  If one does not, nothing is discharged and the ordinary reviewed-inventory rule applies.
"""
from . import cfg, common

SR = "parse::read::SliceRead"


class Inv:
    def __init__(self, crate):
        self.crate = crate
        self.ok = False
        self.problems = []
        self.reasons = []
        self.stores = 0
        a = crate.adts.get(SR)
        if not a:
            self.problems.append("no SliceRead")
            return
        fs = a["variants"][0]["fields"]
        sl = [f["name"] for f in fs if "[u8]" in f["ty"]]
        ix = [f["name"] for f in fs if f["ty"] == "usize"]
        if len(sl) != 1 or len(ix) != 1:
            self.problems.append("SliceRead is not (slice, index)")
            return
        self.slice_f, self.index_f = sl[0], ix[0]
        self.some_helpers = set()
        self._summaries()
        self._check()
        self.ok = not self.problems and self.stores > 0

    # ------------------------------------------------------------------ places
    def is_idx(self, pl):
        p = pl["p"]
        return bool(p) and isinstance(p[-1], dict) and p[-1].get("n") == self.index_f and (p[-1].get("adt") or "").endswith("SliceRead")

    def is_slice(self, pl):
        p = [e for e in pl["p"] if e != "*"]
        return bool(p) and isinstance(p[-1], dict) and p[-1].get("n") == self.slice_f and (p[-1].get("adt") or "").endswith("SliceRead")

    def reads_idx(self, fn, defs, op, depth=0):
        """Operand is (a copy of) the cursor field."""
        if depth > 4 or op.get("c") not in ("copy", "move"):
            return False
        if self.is_idx(op["pl"]):
            return True
        if op["pl"]["p"]:
            return False
        ds = defs.get(op["pl"]["l"], [])
        return len(ds) == 1 and ds[0][1] != "term" and ds[0][2]["k"] == "use" and self.reads_idx(fn, defs, ds[0][2]["op"], depth + 1)

    def is_len(self, fn, defs, op, depth=0):
        """Operand is the length of the slice field."""
        if depth > 4 or op.get("c") not in ("copy", "move") or op["pl"]["p"]:
            return False
        ds = defs.get(op["pl"]["l"], [])
        if len(ds) != 1:
            return False
        _b, si, d = ds[0]
        if si == "term":
            p = d["callee"].get("path", "")
            return p.endswith("<impl [T]>::len") and self._slice_op(fn, defs, d["args"][0])
        if d["k"] == "un" and d["op"] == "PtrMetadata":
            return self._slice_op(fn, defs, d["a"])
        if d["k"] == "use":
            return self.is_len(fn, defs, d["op"], depth + 1)
        return False

    def _slice_op(self, fn, defs, op, depth=0):
        if depth > 4 or op.get("c") not in ("copy", "move"):
            return False
        if self.is_slice(op["pl"]):
            return True
        if op["pl"]["p"] and op["pl"]["p"] != ["*"]:
            return False
        ds = defs.get(op["pl"]["l"], [])
        if len(ds) != 1 or ds[0][1] == "term":
            return False
        d = ds[0][2]
        if d["k"] == "use":
            return self._slice_op(fn, defs, d["op"], depth + 1)
        if d["k"] in ("ref", "rawptr"):
            return self.is_slice(d["pl"]) or self._slice_op(fn, defs, {"c": "copy", "pl": {"l": d["pl"]["l"], "p": []}}, depth + 1) \
                if d["pl"]["p"] in ([], ["*"]) or self.is_slice(d["pl"]) else False
        return False

    def idx_stores(self, fn):
        out = []
        for bi, b in enumerate(fn.blocks):
            if b.get("cleanup"):
                continue
            for si, st in enumerate(b["stmts"]):
                if st["k"] == "assign" and self.is_idx(st["place"]):
                    out.append((bi, si, st))
        return out

    # ------------------------------------------------------------------ "index < len" facts
    def below_len_blocks(self, fn, defs, pr=None):
        """Blocks entered only with `index < len` established: the true edge of such a comparison, the success edge
        of a bounds check of slice[index], the Some edge of a helper that answers Some only below the length."""
        out = set()
        preds = (pr or fn).pred_map()
        for bi, b in enumerate(fn.blocks):
            if b.get("cleanup"):
                continue
            t = b["term"]
            if t["k"] == "assert" and t.get("msg") == "BoundsCheck" and len(t.get("ops", [])) == 2:
                ln, ix = t["ops"]
                if self.is_len(fn, defs, ln) and self.reads_idx(fn, defs, ix):
                    out.add(t["t"])
            if t["k"] != "switch":
                continue
            op = t["op"]
            if op.get("c") not in ("copy", "move") or op["pl"]["p"]:
                continue
            ds = defs.get(op["pl"]["l"], [])
            if len(ds) != 1:
                continue
            _db, si, d = ds[0]
            tt = ff = t["otherwise"]
            for v, tg in t["targets"]:
                if v == 1:
                    tt = tg
                if v == 0:
                    ff = tg
            if si != "term" and d["k"] == "bin" and d["op"] in ("Lt", "Gt", "Ge", "Le"):
                a, c = (d["a"], d["b"]) if d["op"] in ("Lt", "Ge") else (d["b"], d["a"])
                if self.reads_idx(fn, defs, a) and self.is_len(fn, defs, c) and tt != ff:
                    edge = tt if d["op"] in ("Lt", "Gt") else ff
                    if all(p == bi for p in preds[edge]):
                        out.add(edge)
            if si != "term" and d["k"] == "discr":
                # discriminant of an Option returned by a below-length helper
                src = d["pl"]
                if not src["p"]:
                    sd = defs.get(src["l"], [])
                    if len(sd) == 1 and sd[0][1] == "term":
                        c = sd[0][2]["callee"]
                        if (c.get("resolved") or c.get("path")) in self.some_helpers:
                            explicit = {v: tg for v, tg in t["targets"]}
                            some_t = explicit.get(1, t["otherwise"] if 0 in explicit else None)
                            if some_t is not None and some_t != explicit.get(0) and all(p == bi for p in preds[some_t]):
                                out.add(some_t)
        return out

    def _summaries(self):
        """&self helpers of SliceRead returning an Option that is Some only below the length (peek_byte)."""
        for f in self.crate.fns:
            if not (f.self_ty or "").startswith(SR) or f.kind == "closure" or self.idx_stores(f):
                continue
            if not f.local_ty(0).startswith("std::option::Option<"):
                continue
            defs = common.defs_of(f)
            facts = self.below_len_blocks(f, defs)
            idom = cfg.dominators(_Pruned(self.crate, f, defs))
            somes = []
            for bi, b in enumerate(f.blocks):
                for st in b["stmts"]:
                    if st["k"] == "assign" and st["place"]["l"] == 0 and st["rv"]["k"] == "agg" and st["rv"].get("vname") == "Some":
                        somes.append(bi)
                    elif st["k"] == "assign" and st["place"]["l"] == 0 and not st["place"]["p"] and st["rv"]["k"] != "agg":
                        somes.append(None)      # the result comes from somewhere else: not summarised
                t = b["term"]
                if t["k"] == "call" and t["dest"]["l"] == 0:
                    somes.append(None)
            if somes and None not in somes and all(any(cfg.dominates(idom, fb, bi) for fb in facts) for bi in somes):
                self.some_helpers.add(f.path)

    # ------------------------------------------------------------------ the induction
    def _clean_between(self, fn, pr, frm, to_block, to_stmt):
        """No other store to the cursor, and no call that could move it, on any way from block `frm` to the store."""
        region = cfg.reachable(pr, frm, avoid=[to_block]) | {to_block}
        back = set()
        work = [to_block]
        preds = pr.pred_map()
        while work:
            x = work.pop()
            if x in back:
                continue
            back.add(x)
            if x == frm:
                continue        # a way that comes round to the fact's block again re-establishes the fact there
            work.extend(p for p in preds[x] if p in region)
        for x in back:
            b = fn.blocks[x]
            for si, st in enumerate(b["stmts"]):
                if st["k"] == "assign" and self.is_idx(st["place"]) and not (x == to_block and si >= to_stmt):
                    return False
            t = b["term"]
            if t["k"] == "call" and x != to_block:
                c = t["callee"]
                g = self.crate.fn(c.get("resolved") or c.get("path") or "")
                if any(ty.startswith("&mut " + SR) or ty.startswith("&mut Self") for ty in t.get("arg_tys", [])):
                    if g is None or self.idx_stores(g):
                        return False
        return True

    def _check(self):
        for f in self.crate.fns:
            stores = self.idx_stores(f)
            aggs = [(bi, st) for bi, b in enumerate(f.blocks) if not b.get("cleanup") for st in b["stmts"]
                    if st["k"] == "assign" and st["rv"]["k"] == "agg" and st["rv"].get("adt") == SR]
            for bi, st in aggs:
                self.stores += 1
                fields = self.crate.adts[SR]["variants"][0]["fields"]
                k = [i for i, fl in enumerate(fields) if fl["name"] == self.index_f][0]
                if common.const_int(st["rv"]["fields"][k]) != 0:
                    self.problems.append("%s constructs a SliceRead with a cursor that is not 0" % f.path)
            if not stores:
                continue
            defs = common.defs_of(f)
            pr = _Pruned(self.crate, f, defs)
            idom = cfg.dominators(pr)
            facts = self.below_len_blocks(f, defs, pr)
            is_discard = f.impl_trait == "parse::read::Read" and f.path.endswith("::discard")
            for bi, si, st in stores:
                self.stores += 1
                why = self._value_ok(f, defs, pr, idom, facts, is_discard, st["rv"], bi, si, stores)
                if why is None:
                    self.problems.append("%s line %s: a store to the cursor that is not one of the accepted forms" % (f.path, st.get("line")))
                else:
                    self.reasons.append((f.path, st.get("line"), why))
        for f in self.crate.fns:
            for bi, b in enumerate(f.blocks):
                for st in b["stmts"]:
                    if st["k"] == "assign" and self.is_slice(st["place"]) and "*" not in st["place"]["p"][-1:]:
                        self.problems.append("%s line %s: the slice field is reassigned" % (f.path, st.get("line")))

    def _value_ok(self, f, defs, pr, idom, facts, is_discard, rv, bi, si, stores, depth=0):
        """Is the value `rv`, computed at (bi, si) and stored to the cursor, at most the slice's length?"""
        if rv["k"] == "use" and common.const_int(rv["op"]) == 0:
            return "zero"
        if rv["k"] == "use" and self.is_len(f, defs, rv["op"]):
            return "the slice's length"
        add = None
        if rv["k"] == "bin" and rv["op"] in ("Add", "AddUnchecked"):
            add = rv
        elif rv["k"] == "use" and rv["op"].get("c") in ("copy", "move") and len(rv["op"]["pl"]["p"]) == 1 \
                and isinstance(rv["op"]["pl"]["p"][0], dict) and rv["op"]["pl"]["p"][0].get("f") == 0:
            ds = defs.get(rv["op"]["pl"]["l"], [])
            if len(ds) == 1 and ds[0][1] != "term" and ds[0][2]["k"] == "bin" and ds[0][2]["op"] == "AddWithOverflow":
                add = ds[0][2]
        if add is not None and self.reads_idx(f, defs, add["a"]):
            k = common.const_int(add["b"])
            if k == 1:
                if is_discard:
                    return "Read::discard (callers held to peek-then-discard by R-DISCARD-AFTER-PEEK)"
                for fb in facts:
                    if cfg.dominates(idom, fb, bi) and self._clean_between(f, pr, fb, bi, si):
                        return "index < len established at block %d" % fb
                return None
            if k is None:
                start = self._found_in_rest(f, defs, add["b"])
                ab = self._block_of(f, add)
                if start is not None and ab is not None and self._same_read(f, defs, pr, start, add["a"], ab, bi, si):
                    return "a position found in slice[index..]"
            return None
        if rv["k"] == "use" and rv["op"].get("c") in ("copy", "move") and not rv["op"]["pl"]["p"] and depth < 3:
            # a temporary assigned on several arms (`self.index = match .. { Some(n) => start + n, None => len }`)
            ds = defs.get(rv["op"]["pl"]["l"], [])
            if ds:
                whys = []
                for d in ds:
                    if d[1] == "term":
                        ok = d[2]["callee"].get("path", "").endswith("<impl [T]>::len") and self._slice_op(f, defs, d[2]["args"][0])
                        whys.append("the slice's length" if ok else None)
                    else:
                        whys.append(self._value_ok(f, defs, pr, idom, facts, is_discard, d[2], d[0], d[1], stores, depth + 1))
                if all(whys):
                    return " / ".join(sorted(set(whys)))
        return None

    def _read_block(self, fn, defs, op, use_block, depth=0):
        """(block, statement) where the cursor value in `op` was read from the field; a direct read happens at its use."""
        if self.is_idx(op["pl"]) or depth > 5:
            return (use_block, None)
        d = defs.get(op["pl"]["l"], [])[0]
        if self.is_idx(d[2]["op"]["pl"]):
            return (d[0], d[1])
        return self._read_block(fn, defs, d[2]["op"], d[0], depth + 1)

    def _block_of(self, fn, rv):
        for bi, b in enumerate(fn.blocks):
            for st in b["stmts"]:
                if st["k"] == "assign" and st["rv"] is rv:
                    return bi
        return None

    def _same_read(self, fn, defs, pr, start, add_a, add_block, bi, si):
        """Both operands hold the same cursor value: one read of the field, or no store to it from the first read on."""
        start_op, start_block = start
        if start_block is None:
            return False
        ra = self._read_block(fn, defs, start_op, start_block)
        rb = self._read_block(fn, defs, add_a, add_block)
        if ra[1] is not None and ra == rb:
            return True
        return self._clean_between(fn, pr, ra[0], bi, si)

    def _found_in_rest(self, fn, defs, op, depth=0):
        """n <= len - start: a position()/unwrap_or(len) over `self.slice[start..]`; gives the operand `start`
        (a value of the cursor) and the block it is used in, or None."""
        if depth > 5 or op.get("c") not in ("copy", "move"):
            return None
        pl = op["pl"]
        if pl["p"]:
            if len(pl["p"]) == 2 and isinstance(pl["p"][0], dict) and pl["p"][0].get("n") == "Some":
                return self._pos_over_rest(fn, defs, {"c": "copy", "pl": {"l": pl["l"], "p": []}})
            return None
        ds = defs.get(pl["l"], [])
        if len(ds) != 1:
            return None
        _b, si, d = ds[0]
        if si == "term":
            p = d["callee"].get("path", "")
            if p == "std::option::Option::<T>::unwrap_or" and len(d["args"]) == 2:
                a = self._pos_over_rest(fn, defs, d["args"][0])
                b = self._len_of_rest(fn, defs, d["args"][1])
                if a is not None and b is not None:
                    ra, rb = self._read_block(fn, defs, *a), self._read_block(fn, defs, *b)
                    if ra[1] is not None and ra == rb:
                        return a
            return None
        if d["k"] == "use":
            return self._found_in_rest(fn, defs, d["op"], depth + 1)
        return None

    def _rest_slice(self, fn, defs, op, depth=0):
        """op is `&self.slice[start..]` (RangeFrom whose start reads the cursor); gives the start operand or None."""
        if depth > 5:
            return None
        o = common.origin(fn, defs, op)
        if o["k"] == "call" and o["t"]["callee"].get("trait") == "std::ops::Index" and len(o["t"]["args"]) == 2:
            t = o["t"]
            if not self._slice_op(fn, defs, t["args"][0]):
                return None
            rg = common.origin(fn, defs, t["args"][1])
            if rg["k"] == "agg" and rg["rv"].get("adt") == "std::ops::RangeFrom" and rg["rv"]["fields"] \
                    and self.reads_idx(fn, defs, rg["rv"]["fields"][0]):
                return (rg["rv"]["fields"][0], self._block_of(fn, rg["rv"]))
        return None

    def _pos_over_rest(self, fn, defs, op):
        o = common.origin(fn, defs, op)
        if o["k"] != "call" or o["t"]["callee"].get("path") not in ("std::iter::Iterator::position",):
            return None
        it = common.origin(fn, defs, o["t"]["args"][0])
        for _ in range(3):
            if it["k"] == "call" and it["t"]["callee"].get("path", "").endswith("<impl [T]>::iter"):
                return self._rest_slice(fn, defs, it["t"]["args"][0])
            if it["k"] == "place":
                it = common.origin(fn, defs, {"c": "copy", "pl": {"l": it["pl"]["l"], "p": []}})
                continue
            break
        return None

    def _len_of_rest(self, fn, defs, op):
        o = common.origin(fn, defs, op)
        if o["k"] == "call" and o["t"]["callee"].get("path", "").endswith("<impl [T]>::len"):
            return self._rest_slice(fn, defs, o["t"]["args"][0])
        if o["k"] == "other" and o["rv"] and o["rv"].get("k") == "un" and o["rv"].get("op") == "PtrMetadata":
            return self._rest_slice(fn, defs, o["rv"]["a"])
        return None


class _Pruned:
    """A function's CFG without the edges that cannot be taken: the `otherwise` edge of a switch over the
    discriminant of an enum all of whose variants have an explicit target (rustc points it at the `_` arm)."""

    def __init__(self, crate, fn, defs):
        self.blocks = fn.blocks
        self._succ = []
        for bi in range(len(fn.blocks)):
            ss = list(fn.succ_map()[bi])
            t = fn.blocks[bi]["term"]
            if t["k"] == "switch" and t["otherwise"] in ss and t["otherwise"] not in [x[1] for x in t["targets"]]:
                n = _variant_count(crate, fn, defs, t["op"])
                if n is not None and {v for v, _ in t["targets"]} >= set(range(n)):
                    ss.remove(t["otherwise"])
            self._succ.append(ss)
        self._pred = [[] for _ in fn.blocks]
        for b, ss in enumerate(self._succ):
            for x in ss:
                self._pred[x].append(b)

    def succ_map(self):
        return self._succ

    def pred_map(self):
        return self._pred

    def succs(self, b, cleanup=False):
        return self._succ[b]


def _variant_count(crate, fn, defs, op):
    if op.get("c") not in ("copy", "move") or op["pl"]["p"]:
        return None
    ds = defs.get(op["pl"]["l"], [])
    if len(ds) != 1 or ds[0][1] == "term" or ds[0][2]["k"] != "discr":
        return None
    src = ds[0][2]["pl"]
    if src["p"]:
        return None
    ty = fn.local_ty(src["l"])
    if ty.startswith("std::option::Option<") or ty.startswith("std::result::Result<"):
        return 2
    a = crate.adts.get(ty.split("<")[0])
    if a and a.get("kind") == "enum" and all(v["idx"] == i for i, v in enumerate(a["variants"])):
        return len(a["variants"])
    return None


_CACHE = {}


def invariant(crate):
    if id(crate) not in _CACHE:
        _CACHE[id(crate)] = Inv(crate)
    return _CACHE[id(crate)]


def rest_slicing(crate, fn, it, defs):
    """Is the Index call of inventory item `it` a `self.slice[self.index..]` under a proven cursor invariant?"""
    inv = invariant(crate)
    if not inv.ok or not it["detail"].endswith("[std::ops::RangeFrom<usize>]"):
        return None
    t = fn.blocks[it["block"]]["term"]
    if t["k"] != "call" or len(t["args"]) != 2 or not inv._slice_op(fn, defs, t["args"][0]):
        return None
    rg = common.origin(fn, defs, t["args"][1])
    if rg["k"] == "agg" and rg["rv"].get("adt") == "std::ops::RangeFrom" and rg["rv"]["fields"] \
            and inv.reads_idx(fn, defs, rg["rv"]["fields"][0]):
        return "the cursor never passes the end of its slice (%d stores to it checked)" % inv.stores
    return None
