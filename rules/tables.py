"""Writer/reader table agreement (R-ESC-*, R-FOLLOW<=TERM, R-NUM-ALPHABET)."""
from . import classes, common, facts as F, lex, sim
from .sim import Adt, Bytes, Opq, UNK


def _ret_one(S, fn, args):
    ps = S.run(fn, args=args)
    rets = [p for p in ps if p.end == "return"]
    others = [p for p in ps if p.end not in ("return",)]
    return rets, others


def escape_writer(crate, reviewed_path):
    """The function that writes a CharEscape for one string syntax: the reviewed tree has one per syntax
    (`write_r6rs_char_escape`, `write_elisp_char_escape`); merged into one function with a syntax parameter it is found
    by signature (a writer, a CharEscape, one fieldless private / public enum) and given that syntax's variant.
    Returns (fn or None, {param index: value})."""
    f = crate.fn(reviewed_path)
    if f is not None:
        return f, {}
    want = "r6rs" if "r6rs" in reviewed_path else "elisp"
    for g in crate.fns:
        if g.kind not in ("fn", "assoc") or g.impl_trait or not g.file.endswith("print.rs"):
            continue
        tys = {i: g.local_ty(i) for i in range(1, g.arg_count + 1)}
        if "print::CharEscape" not in tys.values() or not any(t.startswith("&mut ") for t in tys.values()):
            continue
        for i, t in tys.items():
            a = crate.adts.get(t)
            if a and a.get("kind") == "enum" and all(not v["fields"] for v in a["variants"]):
                hit = [v for v in a["variants"] if v["name"].lower() == want]
                if len(hit) == 1:
                    return g, {i: Adt(t, hit[0]["idx"], [], hit[0]["name"])}
    return None, {}


def string_escape_text(crate, b, writer_fn_path):
    """Bytes the printer emits for byte `b` inside a string, or None if it is written raw.

    Composes ESCAPE[b] -> CharEscape::from_escape_table -> write_*_char_escape by constant
    propagation; returns ("raw", None) | ("esc", bytes) | ("error", reason)."""
    wr, wr_extra = escape_writer(crate, writer_fn_path)
    # the classifier byte -> CharEscape: a function of the printer (inherent to CharEscape or free) over u8 arguments,
    # either (table entry, byte) -> CharEscape with the table lookup at the call site, or byte -> Option<CharEscape>
    def bytelike(ty):
        # a u8, or a private newtype around one (`struct EscapeClass(u8)`)
        a = crate.adts.get(ty)
        return ty == "u8" or bool(a and a.get("kind") == "struct" and [x["ty"] for x in a["variants"][0]["fields"]] == ["u8"])

    def as_arg(ty, v):
        return v if ty == "u8" else Adt(ty, 0, [v])

    cands = [f for f in crate.fns if f.kind in ("assoc", "fn") and not f.impl_trait and f.file.endswith("print.rs")
             and 1 <= f.arg_count <= 2 and all(bytelike(f.local_ty(i)) for i in range(1, f.arg_count + 1))
             and f.local_ty(0) in ("print::CharEscape", "std::option::Option<print::CharEscape>")]
    if len(cands) != 1 or wr is None:
        return "error", "anchor missing: the byte classifier of print::CharEscape (%d candidates) / %s" % (len(cands), writer_fn_path)
    fet = cands[0]
    S = sim.Sim([crate], inline=lex.print_inline(crate))
    if fet.arg_count == 2:
        esc = crate.static_bytes("print::ESCAPE")
        if esc is None or len(esc) != 256:
            return "error", "print::ESCAPE missing"
        if esc[b] == 0:
            return "raw", None
        rets, others = _ret_one(S, fet, {1: as_arg(fet.local_ty(1), esc[b]), 2: as_arg(fet.local_ty(2), b)})
    else:
        rets, others = _ret_one(S, fet, {1: as_arg(fet.local_ty(1), b)})
    if len(rets) != 1 or not isinstance(rets[0].ret, Adt):
        return "error", "%s(0x%02X) does not yield one variant (%s)" % (fet.path, b, [p.end for p in others])
    if rets[0].ret.adt.endswith("Option"):
        if rets[0].ret.variant == 0:
            return "raw", None
        rets[0].ret = rets[0].ret.fields[0]
        if not isinstance(rets[0].ret, Adt):
            return "error", "%s(0x%02X) yields an unknown escape" % (fet.path, b)
    variant = rets[0].ret
    S2 = sim.Sim([crate], inline=lex.print_inline(crate))
    ce_i = [i for i in range(1, wr.arg_count + 1) if wr.local_ty(i) == "print::CharEscape"]
    wargs = dict(wr_extra)
    wargs[ce_i[0] if ce_i else 2] = variant
    rets2, _ = _ret_one(S2, wr, wargs)
    texts = set()
    for p in rets2:
        ws = p.calls("std::io::Write::write_all")
        if len(ws) != 1:
            return "error", "escape writer does not perform exactly one write_all"
        a = ws[0][6][1]
        if not isinstance(a, Bytes):
            return "error", "escape text is not constant"
        texts.add(bytes(a.b))
    if len(texts) != 1:
        return "error", "escape text not unique: %s" % texts
    return "esc", texts.pop()


def escape_letter_pushes(crate, reader_fn_path, letter, inline_extra=()):
    """What the reader's escape function does when the byte after the backslash is `letter`:
    returns ("push", [bytes...]) | ("calls", set(names)) | ("error", code) | ("other", desc)."""
    f = crate.fn(reader_fn_path)
    if f is None:
        return "missing", None
    S = lex.make_sim([crate], letter, more_inline=inline_extra)
    outs = set()
    for p in S.run(f):
        pushes = []
        calls = []
        for ev in p.events:
            if ev[0] == "call":
                nm = ev[1]
                if "std::vec::Vec::<T, A>::push" in nm:
                    v = ev[6][1] if len(ev[6]) > 1 else None
                    pushes.append(v if isinstance(v, int) else "?")
                elif any(n.startswith("parse::read::") and not n.startswith("parse::read::Read::") and
                         not n.endswith("::error") and not n.endswith("next_or_eof") and n not in lex.thin_wrappers(crate) for n in nm):
                    calls.append(sorted(n for n in nm if n.startswith("parse::read::"))[0])
        codes = lex.error_codes(p, crate)
        if codes:
            outs.add(("error", tuple(codes)))
        elif pushes and not calls:
            outs.add(("push", tuple(pushes)))
        elif calls:
            outs.add(("calls", tuple(calls)))
        else:
            outs.add(("other", p.end))
    if len(outs) != 1:
        return "inexact", outs
    return outs.pop()


def escape_text_pushes(crate, reader_fn_path, seq):
    """Bytes the reader's escape function appends to the scratch buffer when the input after the backslash is
    `seq` (followed by a closing quote): abstract evaluation with every local decoder / helper of read.rs looked
    through, so the result does not depend on how the decoding is split into functions.
    Returns ("push", bytes) | ("error", codes) | ("inexact", description)."""
    f = crate.fn(reader_fn_path)
    if f is None:
        return "missing", None
    inl = lambda a, b: b.crate == crate.name and b.file.endswith("parse/read.rs") and b.kind != "closure" and not (
        b.impl_trait == "parse::read::Read")
    S = sim.Sim([crate], hooks={"call": lex.seq_hook(list(seq) + [0x22])}, inline=inl, max_visits=10, max_paths=4000, max_depth=8)
    outs = set()
    try:
        paths = S.run(f)
    except sim.Limit:
        return "inexact", "path limit"
    for p in paths:
        if p.end != "return":
            outs.add(("other", str(p.end)))
            continue
        pushed = []
        for ev in p.events:
            if ev[0] != "call":
                continue
            if "std::vec::Vec::<T, A>::push" in ev[1]:
                v = ev[6][1] if len(ev[6]) > 1 else None
                pushed.append(v if isinstance(v, int) else None)
            elif "std::vec::Vec::<T, A>::extend_from_slice" in ev[1]:
                v = ev[6][1] if len(ev[6]) > 1 else None
                pushed.extend(list(v.b) if isinstance(v, Bytes) else [None])
        codes = lex.error_codes(p, crate)
        if codes:
            outs.add(("error", tuple(codes)))
        elif None in pushed:
            outs.add(("inexact", "a pushed byte is not constant"))
        else:
            outs.add(("push", bytes(pushed)))
    if len(outs) != 1:
        return "inexact", sorted(outs, key=repr)
    return outs.pop()


def hex_tables_inverse(crate, hex_digits_static):
    hd = crate.static_bytes(hex_digits_static)
    hx = crate.static_bytes("parse::read::HEX")
    if hd is None or hx is None or len(hd) != 16 or len(hx) != 256:
        return False, "HEX / %s missing" % hex_digits_static
    for i in range(16):
        if hx[hd[i]] != i:
            return False, "HEX[%s[%d]] = %d" % (hex_digits_static, i, hx[hd[i]])
    return True, "HEX inverts %s" % hex_digits_static


def decoder_shape(fn, shift):
    """The hex/octal accumulator `n = (n << shift) + digit`: a Shl by const `shift` whose result feeds an Add."""
    has_shl = False
    has_add = False
    for b in fn.blocks:
        for s in b["stmts"]:
            if s["k"] == "assign" and s["rv"]["k"] == "bin":
                rv = s["rv"]
                if rv["op"] in ("Shl", "ShlUnchecked") and common.const_int(rv["b"]) == shift:
                    has_shl = True
                if rv["op"].startswith("Add"):
                    has_add = True
    return has_shl and has_add


def printer_follow_bytes(crate, fn_paths):
    """Constant bytes written by the given separator/closer functions, under every option value (the options are
    symbolic, so a match on them forks over all variants; helpers such as `vector_syntax.closing()` are looked
    through)."""
    out = {}
    for fp in fn_paths:
        f = crate.fn(fp)
        if f is None:
            out[fp] = None
            continue
        bs = set()
        S = sim.Sim([crate], inline=lex.print_inline(crate), max_paths=2000)
        try:
            paths = S.run(f)
        except sim.Limit:
            out[fp] = {"?"}
            continue
        for p in paths:
            if p.end != "return":
                continue
            for ev in p.calls("std::io::Write::write_all"):
                a = ev[6][1] if len(ev[6]) > 1 else None
                if isinstance(a, Bytes):
                    bs |= set(a.b)
                else:
                    bs.add("?")
        out[fp] = bs
    return out
