"""Rename normalisation of the fact files.

Rules, reviewed tables and known-finding keys name private functions (`parse::Parser::<R>::parse_token`), their
parameters (`radix`), private types, their fields and variants by the names they have on the reviewed tree.
Renaming any of them changes no behaviour, so it must not change a verdict.  Instead of teaching every rule to
find every anchor by role, the fact files of a tree are brought back to the *reviewed vocabulary* right after the
driver wrote them:

  functions   a path of the reviewed tree that is gone is paired with a path that is new when both live in the
              same container (module / impl), have the same signature (kind, self type, trait, argument and
              return types) and the pairing is unique; among several candidates of one signature the bodies decide
              (callee multiset, block count), and only a strict best match is taken;
  parameters  a function with an unchanged signature gets the reviewed names of its parameters back;
  types       a type that is gone is paired with a new one of the same shape (same kind, same variant / field
              layout up to its own name) in the same module; fields and variants of a surviving type are paired
              by position and type.

The reviewed vocabulary is `tables/baseline_names.json` (written by tools/gen_baseline_names.py from /repo).  A new
name is rewritten wherever it occurs as an identifier in the fact files; that is only done when the new name is
*fresh* - it occurs nowhere in the reviewed facts - so no other entity can be hit.  A rename that is not fresh
(`parse_token` -> `next`) is applied to exact paths only.

Nothing is inferred about behaviour: the pairing only decides which function plays which role, every rule then
evaluates the paired function's own MIR.  A wrong pairing can therefore only produce an alarm, never hide one.
The pairs applied are written to `renames.json` next to the facts and quoted in every report.
"""
import json
import os
import re

HERE = os.path.dirname(os.path.abspath(__file__))
BASELINE = os.path.join(os.path.dirname(HERE), "tables", "baseline_names.json")
IDENT = re.compile(r"[A-Za-z_][A-Za-z0-9_]*")

_BASE = None


def baseline():
    global _BASE
    if _BASE is None:
        if os.path.exists(BASELINE):
            with open(BASELINE) as fh:
                _BASE = json.load(fh)
            _BASE["vocab"] = set(_BASE["vocab"])
            _BASE["vocab_mod"] = set(_BASE.get("vocab_mod", []))
        else:
            _BASE = {"fns": {}, "adts": {}, "vocab": set(), "vocab_mod": set()}
    return _BASE


# ------------------------------------------------------------------------------------------------ signatures
def fn_signature(fd):
    n = fd.get("arg_count", 0)
    tys = [fd["locals"][i]["ty"] for i in range(0, min(n + 1, len(fd["locals"])))]
    return "|".join([fd.get("kind") or "", fd.get("self_ty") or "", fd.get("impl_trait") or "", str(n)] + tys)


def fn_body_summary(fd):
    cs = []
    for b in fd["blocks"]:
        t = b["term"]
        if t["k"] == "call":
            cs.append((t["callee"].get("path") or "?").rsplit("::", 1)[-1])
    return {"blocks": len(fd["blocks"]), "callees": sorted(cs)}


def fn_params(fd):
    n = fd.get("arg_count", 0)
    return [fd["locals"][i].get("name") for i in range(1, min(n + 1, len(fd["locals"])))]


def container(path):
    return path.rsplit("::", 1)[0] if "::" in path else ""


def base_name(path):
    return path.rsplit("::", 1)[-1]


def _similar(a, b):
    """Multiset Jaccard of callee names, block count as a weak second component."""
    ca, cb = list(a["callees"]), list(b["callees"])
    inter = 0
    rest = list(cb)
    for x in ca:
        if x in rest:
            rest.remove(x)
            inter += 1
    union = len(ca) + len(cb) - inter
    j = inter / union if union else 1.0
    bl = 1.0 - abs(a["blocks"] - b["blocks"]) / float(max(a["blocks"], b["blocks"], 1))
    return 0.8 * j + 0.2 * bl


def adt_shape(name, a, own=None):
    """Layout of a type up to its own name."""
    own = own or name
    short = own.rsplit("::", 1)[-1]

    def ty(t):
        return re.sub(r"(?<![A-Za-z0-9_])%s(?![A-Za-z0-9_])" % re.escape(short), "Self", t.replace(own, "Self"))

    return json.dumps([a.get("kind"), [[len(v["fields"]), [ty(f["ty"]) for f in v["fields"]]] for v in a["variants"]]])


# ------------------------------------------------------------------------------------------------ pairing
def pair_fns(base_fns, cur_fns):
    """base_fns / cur_fns: {path: {"sig":.., "body":..}} (closures left out).  Returns {new path: reviewed path}."""
    missing = [p for p in base_fns if p not in cur_fns]
    new = [p for p in cur_fns if p not in base_fns]
    groups = {}
    for p in missing:
        groups.setdefault((container(p), base_fns[p]["sig"]), ([], []))[0].append(p)
    for p in new:
        k = (container(p), cur_fns[p]["sig"])
        if k in groups:
            groups[k][1].append(p)
    out = {}
    for (_k, (ms, ns)) in groups.items():
        if not ns:
            continue
        if len(ms) == 1 and len(ns) == 1:
            out[ns[0]] = ms[0]
            continue
        # several of one signature: bodies decide, strict best match both ways
        score = {(m, n): _similar(base_fns[m]["body"], cur_fns[n]["body"]) for m in ms for n in ns}
        for m in ms:
            best = sorted(ns, key=lambda n: -score[(m, n)])
            if len(best) > 1 and score[(m, best[0])] - score[(m, best[1])] < 0.15:
                continue
            n = best[0]
            back = sorted(ms, key=lambda x: -score[(x, n)])
            if back[0] != m or (len(back) > 1 and score[(back[0], n)] - score[(back[1], n)] < 0.15):
                continue
            if score[(m, n)] >= 0.5:
                out[n] = m
    # moved, not renamed: the same name and signature in another module (an inherent method in an `impl` block of a
    # child module, a free function moved to a sibling module)
    left_m = [p for p in missing if p not in out.values()]
    left_n = [p for p in new if p not in out]
    moved = {}
    for p in left_m:
        moved.setdefault((base_name(p), base_fns[p]["sig"]), ([], []))[0].append(p)
    for p in left_n:
        k = (base_name(p), cur_fns[p]["sig"])
        if k in moved:
            moved[k][1].append(p)
    for (ms, ns) in moved.values():
        if len(ms) == 1 and len(ns) == 1:
            out[ns[0]] = ms[0]
    # a free function over `R: Trait` turned into a provided method of a (private extension) trait, or back:
    # `m::f(read: &mut R, ..)` <-> `m::Ext::f(&mut self, ..)` - the same name, the same signature with `Self` for `R`
    left_m = [p for p in missing if p not in out.values()]
    left_n = [p for p in new if p not in out]

    def self_free(sig):
        parts = sig.split("|")
        return "|".join(["fn"] + parts[1:]) if parts and parts[0] in ("fn", "assoc") else sig

    def with_self(sig):
        # the first generic type name that occurs as `&mut X` / `&X` / `X` on its own stands for Self
        m = re.search(r"\|&(?:mut )?([A-Z][A-Za-z0-9]*)(?=\||$)", sig)
        return re.sub(r"(?<![A-Za-z0-9_:])%s(?![A-Za-z0-9_:<])" % re.escape(m.group(1)), "Self", sig) if m else sig

    tm = {}
    for p in left_m:
        tm.setdefault((base_name(p), self_free(with_self(base_fns[p]["sig"]))), ([], []))[0].append(p)
    for p in left_n:
        k = (base_name(p), self_free(with_self(cur_fns[p]["sig"])))
        if k in tm:
            tm[k][1].append(p)
    for (ms, ns) in tm.values():
        if len(ms) == 1 and len(ns) == 1 and (container(ns[0]).startswith(container(ms[0])) or container(ms[0]).startswith(container(ns[0]))):
            out[ns[0]] = ms[0]
    # the same item with its lifetimes written differently (`impl<'a> T for &'a mut X` vs `impl T for &mut X`)
    left_m = [p for p in missing if p not in out.values()]
    left_n = [p for p in new if p not in out]
    lt = {}
    for p in left_m:
        lt.setdefault(erase_lifetimes(p), ([], []))[0].append(p)
    for p in left_n:
        k = erase_lifetimes(p)
        if k in lt:
            lt[k][1].append(p)
    for (ms, ns) in lt.values():
        if len(ms) == 1 and len(ns) == 1 and erase_lifetimes(base_fns[ms[0]]["sig"]) == erase_lifetimes(cur_fns[ns[0]]["sig"]):
            out[ns[0]] = ms[0]
    return out


_LT = re.compile(r"'[A-Za-z_][A-Za-z0-9_]*\b(?!')")


def erase_lifetimes(s):
    s = _LT.sub("'_", s)
    s = s.replace("&'_ ", "&")
    s = re.sub(r"<'_(?:, '_)*>", "", s)
    s = re.sub(r"<'_(?:, '_)*, ", "<", s)
    s = re.sub(r"for<[^>]*> ", "", s)
    return s


def pair_adts(base_adts, cur_adts):
    """Returns ({new adt path: reviewed path}, {adt path: {"fields": {new: old}, "variants": {new: old}}})."""
    ren = {}
    missing = [p for p in base_adts if p not in cur_adts]
    new = [p for p in cur_adts if p not in base_adts]
    groups = {}
    for p in missing:
        groups.setdefault((container(p), adt_shape(p, base_adts[p])), ([], []))[0].append(p)
    for p in new:
        k = (container(p), adt_shape(p, cur_adts[p]))
        if k in groups:
            groups[k][1].append(p)
    for (_k, (ms, ns)) in groups.items():
        if len(ms) == 1 and len(ns) == 1:
            ren[ns[0]] = ms[0]
    # moved to another module under the same name, with the same layout
    moved = {}
    for p in missing:
        if p not in ren.values():
            moved.setdefault((base_name(p), adt_shape(p, base_adts[p])), ([], []))[0].append(p)
    for p in new:
        k = (base_name(p), adt_shape(p, cur_adts[p]))
        if p not in ren and k in moved:
            moved[k][1].append(p)
    for (ms, ns) in moved.values():
        if len(ms) == 1 and len(ns) == 1:
            ren[ns[0]] = ms[0]
    members = {}
    back = {v: k for k, v in ren.items()}
    for p, b in base_adts.items():
        c = cur_adts.get(back.get(p, p))
        if c is None or c.get("kind") != b.get("kind") or len(c["variants"]) != len(b["variants"]):
            continue
        fr, vr = {}, {}
        for vb, vc in zip(b["variants"], c["variants"]):
            if vb["name"] != vc["name"] and b.get("kind") == "enum":
                vr[vc["name"]] = vb["name"]
            if len(vb["fields"]) != len(vc["fields"]):
                continue
            for fb, fc in zip(vb["fields"], vc["fields"]):
                if fb["name"] != fc["name"] and not fb["name"].isdigit():
                    fr[fc["name"]] = fb["name"]
        # only whole-layout matches count: same shape with the member names taken out
        if adt_shape(p, b) != adt_shape(back.get(p, p), c):
            continue
        # a permutation of the same names is a reordering, not a renaming
        if set(vr) & set(vr.values()) or set(fr) & set(fr.values()):
            continue
        if fr or vr:
            members[p] = {"fields": fr, "variants": vr}
    return ren, members


def module_votes(base_paths, cur_paths):
    """A module renamed as a whole: items that are gone and items that are new whose paths differ in one identifier
    (the same one everywhere).  Returns {new segment: reviewed segment} for segments with at least two witnesses."""
    missing = [p for p in base_paths if p not in cur_paths]
    new = [p for p in cur_paths if p not in base_paths]
    by_base = {}
    for n in new:
        by_base.setdefault(base_name(n), []).append(n)
    votes = {}
    items = {base_name(p) for p in base_paths} | {base_name(p) for p in cur_paths}
    for m in missing:
        tm = IDENT.findall(m)
        for n in by_base.get(base_name(m), []):
            tn = IDENT.findall(n)
            if len(tm) != len(tn):
                continue
            diff = {(a, b) for a, b in zip(tm, tn) if a != b}
            if len(diff) == 1:
                (o, nw), = diff
                # a module segment: lower-case by convention, never the item's own name
                if nw not in items and o not in items and nw == nw.lower():
                    votes.setdefault(nw, {}).setdefault(o, 0)
                    votes[nw][o] += 1
    return {nw: max(os_, key=os_.get) for nw, os_ in votes.items() if len(os_) == 1 and sum(os_.values()) >= 2}


def pair_statics(base, cur):
    """Statics / consts: same module, same type, same value."""
    missing = [p for p in base if p not in cur]
    new = [p for p in cur if p not in base]
    key = lambda p, t: (container(p), json.dumps(t, sort_keys=True))
    groups = {}
    for p in missing:
        groups.setdefault(key(p, base[p]), ([], []))[0].append(p)
    for p in new:
        k = key(p, cur[p])
        if k in groups:
            groups[k][1].append(p)
    out = {ns[0]: ms[0] for (ms, ns) in groups.values() if len(ms) == 1 and len(ns) == 1}
    # moved to another module: same name, type and value
    moved = {}
    for p in missing:
        if p not in out.values():
            moved.setdefault((base_name(p), json.dumps(base[p], sort_keys=True)), ([], []))[0].append(p)
    for p in new:
        k = (base_name(p), json.dumps(cur[p], sort_keys=True))
        if p not in out and k in moved:
            moved[k][1].append(p)
    out.update({ns[0]: ms[0] for (ms, ns) in moved.values() if len(ms) == 1 and len(ns) == 1})
    return out


# ------------------------------------------------------------------------------------------------ applying
def _members_sub(node, members):
    """Structured renaming of fields / variants whose new name is not fresh: only where the fact names the type."""
    if isinstance(node, list):
        for x in node:
            _members_sub(x, members)
    elif isinstance(node, dict):
        m = members.get(node.get("adt"))
        if m:
            if node.get("n") in m["fields"]:
                node["n"] = m["fields"][node["n"]]
            if node.get("vname") in m["variants"]:
                node["vname"] = m["variants"][node["vname"]]
        for x in node.values():
            if isinstance(x, (list, dict)):
                _members_sub(x, members)


def _adt_table_sub(d, members):
    for p, m in members.items():
        a = d.get("adts", {}).get(p)
        if not a:
            continue
        for v in a["variants"]:
            v["name"] = m["variants"].get(v["name"], v["name"])
            for f in v["fields"]:
                f["name"] = m["fields"].get(f["name"], f["name"])


def _module_sub(text, mods):
    """Module segments: the identifier directly in front of `::`."""
    if not mods:
        return text
    rx = re.compile(r"(?<![A-Za-z0-9_])(%s)(?=::)" % "|".join(sorted(map(re.escape, mods), key=len, reverse=True)))
    return rx.sub(lambda m: mods[m.group(1)], text)


def _path_sub(text, paths):
    """Full paths of moved types, wherever they occur (inside type strings, behind a crate prefix)."""
    for n, o in sorted(paths.items(), key=lambda kv: -len(kv[0])):
        text = re.sub(r"(?<![A-Za-z0-9_])%s(?![A-Za-z0-9_])" % re.escape(n), o, text)
    return text


def _token_sub(text, tokens):
    if not tokens:
        return text
    rx = re.compile(r"(?<![A-Za-z0-9_])(%s)(?![A-Za-z0-9_])" % "|".join(sorted(map(re.escape, tokens), key=len, reverse=True)))
    return rx.sub(lambda m: tokens[m.group(1)], text)


def _exact_sub(text, exact):
    """exact: {new path: old path}; occurrences as a whole JSON string, or followed by `::` (closures, items)."""
    for n, o in sorted(exact.items(), key=lambda kv: -len(kv[0])):
        text = text.replace(json.dumps(n)[1:-1] + '"', json.dumps(o)[1:-1] + '"')
        text = text.replace(json.dumps(n)[1:-1] + "::{", json.dumps(o)[1:-1] + "::{")
    return text


def plan(files):
    """files: {file name: parsed crate facts}.  Returns the rename plan for this set of fact files."""
    B = baseline()
    tokens, exact, notes = {}, {}, []
    mods = {}
    paths = {}
    struct_members = {}
    conflicts = set()

    def want(new, old, what):
        if new == old:
            return
        if new in B["vocab"] or not IDENT.fullmatch(new):
            return False
        if new in tokens and tokens[new] != old:
            conflicts.add(new)
            return False
        tokens[new] = old
        notes.append("%s `%s` is the reviewed tree's `%s`" % (what, new, old))
        return True

    # modules first: containers are compared in the reviewed vocabulary
    for fname, d in sorted(files.items()):
        key = "%s.%s" % (d.get("crate"), d.get("config"))
        bf = B["fns"].get(key)
        if bf is None:
            continue
        cur_paths = {fd["path"] for fd in d["fns"] if "{closure" not in fd["path"]}
        for nw, o in module_votes(set(bf), cur_paths).items():
            if nw not in B.get("vocab_mod", ()) and mods.get(nw, o) == o:
                mods[nw] = o
                notes.append("module `%s` is the reviewed tree's `%s`" % (nw, o))

    def in_reviewed_modules(x):
        if not mods:
            return x
        return json.loads(_module_sub(json.dumps(x), mods))

    for fname, d in sorted(files.items()):
        key = "%s.%s" % (d.get("crate"), d.get("config"))
        # then types: function signatures are compared in the reviewed vocabulary
        badts = B["adts"].get(key)
        if badts is not None:
            aren, members = pair_adts(badts, in_reviewed_modules(d.get("adts", {})))
            for n, o in aren.items():
                if container(n) != container(o):
                    paths[n] = o
                    notes.append("type `%s` is the reviewed tree's `%s` (moved)" % (n, o))
                    if base_name(n) == base_name(o):
                        continue
                want(base_name(n), base_name(o), "type")
            for p, m in members.items():
                for kind, what in (("variants", "variant"), ("fields", "field")):
                    for n, o in m[kind].items():
                        if want(n, o, "%s of %s:" % (what, p)) is False:
                            struct_members.setdefault(p, {"fields": {}, "variants": {}})[kind][n] = o
                            notes.append("%s `%s` of %s is the reviewed tree's `%s` (renamed where the type is named)" % (what, n, p, o))
            bst = B.get("statics", {}).get(key)
            if bst is not None:
                for n, o in pair_statics(bst, in_reviewed_modules(d.get("statics", {}))).items():
                    if container(n) != container(o):
                        exact[n] = o
                        notes.append("constant `%s` is the reviewed tree's `%s` (moved)" % (n, o))
                    elif base_name(n) != base_name(o) and want(base_name(n), base_name(o), "constant %s:" % container(o)) is False:
                        exact[n] = o
    for c in conflicts:
        tokens.pop(c, None)
    type_tokens = dict(tokens)

    for fname, d in sorted(files.items()):
        key = "%s.%s" % (d.get("crate"), d.get("config"))
        bf = B["fns"].get(key)
        if bf is None:
            continue
        cur = {}
        for fd in d["fns"]:
            if fd.get("kind") == "closure" or "{closure" in fd["path"]:
                continue
            sig = _token_sub(_path_sub(_module_sub(fn_signature(fd), mods), paths), type_tokens)
            cur[_token_sub(_path_sub(_module_sub(fd["path"], mods), paths), type_tokens)] = {"sig": sig, "body": fn_body_summary(fd), "real": fd["path"]}
        for n, o in pair_fns(bf, cur).items():
            real = cur[n]["real"]
            if container(n) != container(o):
                exact[real] = o
                if erase_lifetimes(n) != erase_lifetimes(o):
                    notes.append("function `%s` is the reviewed tree's `%s` (moved)" % (real, o))
                elif not any("lifetimes of %s" % container(o) in x for x in notes):
                    notes.append("lifetimes of %s are written differently (`%s`)" % (container(o), container(real)))
            elif base_name(n) != base_name(o) and want(base_name(n), base_name(o), "function %s:" % container(o)) is False:
                exact[real] = o
                notes.append("function `%s` is the reviewed tree's `%s` (exact paths only: the new name is not fresh)" % (real, o))
    for c in conflicts:
        tokens.pop(c, None)
    return {"tokens": tokens, "modules": mods, "paths": paths, "exact": exact, "members": struct_members, "notes": sorted(set(notes))}


def restore_params(d):
    """Give functions with an unchanged signature the reviewed names of their parameters back."""
    B = baseline()
    bf = B["fns"].get("%s.%s" % (d.get("crate"), d.get("config")))
    notes = []
    if bf is None:
        return notes
    for fd in d["fns"]:
        b = bf.get(fd["path"])
        if b is None or b["sig"] != fn_signature(fd):
            continue
        names = b.get("params") or []
        ren = {}
        for i, nm in enumerate(names):
            cur = fd["locals"][i + 1].get("name")
            if nm and cur and cur != nm:
                ren[cur] = nm
        if not ren or set(ren) & set(ren.values()):
            continue
        for l in fd["locals"][1:len(names) + 1]:
            if l.get("name") in ren:
                l["name"] = ren[l["name"]]
        notes.append("parameters of %s: %s" % (fd["path"], ", ".join("%s is `%s`" % kv for kv in sorted(ren.items()))))
    return notes


SCALAR_TYS = ("u8", "u16", "u32", "u64", "usize", "i8", "i16", "i32", "i64", "isize", "bool", "char")


def erase_newtypes(d):
    """A *new* private struct with exactly one field of scalar type (`struct Radix(u8)`, `struct Depth(u8)`) is a
    name for that scalar: wrapping a reviewed `u8` into it changes no behaviour.  The facts are rewritten as if the
    wrapper were not there - its type is the scalar's, constructing it is a move, `.0` is the value itself, a constant
    of it is the integer inside, and the derived `==` / `!=` on it are the scalar comparisons - so that rules which
    follow a radix, a depth budget or a table entry as an integer keep doing so.  Methods declared on the wrapper stay
    ordinary local functions (now over the scalar)."""
    B = baseline()
    key = "%s.%s" % (d.get("crate"), d.get("config"))
    reviewed = B["adts"].get(key)
    notes = []
    if reviewed is None:
        return notes
    erased = {}
    for p, a in d.get("adts", {}).items():
        if p in reviewed or a.get("kind") != "struct" or len(a["variants"]) != 1:
            continue
        fl = a["variants"][0]["fields"]
        if len(fl) == 1 and fl[0]["ty"] in SCALAR_TYS:
            erased[p] = fl[0]["ty"]
    if not erased:
        return notes
    derived_cmp = {}
    for fd in d["fns"]:
        if fd.get("derived") and fd.get("impl_trait") == "std::cmp::PartialEq" and fd.get("self_ty") in erased:
            derived_cmp[fd["path"]] = "Eq" if fd["path"].endswith("::eq") else "Ne"
    ty_rx = re.compile(r"(?<![A-Za-z0-9_:])(%s)(?![A-Za-z0-9_:<])" % "|".join(sorted(map(re.escape, erased), key=len, reverse=True)))

    def fix_ty(t):
        return ty_rx.sub(lambda m: erased[m.group(1)], t) if isinstance(t, str) else t

    def fix_place(pl):
        pl["p"] = [e for e in pl["p"] if not (isinstance(e, dict) and e.get("adt") in erased and "f" in e)]

    def fix_op(op):
        if not isinstance(op, dict):
            return
        if op.get("c") in ("copy", "move") and "pl" in op:
            fix_place(op["pl"])
        elif op.get("c") == "const":
            if "newtype_int" in op and op.get("ty") in erased:
                op["int"] = op.pop("newtype_int")
            if "ty" in op:
                op["ty"] = fix_ty(op["ty"])

    def fix_rv(rv):
        if rv.get("k") == "agg" and rv.get("adt") in erased and len(rv.get("fields") or []) == 1:
            op = rv["fields"][0]
            rv.clear()
            rv.update({"k": "use", "op": op})
        for k in ("op", "a", "b"):
            fix_op(rv.get(k))
        for f in rv.get("fields") or []:
            fix_op(f)
        if "pl" in rv and isinstance(rv["pl"], dict):
            fix_place(rv["pl"])
        for k in ("from", "to", "ty"):
            if k in rv:
                rv[k] = fix_ty(rv[k])

    for fd in d["fns"]:
        # locals that hold a reference to a promoted constant of a wrapper type (`&Radix::DECIMAL`): the integer inside
        const_refs = {}
        ndefs = {}
        for b in fd["blocks"]:
            for st in b["stmts"]:
                if st.get("k") == "assign" and not st["place"]["p"]:
                    ndefs[st["place"]["l"]] = ndefs.get(st["place"]["l"], 0) + 1
                    op = st["rv"].get("op") if st["rv"].get("k") == "use" else None
                    if isinstance(op, dict) and op.get("c") == "const" and isinstance(op.get("bytes"), list) and op["bytes"] \
                            and (op.get("ty") or "").lstrip("&").replace("'static ", "") in erased:
                        inner = erased[(op.get("ty") or "").lstrip("&").replace("'static ", "")]
                        const_refs[st["place"]["l"]] = {"c": "const", "ty": inner,
                                                        "int": int.from_bytes(bytes(x & 255 for x in op["bytes"]), "little")}
            if b["term"].get("k") == "call" and not b["term"]["dest"]["p"]:
                ndefs[b["term"]["dest"]["l"]] = ndefs.get(b["term"]["dest"]["l"], 0) + 1
        const_refs = {l: v for l, v in const_refs.items() if ndefs.get(l) == 1}
        for l in fd["locals"]:
            l["ty"] = fix_ty(l["ty"])
        for k in ("self_ty", "impl_trait_full"):
            if fd.get(k):
                fd[k] = fix_ty(fd[k])
        for b in fd["blocks"]:
            for st in b["stmts"]:
                if st.get("k") == "assign":
                    fix_place(st["place"])
                    fix_rv(st["rv"])
            t = b["term"]
            if t.get("k") == "call":
                for a in t["args"]:
                    fix_op(a)
                fix_place(t["dest"])
                t["arg_tys"] = [fix_ty(x) for x in t.get("arg_tys", [])]
                c = t["callee"]
                if "substs" in c:
                    c["substs"] = [fix_ty(x) for x in c["substs"]]
                tgt = c.get("resolved") or c.get("path")
                cmp_op = derived_cmp.get(tgt)
                if cmp_op is None and tgt in ("std::cmp::PartialEq::ne", "std::cmp::PartialEq::eq"):
                    # the provided `ne` (or a call through the trait) on a wrapper whose `eq` is derived
                    m = re.match(r"<(.+) as std::cmp::PartialEq>::(eq|ne)$", c.get("full") or "")
                    if m and m.group(1) in erased and any(k.startswith("<%s as std::cmp::PartialEq>::eq" % m.group(1)) for k in derived_cmp):
                        cmp_op = "Eq" if m.group(2) == "eq" else "Ne"
                if cmp_op is not None and len(t["args"]) == 2 and "t" in t:
                    # `a == b` on the wrapper: the scalar comparison
                    ops = []
                    for a in t["args"]:
                        if a.get("c") in ("copy", "move") and not a["pl"]["p"] and a["pl"]["l"] in const_refs:
                            ops.append(dict(const_refs[a["pl"]["l"]]))
                        elif a.get("c") in ("copy", "move"):
                            ops.append({"c": "copy", "pl": {"l": a["pl"]["l"], "p": list(a["pl"]["p"]) + ["*"]}})
                        elif a.get("c") == "const" and isinstance(a.get("bytes"), list) and a["bytes"]:
                            ops.append({"c": "const", "ty": erased.get(fd and a.get("ty", "").lstrip("&"), "u8"),
                                        "int": int.from_bytes(bytes(x & 255 for x in a["bytes"]), "little")})
                        else:
                            ops = None
                            break
                    if ops:
                        b["stmts"].append({"k": "assign", "place": t["dest"], "line": t.get("line"),
                                           "rv": {"k": "bin", "op": cmp_op, "a": ops[0], "b": ops[1]}})
                        b["term"] = {"k": "goto", "t": t["t"], "line": t.get("line")}
            elif t.get("k") in ("switch", "assert", "drop"):
                if isinstance(t.get("op"), dict):
                    fix_op(t["op"])
                if isinstance(t.get("place"), dict):
                    fix_place(t["place"])
                for o in t.get("ops") or []:
                    fix_op(o)
    for p, a in d.get("adts", {}).items():
        for v in a["variants"]:
            for f in v["fields"]:
                f["ty"] = fix_ty(f["ty"])
    for p, sc in sorted(erased.items()):
        notes.append("the new private wrapper `%s` around one `%s` is read as that `%s`" % (p, sc, sc))
    return notes


def restore_files(d):
    """Scopes of rules are written in terms of the reviewed tree's files.  A function that was moved to another file
    keeps the scope it was reviewed in (`reviewed_file`; reports still use the real file and line), and functions that
    are new in a file made up mostly of moved functions share that scope."""
    B = baseline()
    bf = B["fns"].get("%s.%s" % (d.get("crate"), d.get("config")))
    notes = []
    if bf is None:
        return notes
    votes = {}
    for fd in d["fns"]:
        owner = fd.get("owner") or fd["path"]
        b = bf.get(fd["path"]) or bf.get(owner)
        if b and b.get("file") and fd.get("file"):
            votes.setdefault(fd["file"], {}).setdefault(b["file"], 0)
            votes[fd["file"]][b["file"]] += 1
            if b["file"] != fd["file"]:
                fd["reviewed_file"] = b["file"]
    known_files = {b.get("file") for b in bf.values()}
    for fd in d["fns"]:
        f = fd.get("file")
        if "reviewed_file" in fd or f in known_files or f not in votes:
            continue
        best = max(votes[f], key=votes[f].get)
        if votes[f][best] * 2 > sum(votes[f].values()):
            fd["reviewed_file"] = best
    moved = sorted({(fd["file"], fd["reviewed_file"]) for fd in d["fns"] if fd.get("reviewed_file")})
    for cur, rev in moved:
        notes.append("code in %s is analysed in the scope of the reviewed tree's %s" % (cur, rev))
    return notes


def normalise(outdir, fact_files, use_plan=None):
    """Rewrite the named fact files of `outdir` in the reviewed vocabulary.  Returns the plan that was applied."""
    texts, parsed = {}, {}
    for f in fact_files:
        p = os.path.join(outdir, f)
        with open(p) as fh:
            texts[f] = fh.read()
    if use_plan is None:
        for f, t in texts.items():
            d = json.loads(t)
            if isinstance(d, dict) and "fns" in d:
                parsed[f] = d
        pl = plan(parsed)
    else:
        pl = use_plan
    notes = list(pl["notes"])
    for f, t in texts.items():
        t2 = _exact_sub(_token_sub(_path_sub(_module_sub(t, pl.get("modules", {})), pl.get("paths", {})), pl["tokens"]), pl["exact"])
        try:
            d = json.loads(t2)
        except ValueError:
            # never leave a tree without facts: the file is kept as the driver wrote it
            notes.append("normalisation of %s did not give well-formed facts and was not applied" % f)
            t2 = t
            d = json.loads(t)
        pn = erase_newtypes(d) if isinstance(d, dict) and "fns" in d else []
        pn += restore_params(d) if isinstance(d, dict) and "fns" in d else []
        pn += restore_files(d) if isinstance(d, dict) and "fns" in d else []
        notes.extend(pn)
        if pl.get("members"):
            _members_sub(d, pl["members"])
            if isinstance(d, dict):
                _adt_table_sub(d, pl["members"])
            pn = pn or [True]
        if t2 != t or pn:
            tmp = os.path.join(outdir, f + ".tmp")
            with open(tmp, "w") as fh:
                json.dump(d, fh, separators=(",", ":"))
            os.replace(tmp, os.path.join(outdir, f))
    pl = dict(pl)
    pl["notes"] = sorted(set(notes))
    return pl


def load_notes(outdir):
    p = os.path.join(outdir, "renames.json")
    if not os.path.exists(p):
        return []
    with open(p) as fh:
        d = json.load(fh)
    out = []
    for k in sorted(d):
        out.extend(d[k].get("notes", []))
    return sorted(set(out))
