"""A2: sparse conditional constant propagation over MIR facts.

This is a static dataflow analysis, not an execution: nothing of lexpr is run.
Every value is either a known constant (propagated from literals, from statics'
initialisers, or from one *injected* unknown such as "the byte the reader just
returned", which the caller enumerates over its finite domain) or UNKNOWN.  A
branch on an unknown value is followed both ways; a block revisited on one path
ends that path ("loop"), so loops are never unrolled.  The result is, for each
choice of the injected constant, the set of abstract paths with the sequence of
calls / stores / returns they perform: exactly the information a rule needs to
extract a byte class, an escape table or an option dispatch from the code,
independently of whether the source spells it as `match`, `||`, `contains` on a
static or a lookup table.
"""
import os
import re
import struct as _struct
import sys
from . import facts as F


class _Unk:
    def __repr__(self):
        return "?"


UNK = _Unk()


class Adt:
    __slots__ = ("adt", "variant", "fields", "vname")

    def __init__(self, adt, variant, fields, vname=None):
        self.adt = adt
        self.variant = variant
        self.fields = list(fields)
        self.vname = vname

    def __repr__(self):
        return "%s#%s%r" % (self.adt, self.variant, self.fields)

    def __eq__(self, o):
        return isinstance(o, Adt) and self.variant == o.variant and self.fields == o.fields

    def __hash__(self):
        return hash((self.variant, len(self.fields)))


class Tup:
    __slots__ = ("fields",)

    def __init__(self, fields):
        self.fields = list(fields)

    def __repr__(self):
        return "(%s)" % ",".join(map(repr, self.fields))

    def __eq__(self, o):
        return isinstance(o, Tup) and self.fields == o.fields

    def __hash__(self):
        return hash(len(self.fields))


class Bytes:
    __slots__ = ("b", "static")

    def __init__(self, b, static=None):
        self.b = tuple(b)
        self.static = static

    def __repr__(self):
        return "b%r" % (bytes(x & 255 for x in self.b[:24]),)

    def __eq__(self, o):
        return isinstance(o, Bytes) and self.b == o.b

    def __hash__(self):
        return hash(self.b)


class Rng:
    """An unknown integer known to lie in [lo, hi].  One object = one quantity: copies of the value share the
    object (also across a fork, where the whole environment is copied consistently), so a branch on a comparison
    refines every copy."""
    __slots__ = ("lo", "hi")

    def __init__(self, lo, hi):
        self.lo, self.hi = lo, hi

    def __repr__(self):
        return "[%d..%d]" % (self.lo, self.hi)


class Cmp:
    """Boolean: true iff rng's value lies in [lo, hi] (negated when neg)."""
    __slots__ = ("rng", "lo", "hi", "neg")

    def __init__(self, rng, lo, hi, neg=False):
        self.rng, self.lo, self.hi, self.neg = rng, lo, hi, neg

    def __repr__(self):
        return "%s%r in [%d..%d]" % ("!" if self.neg else "", self.rng, self.lo, self.hi)


class Utf8:
    """Bytes known to be well-formed UTF-8 because they are the bytes of a `str` value (type invariant)."""

    def __repr__(self):
        return "<utf8>"


def _ty_range(ty):
    bits = INT_BITS.get(ty)
    if bits is None:
        return None
    if ty.startswith("i"):
        return (-(1 << (bits - 1)), (1 << (bits - 1)) - 1)
    if ty == "char":
        return (0, 0x10FFFF)
    return (0, (1 << bits) - 1)


def _iv(x):
    if isinstance(x, int):
        return (x, x)
    if isinstance(x, Rng):
        return (x.lo, x.hi)
    return None


def rng_binop(op, a, b, ty):
    """Interval arithmetic / comparison when at least one operand is a Rng; returns a value or None."""
    ia, ib = _iv(a), _iv(b)
    if ia is None or ib is None:
        return None
    base = op.replace("WithOverflow", "").replace("Unchecked", "")
    cmpops = {"Lt", "Le", "Gt", "Ge", "Eq", "Ne"}
    if base in cmpops:
        # decided?
        lo_a, hi_a = ia
        lo_b, hi_b = ib
        truth = None
        if base == "Lt":
            truth = True if hi_a < lo_b else (False if lo_a >= hi_b else None)
        elif base == "Le":
            truth = True if hi_a <= lo_b else (False if lo_a > hi_b else None)
        elif base == "Gt":
            truth = True if lo_a > hi_b else (False if hi_a <= lo_b else None)
        elif base == "Ge":
            truth = True if lo_a >= hi_b else (False if hi_a < lo_b else None)
        elif base == "Eq":
            truth = True if lo_a == hi_a == lo_b == hi_b else (False if hi_a < lo_b or hi_b < lo_a else None)
        elif base == "Ne":
            truth = False if lo_a == hi_a == lo_b == hi_b else (True if hi_a < lo_b or hi_b < lo_a else None)
        if truth is not None:
            return int(truth)
        BIG = 1 << 130
        if isinstance(a, Rng) and isinstance(b, int):
            return {"Lt": Cmp(a, -BIG, b - 1), "Le": Cmp(a, -BIG, b), "Gt": Cmp(a, b + 1, BIG), "Ge": Cmp(a, b, BIG),
                    "Eq": Cmp(a, b, b), "Ne": Cmp(a, b, b, True)}[base]
        if isinstance(b, Rng) and isinstance(a, int):
            return {"Lt": Cmp(b, a + 1, BIG), "Le": Cmp(b, a, BIG), "Gt": Cmp(b, -BIG, a - 1), "Ge": Cmp(b, -BIG, a),
                    "Eq": Cmp(b, a, a), "Ne": Cmp(b, a, a, True)}[base]
        return UNK
    tr = _ty_range(ty)
    lo = hi = None
    if base == "Add":
        lo, hi = ia[0] + ib[0], ia[1] + ib[1]
    elif base == "Sub":
        lo, hi = ia[0] - ib[1], ia[1] - ib[0]
    elif base == "Mul" and ia[0] >= 0 and ib[0] >= 0:
        lo, hi = ia[0] * ib[0], ia[1] * ib[1]
    elif base == "BitAnd" and ia[0] >= 0 and ib[0] >= 0:
        lo, hi = 0, min(ia[1], ib[1])
    elif base == "BitOr" and ia[0] >= 0 and ib[0] >= 0:
        m = max(ia[1], ib[1])
        lo, hi = max(ia[0], ib[0]), (1 << m.bit_length()) - 1
    elif base == "Shr" and ib[0] == ib[1] and 0 <= ib[0] < 128 and ia[0] >= 0:
        lo, hi = ia[0] >> ib[0], ia[1] >> ib[0]
    elif base == "Shl" and ib[0] == ib[1] and 0 <= ib[0] < 128 and ia[0] >= 0:
        lo, hi = ia[0] << ib[0], ia[1] << ib[0]
    elif base == "Rem" and ib[0] == ib[1] and ib[0] > 0 and ia[0] >= 0:
        lo, hi = 0, min(ia[1], ib[0] - 1)
    elif base == "Div" and ib[0] == ib[1] and ib[0] > 0 and ia[0] >= 0:
        lo, hi = ia[0] // ib[0], ia[1] // ib[0]
    if lo is None:
        return None
    fits = tr is None or (tr[0] <= lo and hi <= tr[1])
    val = (lo if lo == hi else Rng(lo, hi)) if fits else (Rng(tr[0], tr[1]) if tr else UNK)
    if op.endswith("WithOverflow"):
        return Tup([val, 0 if fits else UNK])
    return val


class Part:
    """Aggregate with only some fields known."""
    __slots__ = ("fields",)

    def __init__(self):
        self.fields = {}

    def __repr__(self):
        return "Part%r" % (self.fields,)


class Ref:
    __slots__ = ("env", "local", "proj")

    def __init__(self, env, local, proj):
        self.env = env
        self.local = local
        self.proj = tuple(proj)

    def __repr__(self):
        return "&_%d%s" % (self.local, "".join("." + str(p) for p in self.proj))


class Opq:
    """Opaque symbolic place/pointer: a parameter or anything reached from it."""
    __slots__ = ("root", "path")

    def __init__(self, root, path=()):
        self.root = root
        self.path = tuple(path)

    def __repr__(self):
        return "<%s%s>" % (self.root, "".join("." + str(p) for p in self.path))

    def __eq__(self, o):
        return isinstance(o, Opq) and self.root == o.root and self.path == o.path

    def __hash__(self):
        return hash((self.root, self.path))

    def ext(self, p):
        return Opq(self.root, self.path + (p,))


class FnItem:
    __slots__ = ("path",)

    def __init__(self, path):
        self.path = path

    def __repr__(self):
        return "fn:" + self.path


class Closure:
    __slots__ = ("path", "captures")

    def __init__(self, path, captures):
        self.path = path
        self.captures = captures

    def __repr__(self):
        return "closure:" + self.path


class Flt:
    """A known IEEE float: `v` is the value as a Python float (for an f32 already rounded to f32), `ty` f32 / f64."""
    __slots__ = ("v", "ty")

    def __init__(self, v, ty="f64"):
        self.v = _round_f32(v) if ty == "f32" else float(v)
        self.ty = ty

    def __repr__(self):
        return "%r_%s" % (self.v, self.ty)

    def __eq__(self, o):
        # identity of the datum (bit pattern), not IEEE equality: used for "the same value was handed on"
        return isinstance(o, Flt) and o.ty == self.ty and _struct.pack("<d", o.v) == _struct.pack("<d", self.v)

    def __hash__(self):
        return hash((self.ty, _struct.pack("<d", self.v)))


def _round_f32(x):
    x = float(x)
    if x != x or x in (float("inf"), float("-inf")):
        return x
    try:
        return _struct.unpack("<f", _struct.pack("<f", x))[0]
    except OverflowError:
        return float("inf") if x > 0 else float("-inf")


def flt_from_bits(bits, ty):
    if ty == "f32":
        return Flt(_struct.unpack("<f", _struct.pack("<I", bits & 0xFFFFFFFF))[0], "f32")
    return Flt(_struct.unpack("<d", _struct.pack("<Q", bits & 0xFFFFFFFFFFFFFFFF))[0], "f64")


def flt_to_int(f, ty):
    """`f as <int>`: saturating, NaN -> 0."""
    lo, hi = _ty_range(ty) or (None, None)
    if lo is None:
        return UNK
    if f.v != f.v:
        return 0
    if f.v == float("inf"):
        return hi
    if f.v == float("-inf"):
        return lo
    return max(lo, min(hi, int(f.v)))


def known(v):
    return v is not UNK and not isinstance(v, (Opq, Part))


INT_BITS = {"u8": 8, "u16": 16, "u32": 32, "u64": 64, "u128": 128, "usize": 64,
            "i8": 8, "i16": 16, "i32": 32, "i64": 64, "i128": 128, "isize": 64,
            "bool": 1, "char": 32}


def wrap(v, ty):
    bits = INT_BITS.get(ty)
    if bits is None or not isinstance(v, int):
        return v
    m = (1 << bits) - 1
    v &= m
    if ty.startswith("i") and v >> (bits - 1):
        v -= 1 << bits
    return v


class Path:
    def __init__(self):
        self.events = []
        self.end = None
        self.ret = UNK
        self.blocks = []     # (fn path, block) visited, outermost frame only
        self.heap = {}
        self.memos = []      # one object-identity map per fork this path went through (original id -> its copy)

    def calls(self, *names):
        out = []
        for e in self.events:
            if e[0] == "call" and (not names or any(n in e[1] for n in names)):
                out.append(e)
        return out

    def __repr__(self):
        return "<Path end=%s ret=%r ev=%d>" % (self.end, self.ret, len(self.events))


_DEBUG_FORKS = bool(os.environ.get("VERIF_SIM_DEBUG"))


class Limit(Exception):
    pass


class Sim:
    def __init__(self, crates, hooks=None, inline=None, max_paths=4000, max_depth=6, max_visits=1):
        """crates: list of facts.Crate used to look up callee bodies."""
        self.crates = crates
        self.hooks = hooks or {}
        self.inline = inline or (lambda fn, callee_fn: False)
        self.max_paths = max_paths
        self.max_depth = max_depth
        self.max_visits = max_visits
        self.npaths = 0
        self.utf8_by_type = False
        self.structural_box = False
        self.structural_vec = False
        self._tyenv = [{}]      # per inlined frame: the frame's type parameters -> the types they stand for
        self.statics = {}
        self.adts = {}
        for c in crates:
            for k, v in c.statics.items():
                if v.get("value") is not None:
                    # decoded through the type's layout by the driver: arrays / tuples / byte-string references
                    def build(j):
                        if "int" in j:
                            return int(j["int"])
                        if "bytes" in j:
                            return Bytes(list(j["bytes"]))
                        if "array" in j:
                            items = [build(x) for x in j["array"]]
                            return Bytes(items) if items and all(isinstance(x, int) and 0 <= x < 256 for x in items) \
                                and v.get("ty", "").startswith("[u8") else Tup(items)
                        if "tuple" in j:
                            return Tup([build(x) for x in j["tuple"]])
                        if "enum" in j:
                            # a field-less enum stored in a table (`static BYTE_CLASS: [ByteClass; 256]`)
                            return Adt(j["enum"], int(j["variant"]), [], j.get("vname"))
                        return UNK
                    self.statics[k] = build(v["value"])
                    continue
                if v.get("ptrs"):
                    # an array of byte-string / str slices: fat pointers (address, length) 16 bytes apart
                    ty = v.get("ty", "")
                    raw = v.get("bytes") or []
                    if ty.startswith("[&") and ("[u8]" in ty or "str" in ty) and all("target_bytes" in q for q in v["ptrs"]):
                        items = []
                        for q in sorted(v["ptrs"], key=lambda q: q["off"]):
                            off = q["off"]
                            addend = int.from_bytes(bytes(raw[off:off + 8]), "little")
                            ln = int.from_bytes(bytes(raw[off + 8:off + 16]), "little")
                            items.append(Bytes(list(q["target_bytes"][addend:addend + ln])))
                        self.statics[k] = Tup(items)
                    continue
                b = v.get("bytes", v.get("target_bytes"))
                if b is not None:
                    self.statics[k] = Bytes(b, static=k)
            for k, v in getattr(c, "ext_adts", {}).items():
                self.adts.setdefault(k, v)      # small foreign enums the crate uses (variant names, discriminants)
            self.adts.update(c.adts)

    # ------------------------------------------------------------ lookup
    def find_fn(self, path, crate_name=None):
        for c in self.crates:
            if crate_name and c.name != crate_name:
                continue
            f = c.fn(path)
            if f is not None:
                return f
        # a function of another analysed crate named through a re-export (`lexpr::Value::as_bool` for
        # `lexpr::value::Value::as_bool`): the one function of that crate whose path ends that way
        if "::" in path and not path.startswith("<"):
            head, rest = path.split("::", 1)
            for c in self.crates:
                if c.name == head and (crate_name is None or c.name == crate_name):
                    hits = [g for g in c.fns if g.kind != "closure" and (g.path == rest or g.path.endswith("::" + rest))]
                    if len(hits) == 1:
                        return hits[0]
        return None

    def find_dp(self, dp):
        if not dp:
            return None
        for c in self.crates:
            f = c.by_dp.get(dp)
            if f is not None:
                return f
        return None

    def discr_of(self, adt, variant):
        a = self.adts.get(adt)
        if a and a["kind"] == "enum":
            for v in a["variants"]:
                if v["idx"] == variant:
                    return v.get("discr", variant)
        return variant

    # ------------------------------------------------------------ entry
    def run(self, fn, env=None, start=0, args=None, heap=None):
        """Explore all abstract paths of `fn` from block `start`.

        Returns list of Path.  `args`: values for parameter locals 1..n
        (missing -> Opq named after the parameter).  `env`: preset locals.
        """
        self.npaths = 0
        p = Path()
        if heap:
            p.heap = dict(heap)
        return self._run_fn(fn, args or {}, p, 0, start=start, preset=env)

    def _run_fn(self, fn, args, path, depth, start=0, preset=None):
        env = [UNK] * len(fn.locals)
        for i in range(1, fn.arg_count + 1):
            if i in args:
                env[i] = args[i]
            else:
                nm = fn.local_name(i) or ("arg%d" % i)
                env[i] = Opq(nm if depth == 0 else "%s@%d" % (nm, depth))
        if preset:
            for k, v in preset.items():
                env[k] = v
        return self._explore(fn, env, start, path, depth, {})

    # ------------------------------------------------------------ places
    def _read_proj(self, v, proj, path):
        for e in proj:
            if isinstance(v, Opq):
                key = e if e == "*" else (e.get("n") or e.get("f") if "f" in e else
                                          ("as" + str(e.get("n", e.get("d"))) if "d" in e else "[]"))
                if e == "*":
                    continue  # Opq is both the pointer and the place
                v = v.ext(key)
                if v in path.heap:
                    v = path.heap[v]
                else:
                    hv = self.hooks.get("opaque")
                    if hv:
                        r = hv(v)
                        if r is not None:
                            v = r
                continue
            if v is UNK:
                return UNK
            if e == "*":
                if isinstance(v, Ref):
                    v = self._read_ref(v, path)
                # Box etc: transparent
                continue
            if "f" in e:
                i = e["f"]
                if isinstance(v, (Adt, Tup)):
                    v = v.fields[i] if i < len(v.fields) else UNK
                elif isinstance(v, Closure):
                    v = v.captures[i] if i < len(v.captures) else UNK
                elif isinstance(v, Part):
                    v = v.fields.get(i, UNK)
                else:
                    return UNK
            elif "d" in e:
                if isinstance(v, Adt) and v.variant != e["d"]:
                    return UNK
            elif "i" in e:
                return UNK  # resolved by caller (needs env)
            elif "ci" in e:
                if isinstance(v, Bytes) and not e.get("fe"):
                    v = v.b[e["ci"]] if e["ci"] < len(v.b) else UNK
                elif isinstance(v, Tup) and not e.get("fe"):
                    v = v.fields[e["ci"]] if e["ci"] < len(v.fields) else UNK
                else:
                    return UNK
            else:
                return UNK
        return v

    def _read_ref(self, r, path):
        v = r.env[r.local]
        return self._read_proj(v, r.proj, path)

    def read_place(self, env, pl, path):
        v = env[pl["l"]]
        proj = pl["p"]
        # handle Index specially (needs env)
        out = v
        for idx, e in enumerate(proj):
            if isinstance(e, dict) and "i" in e:
                base = self._read_proj(v, proj[:idx], path)
                iv = env[e["i"]]
                if isinstance(base, Bytes) and isinstance(iv, int):
                    out = base.b[iv] if 0 <= iv < len(base.b) else UNK
                elif isinstance(base, Bytes) and isinstance(iv, Rng) and base.b:
                    # an element somewhere in the (bounds-checked) index range
                    sl = base.b[max(0, iv.lo):min(len(base.b), iv.hi + 1)] or base.b
                    out = Rng(min(sl), max(sl)) if min(sl) != max(sl) else sl[0]
                elif isinstance(base, Tup) and isinstance(iv, int):
                    out = base.fields[iv] if 0 <= iv < len(base.fields) else UNK
                else:
                    out = UNK
                return self._read_proj(out, proj[idx + 1:], path)
        return self._read_proj(v, proj, path)

    def write_place(self, env, pl, val, path, fn=None, bi=None):
        l = pl["l"]
        proj = pl["p"]
        if not proj:
            env[l] = val
            return
        # `a[i] = v` with a known index: that element (resolved here, where `i` is a local of this environment)
        if any(isinstance(e, dict) and "i" in e for e in proj):
            proj = [e if not (isinstance(e, dict) and "i" in e) else
                    ({"ci": env[e["i"]]} if e["i"] < len(env) and isinstance(env[e["i"]], int) else {"i?": True})
                    for e in proj]
        base = env[l]
        self._write_into(env, l, base, proj, val, path, fn, bi)

    def _write_into(self, env, l, base, proj, val, path, fn, bi):
        # walk to the parent of the last projection
        cur = base
        # Opq destinations: record a store
        chain = []
        v = base
        for i, e in enumerate(proj):
            if isinstance(v, Opq):
                o = v
                for e2 in proj[i:]:
                    if e2 == "*":
                        continue
                    key = (e2.get("n") or e2.get("f")) if "f" in e2 else (
                        "as" + str(e2.get("n", e2.get("d"))) if "d" in e2 else "[]")
                    o = o.ext(key)
                path.heap[o] = val
                path.events.append(("store", o, val, fn.path if fn else None, bi))
                return
            if i == len(proj) - 1:
                break
            if e == "*":
                if isinstance(v, Ref):
                    # redirect write into the referent
                    rest = proj[i + 1:]
                    tgt_pl = {"l": v.local, "p": list(v.proj) + list(rest)}
                    self.write_place(v.env, tgt_pl, val, path, fn, bi)
                    return
                chain.append((v, e))
                continue
            nv = UNK
            if "f" in e:
                if isinstance(v, (Adt, Tup)) and e["f"] < len(v.fields):
                    nv = v.fields[e["f"]]
                elif isinstance(v, Part):
                    nv = v.fields.get(e["f"], UNK)
            elif "d" in e:
                nv = v
            elif "ci" in e and not e.get("fe"):
                if isinstance(v, Tup) and e["ci"] < len(v.fields):
                    nv = v.fields[e["ci"]]
            chain.append((v, e))
            v = nv
        last = proj[-1]
        if isinstance(last, dict) and "ci" in last and not last.get("fe") and isinstance(v, Tup) and last["ci"] < len(v.fields):
            v.fields[last["ci"]] = val
            return
        if isinstance(v, Ref) and last == "*":
            self.write_place(v.env, {"l": v.local, "p": list(v.proj)}, val, path, fn, bi)
            return
        if isinstance(last, dict) and "f" in last:
            if isinstance(v, (Adt, Tup)) and last["f"] < len(v.fields):
                v.fields[last["f"]] = val
                return
            if isinstance(v, Part):
                v.fields[last["f"]] = val
                return
            if v is UNK and len(proj) == 1:
                p = Part()
                p.fields[last["f"]] = val
                env[l] = p
                return
        if isinstance(last, dict) and "i?" in last and isinstance(v, Tup):
            # an element at an unknown index: any of them may have been overwritten
            v.fields[:] = [UNK] * len(v.fields)
            path.events.append(("store?", l, val, fn.path if fn else None, bi))
            return
        # anything else: lose precision on the whole local
        if len(proj) >= 1 and not isinstance(base, (Ref, Opq)):
            if not (isinstance(base, (Adt, Tup, Part))):
                env[l] = UNK
        path.events.append(("store?", l, val, fn.path if fn else None, bi))

    # ------------------------------------------------------------ operands
    def operand(self, env, op, path):
        c = op.get("c")
        if c in ("copy", "move"):
            return self.read_place(env, op["pl"], path)
        if c == "const":
            if "int" in op:
                v = op["int"]
                return int(v) if isinstance(v, str) else v
            if "fbits" in op and op.get("ty") in ("f32", "f64"):
                return flt_from_bits(int(op["fbits"]), op["ty"])
            if "newtype_int" in op:
                v = op["newtype_int"]
                return Adt(op.get("ty", "?"), 0, [int(v) if isinstance(v, str) else v])
            if "bytes" in op and op.get("ty", "").replace("&'static ", "&") in ("&u8", "&u16", "&u32", "&u64", "&usize", "&bool") \
                    and 0 < len(op["bytes"]) <= 8:
                # a promoted reference to a scalar constant (`&10u8`)
                return Ref([int.from_bytes(bytes(x & 255 for x in op["bytes"]), "little")], 0, ())
            if "bytes" in op:
                ty = op.get("ty", "").replace("&'static ", "&").replace("&mut ", "&")
                if ty.startswith("&[u8") or ty in ("&str", "str") or ty.startswith("[u8"):
                    return Bytes(op["bytes"])
                if op.get("indirect") and ty in ("&&str", "&&[u8]"):
                    return Bytes(op["bytes"])     # derefs of a Bytes value are identities
                # arrays / slices of wider scalars: `&[char; 18]`, `[u16; 4]`, `&[u32]`
                mm = re.match(r"^&?\[(char|u16|u32|u64|usize|i16|i32|i64)(; \d+)?\]$", ty)
                if mm:
                    w = {"char": 4, "u16": 2, "u32": 4, "u64": 8, "usize": 8, "i16": 2, "i32": 4, "i64": 8}[mm.group(1)]
                    raw = bytes(op["bytes"])
                    if len(raw) % w == 0:
                        signed = mm.group(1).startswith("i")
                        return Tup([int.from_bytes(raw[k:k + w], "little", signed=signed) for k in range(0, len(raw), w)])
                # promoted constant range over a primitive integer type: `(b'0'..=b'7')`
                inner = ty[1:] if ty.startswith("&") else ty
                for pre, name in (("std::ops::RangeInclusive<", "range-incl"), ("std::ops::Range<", "range")):
                    if inner.startswith(pre) and inner[len(pre):-1] in INT_BITS and "struct" in op:
                        # fields decoded by the driver through the type's layout
                        fv = {x["n"]: x["v"] for x in op["struct"]}
                        if "start" in fv and "end" in fv:
                            return Adt(name, 0, [int(fv["start"]), int(fv["end"])])
                # promoted constant of a local fieldless enum: decode the discriminant
                a = self.adts.get(inner)
                if a and a["kind"] == "enum" and all(not v["fields"] for v in a["variants"]):
                    d = int.from_bytes(bytes(op["bytes"]), "little")
                    for v in a["variants"]:
                        if v.get("discr", v["idx"]) == d:
                            return Adt(inner, v["idx"], [], v["name"])
                return UNK
            if "static" in op:
                s = self.statics.get(op["static"])
                return s if s is not None else UNK
            if "fn" in op:
                # a trait method named as a value (`Value::clone`): the type spells the impl, `{<T as Trait>::m}`
                mm = re.search(r"\{(<.+ as .+>::[A-Za-z_0-9]+)\}$", op.get("ty", ""))
                if mm and self.find_fn(mm.group(1)) is not None:
                    return FnItem(mm.group(1))
                return FnItem(op["fn"])
            if op.get("zst"):
                return Tup([])
            return UNK
        return UNK

    def rvalue(self, env, rv, path, fn):
        k = rv["k"]
        if k == "use":
            return self.operand(env, rv["op"], path)
        if k in ("ref", "rawptr"):
            pl = rv["pl"]
            base = env[pl["l"]]
            proj = pl["p"]
            # `&a[i]` with a known index refers to that element
            if any(isinstance(e, dict) and "i" in e and isinstance(env[e["i"]], int) for e in proj):
                proj = [{"ci": env[e["i"]]} if isinstance(e, dict) and "i" in e and isinstance(env[e["i"]], int) else e
                        for e in proj]
            # reborrow `&*x` / `&(*x).f`
            if proj and proj[0] == "*":
                if isinstance(base, Ref):
                    return Ref(base.env, base.local, list(base.proj) + list(proj[1:]))
                if isinstance(base, Opq):
                    v = self._read_proj(base, proj, path)
                    return v if isinstance(v, Opq) else Ref(env, pl["l"], proj)
                if base is UNK:
                    return UNK
            if isinstance(base, Opq):
                v = self._read_proj(base, proj, path)
                if isinstance(v, Opq):
                    return v
            return Ref(env, pl["l"], proj)
        if k == "bin":
            a = self.operand(env, rv["a"], path)
            b = self.operand(env, rv["b"], path)
            return self.binop(rv["op"], a, b, rv.get("aty", ""))
        if k == "un":
            a = self.operand(env, rv["a"], path)
            op = rv["op"]
            if op == "Not":
                if isinstance(a, Cmp):
                    return Cmp(a.rng, a.lo, a.hi, not a.neg)
                if isinstance(a, int):
                    ty = self._op_ty(env, rv["a"], fn)
                    if ty == "bool":
                        return 1 - a
                    return wrap(~a, ty) if ty in INT_BITS else UNK
                return UNK
            if op == "Neg":
                if isinstance(a, Flt):
                    return Flt(-a.v, a.ty)
                if isinstance(a, int):
                    return wrap(-a, self._op_ty(env, rv["a"], fn))
                return UNK
            if op == "PtrMetadata":
                if isinstance(a, Bytes):
                    return len(a.b)
                if isinstance(a, Ref):
                    t = self._read_ref(a, path)
                    if isinstance(t, Bytes):
                        return len(t.b)
                    a = t
                if isinstance(a, Adt) and a.adt == "sim::Vec":
                    return len(a.fields[0].fields)
                if isinstance(a, Tup):
                    return len(a.fields)
                return UNK
            return UNK
        if k == "cast":
            a = self.operand(env, rv["op"], path)
            ck = rv["ck"]
            if ck.startswith("IntToFloat") and isinstance(a, int) and rv["to"] in ("f32", "f64"):
                if rv["to"] == "f64" and abs(a) < (1 << 1000) or abs(a) <= (1 << 53):
                    return Flt(float(a), rv["to"])       # one rounding to nearest-even, as `as` does
                return UNK
            if ck.startswith("FloatToFloat") and isinstance(a, Flt) and rv["to"] in ("f32", "f64"):
                return Flt(a.v, rv["to"])
            if ck.startswith("FloatToInt") and isinstance(a, Flt):
                return flt_to_int(a, rv["to"])
            if ck.startswith("IntToInt"):
                if isinstance(a, Rng):
                    tr = _ty_range(rv["to"])
                    if tr and tr[0] <= a.lo and a.hi <= tr[1]:
                        return a          # value-preserving: still the same quantity
                    return Rng(tr[0], tr[1]) if tr else UNK
                return wrap(a, rv["to"]) if isinstance(a, int) else UNK
            if ck.startswith("PointerCoercion") or ck.startswith("PtrToPtr") or ck.startswith("Transmute"):
                if ck.startswith("Transmute") and rv["from"] != rv["to"]:
                    # Box deref lowering: NonNull<T> -> *const T keeps the pointer
                    if rv["from"].startswith("std::ptr::NonNull<") and rv["to"].startswith("*"):
                        return a
                    return UNK
                return a
            return UNK
        if k == "agg":
            fs = [self.operand(env, f, path) for f in rv["fields"]]
            if "adt" in rv:
                return Adt(rv["adt"], rv["variant"], fs, rv.get("vname"))
            if rv.get("agg") == "array":
                if all(isinstance(x, int) for x in fs):
                    return Bytes(fs)
                return Tup(fs)
            if rv.get("agg") == "closure":
                return Closure(rv["closure"], fs)
            return Tup(fs)
        if k == "discr":
            v = self.read_place(env, rv["pl"], path)
            if isinstance(v, Adt):
                return self.discr_of(v.adt, v.variant)
            return UNK
        if k == "repeat":
            return UNK
        return UNK

    def _op_ty(self, env, op, fn):
        if op.get("c") == "const":
            return op.get("ty", "")
        pl = op["pl"]
        if not pl["p"]:
            return fn.local_ty(pl["l"])
        return ""

    def binop(self, op, a, b, ty):
        if isinstance(a, Flt) and isinstance(b, Flt):
            x, y = a.v, b.v
            if op in ("Eq", "Ne", "Lt", "Le", "Gt", "Ge"):
                return int({"Eq": x == y, "Ne": x != y, "Lt": x < y, "Le": x <= y, "Gt": x > y, "Ge": x >= y}[op])
            try:
                if op == "Add":
                    return Flt(x + y, a.ty)
                if op == "Sub":
                    return Flt(x - y, a.ty)
                if op == "Mul":
                    return Flt(x * y, a.ty)
                if op == "Div" and y != 0:
                    return Flt(x / y, a.ty)
            except OverflowError:
                pass
            return UNK
        if isinstance(a, Flt) or isinstance(b, Flt):
            return UNK
        if isinstance(a, Rng) or isinstance(b, Rng):
            r = rng_binop(op, a, b, ty)
            if r is not None:
                return r
            if op.endswith("WithOverflow"):
                return Tup([UNK, UNK])
            return UNK
        if op in ("Eq", "Ne") and not (isinstance(a, int) and isinstance(b, int)):
            if known(a) and known(b) and not isinstance(a, (Ref, FnItem, Closure)) and not isinstance(b, (Ref, FnItem, Closure)):
                r = (a == b)
                return int(r if op == "Eq" else not r)
            return UNK
        if not (isinstance(a, int) and isinstance(b, int)):
            return UNK
        base = op.replace("WithOverflow", "").replace("Unchecked", "")
        if base == "Add":
            r = a + b
        elif base == "Sub":
            r = a - b
        elif base == "Mul":
            r = a * b
        elif base == "Div":
            if b == 0:
                return UNK
            r = abs(a) // abs(b) * (1 if (a >= 0) == (b >= 0) else -1)
        elif base == "Rem":
            if b == 0:
                return UNK
            r = abs(a) % abs(b) * (1 if a >= 0 else -1)
        elif base == "BitAnd":
            r = a & b
        elif base == "BitOr":
            r = a | b
        elif base == "BitXor":
            r = a ^ b
        elif base == "Shl":
            r = a << (b & 127)
        elif base == "Shr":
            r = a >> (b & 127)
        elif base == "Eq":
            return int(a == b)
        elif base == "Ne":
            return int(a != b)
        elif base == "Lt":
            return int(a < b)
        elif base == "Le":
            return int(a <= b)
        elif base == "Gt":
            return int(a > b)
        elif base == "Ge":
            return int(a >= b)
        elif base == "Cmp":
            return UNK
        else:
            return UNK
        w = wrap(r, ty)
        if op.endswith("WithOverflow"):
            return Tup([w, int(w != r)])
        return w

    # ------------------------------------------------------------ explore
    def _explore(self, fn, env, bb, path, depth, visits):
        """DFS over abstract paths; returns list of finished Paths."""
        results = []
        stack = [(bb, env, path, visits)]
        while stack:
            bb, env, path, visits = stack.pop()
            while True:
                if visits.get(bb, 0) >= self.max_visits:
                    path.end = "loop"
                    path.loop_header = (fn.path, bb)
                    results.append(path)
                    break
                visits[bb] = visits.get(bb, 0) + 1
                if depth == 0:
                    path.blocks.append(bb)
                blk = fn.blocks[bb]
                for si, s in enumerate(blk["stmts"]):
                    if s["k"] == "assign":
                        v = self.rvalue(env, s["rv"], path, fn)
                        self.write_place(env, s["place"], v, path, fn, bb)
                    elif s["k"] == "setdiscr":
                        pass
                t = blk["term"]
                k = t["k"]
                if k == "goto":
                    bb = t["t"]
                    continue
                if k == "return":
                    path.end = "return"
                    path.ret = env[0]
                    results.append(path)
                    break
                if k in ("unreachable", "resume", "terminate", "other"):
                    path.end = "unreachable" if k == "unreachable" else k
                    results.append(path)
                    break
                if k == "drop":
                    bb = t["t"]
                    continue
                if k == "assert":
                    c = self.operand(env, t["cond"], path)
                    if isinstance(c, int) and bool(c) != t["expected"]:
                        path.events.append(("panic", "assert:" + t["msg"], fn.path, bb))
                        path.end = "panic"
                        results.append(path)
                        break
                    if not isinstance(c, int):
                        path.events.append(("assert?", t["msg"], fn.path, bb))
                    bb = t["t"]
                    continue
                if k == "switch":
                    v = self.operand(env, t["op"], path)
                    if isinstance(v, int):
                        tgt = t["otherwise"]
                        for val, b2 in t["targets"]:
                            vv = int(val) if isinstance(val, str) else val
                            if vv == v or (v < 0 and vv == v + (1 << 128)) or wrap(vv, t["ty"]) == v:
                                tgt = b2
                                break
                        bb = tgt
                        continue
                    if isinstance(v, (Cmp, Rng)):
                        alts = self._rng_alternatives(v, t)
                        if alts is not None:
                            self.npaths += max(0, len(alts) - 1)
                            if self.npaths > self.max_paths:
                                raise Limit("path limit in %s" % fn.path)
                            for (tg, refine) in alts[1:]:
                                memo = {}
                                e2 = self._copy_env(env, memo)
                                p2 = Path()
                                p2.memos = path.memos + [memo]
                                p2.events = list(path.events)
                                p2.blocks = list(path.blocks)
                                p2.heap = {k2: self._copy_val(v2, memo) for k2, v2 in path.heap.items()}
                                refine(memo)
                                stack.append((tg, e2, p2, dict(visits)))
                            tg, refine = alts[0]
                            refine(None)
                            bb = tg
                            continue
                    # unknown: fork
                    tgts = list(dict.fromkeys([x[1] for x in t["targets"]] + [t["otherwise"]]))
                    path.events.append(("fork", fn.path, bb, len(tgts)))
                    if _DEBUG_FORKS:
                        print("sim: fork at %s bb%d on %r (%s)" % (fn.path, bb, v, t["op"]), file=sys.stderr)
                    self.npaths += len(tgts) - 1
                    if self.npaths > self.max_paths:
                        raise Limit("path limit in %s" % fn.path)
                    for tg in tgts[1:]:
                        e2, p2 = self._clone(env, path)
                        stack.append((tg, e2, p2, dict(visits)))
                    bb = tgts[0]
                    continue
                if k == "call":
                    outs = self._call(fn, env, bb, t, path, depth)
                    # outs: list of (env, path, next_bb or None)
                    cont = None
                    for (e2, p2, nb) in outs:
                        if nb is None:
                            results.append(p2)
                        elif cont is None:
                            cont = (e2, p2, nb)
                        else:
                            stack.append((nb, e2, p2, dict(visits)))
                    if cont is None:
                        break
                    env, path, bb = cont
                    continue
                path.end = "other"
                results.append(path)
                break
        return results

    def _rng_alternatives(self, v, t):
        """Feasible successors of a switch on a comparison / a ranged integer, each with a refinement of the
        quantity on that edge.  [(target, refine(memo))]; refine(None) refines in place (the current path)."""
        def target_for(val):
            for x, b2 in t["targets"]:
                xv = int(x) if isinstance(x, str) else x
                if xv == val:
                    return b2
            return t["otherwise"]

        def setter(rng, lo, hi):
            def refine(memo):
                r = rng if memo is None else memo.get(id(rng))
                if r is not None:
                    r.lo, r.hi = max(r.lo, lo), min(r.hi, hi)
            return refine

        if isinstance(v, Cmp):
            r = v.rng
            ins = (max(r.lo, v.lo), min(r.hi, v.hi))          # value inside the tested interval
            outs = []
            if ins[0] <= ins[1]:
                outs.append((1 if not v.neg else 0, ins))
            # outside: below and/or above
            below = (r.lo, min(r.hi, v.lo - 1))
            above = (max(r.lo, v.hi + 1), r.hi)
            out_iv = None
            if below[0] <= below[1] and above[0] <= above[1]:
                out_iv = (r.lo, r.hi)                          # two pieces: no refinement
            elif below[0] <= below[1]:
                out_iv = below
            elif above[0] <= above[1]:
                out_iv = above
            if out_iv is not None:
                outs.append((0 if not v.neg else 1, out_iv))
            return [(target_for(b), setter(r, iv[0], iv[1])) for b, iv in outs]
        if isinstance(v, Rng):
            alts = []
            seen_vals = []
            for x, b2 in t["targets"]:
                xv = int(x) if isinstance(x, str) else x
                if v.lo <= xv <= v.hi:
                    alts.append((b2, setter(v, xv, xv)))
                    seen_vals.append(xv)
            if v.hi - v.lo + 1 > len(seen_vals):
                lo, hi = v.lo, v.hi
                while lo in seen_vals:
                    lo += 1
                while hi in seen_vals:
                    hi -= 1
                alts.append((t["otherwise"], setter(v, lo, hi)))
            return alts or None
        return None

    def _clone(self, env, path):
        """Deep-copy env (with Ref retargeting) and path for a fork."""
        memo = {}
        new_env = self._copy_env(env, memo)
        p2 = Path()
        p2.memos = path.memos + [memo]
        p2.events = list(path.events)
        p2.blocks = list(path.blocks)
        p2.heap = {k: self._copy_val(v, memo) for k, v in path.heap.items()}
        return new_env, p2

    def _copy_env(self, env, memo):
        if id(env) in memo:
            return memo[id(env)]
        ne = [UNK] * len(env)
        memo[id(env)] = ne
        for i, v in enumerate(env):
            ne[i] = self._copy_val(v, memo)
        return ne

    def _copy_val(self, v, memo):
        if isinstance(v, Rng):
            if id(v) not in memo:
                memo[id(v)] = Rng(v.lo, v.hi)
            return memo[id(v)]
        if isinstance(v, Cmp):
            return Cmp(self._copy_val(v.rng, memo), v.lo, v.hi, v.neg)
        if isinstance(v, Adt):
            return Adt(v.adt, v.variant, [self._copy_val(x, memo) for x in v.fields], v.vname)
        if isinstance(v, Tup):
            return Tup([self._copy_val(x, memo) for x in v.fields])
        if isinstance(v, Part):
            p = Part()
            p.fields = {k: self._copy_val(x, memo) for k, x in v.fields.items()}
            return p
        if isinstance(v, Ref):
            return Ref(self._copy_env(v.env, memo), v.local, v.proj)
        if isinstance(v, Closure):
            return Closure(v.path, [self._copy_val(x, memo) for x in v.captures])
        return v

    # ------------------------------------------------------------ calls
    def _call(self, fn, env, bb, t, path, depth):
        if "indirect" in t["callee"]:
            # a call through a function pointer / fn item held in a local: resolved by the value at hand
            fv = self._deref(self.operand(env, t["callee"]["indirect"], path), path)
            if isinstance(fv, FnItem):
                tgt = self.find_fn(fv.path)
                t = dict(t)
                t["callee"] = {"path": fv.path, "resolved": fv.path, "resolved_kind": "Item",
                               "crate": tgt.crate if tgt is not None else None,
                               "resolved_crate": tgt.crate if tgt is not None else None}
        c0 = t["callee"]
        if c0.get("trait") and "resolved" not in c0 and c0.get("substs") and self._tyenv[-1]:
            # a trait method called on a type parameter (`A::expect(self)`), inside a function inlined with a concrete
            # argument for it: the impl for that type
            conc = self._tyenv[-1].get(c0["substs"][0])
            # the trait's own type arguments must be the impl's (`i64: PartialEq<i64>` is not `impl PartialEq<Value> for i64`)
            targs = [self._tyenv[-1].get(x, x) for x in c0["substs"][1:] if not x.startswith("'")]
            want_full = c0["trait"] + ("<%s>" % ", ".join(targs) if targs else "")
            local_trait = c0.get("crate") in [cr.name for cr in self.crates]
            if conc is not None:
                for cr in self.crates:
                    hit = [g for g in cr.fns if g.impl_trait == c0["trait"] and g.self_ty == conc
                           and g.path.endswith("::" + c0.get("method", "?")) and g.kind != "closure"
                           and (local_trait or
                                (g.d.get("impl_trait_full") or "").replace("&'a ", "&").endswith(want_full))]
                    if len(hit) == 1:
                        t = dict(t)
                        t["callee"] = dict(c0, resolved=hit[0].path, resolved_kind="Item", resolved_crate=cr.name,
                                           resolved_dp=hit[0].d.get("dp"))
                        break
        args = [self.operand(env, a, path) for a in t["args"]]
        names = F.callee_names(t)
        nxt = t.get("t")
        ev = ("call", names, args, fn.path, bb, t.get("line"), [self._deref(a, path) for a in args])

        def cont(val, p=path, e=env):
            if nxt is None:
                p.end = "diverge"
                return (e, p, None)
            self.write_place(e, t["dest"], val, p, fn, bb)
            return (e, p, nxt)

        hook = self.hooks.get("call")
        if hook:
            r = hook(self, fn, bb, t, args, path)
            if r is not None:
                kind = r[0]
                if kind == "value":
                    path.events.append(ev)
                    return [cont(r[1])]
                if kind == "stop":
                    path.events.append(ev)
                    path.end = "stop:" + r[1]
                    return [(env, path, None)]
                if kind == "fork":
                    path.events.append(ev)
                    outs = []
                    vals = r[1]
                    for i, v in enumerate(vals):
                        if i == len(vals) - 1:
                            outs.append(cont(v))
                        else:
                            e2, p2 = self._clone(env, path)
                            outs.append(cont(v, p2, e2))
                    return outs
                if kind == "skip":
                    return [cont(r[1])]
                if kind == "inline":
                    return self._inline(fn, env, bb, t, path, depth, r[1], args, cont)
        # a checked integer conversion of a ranged quantity: two ways on, each with the range cut to its side
        if names & {"std::convert::TryFrom::try_from", "std::convert::TryInto::try_into"} and len(args) == 1:
            a0 = self._deref(args[0], path)
            subs = t["callee"].get("substs") or []
            if isinstance(a0, Rng) and len(subs) >= 2:
                to = subs[0] if "std::convert::TryFrom::try_from" in names else subs[1]
                tr = _ty_range(to)
                if tr is not None:
                    lo, hi = max(a0.lo, tr[0]), min(a0.hi, tr[1])
                    path.events.append(ev)
                    if lo > hi:
                        return [cont(Adt("std::result::Result", 1, [UNK]))]
                    if lo == a0.lo and hi == a0.hi:
                        return [cont(Adt("std::result::Result", 0, [a0]))]
                    one_sided = a0.lo >= tr[0] or a0.hi <= tr[1]
                    e2, p2 = self._clone(env, path)
                    self.npaths += 1
                    if one_sided:
                        r2 = p2.memos[-1].get(id(a0))
                        if r2 is not None:
                            if a0.lo >= tr[0]:
                                r2.lo = hi + 1
                            else:
                                r2.hi = lo - 1
                    err = cont(Adt("std::result::Result", 1, [UNK]), p2, e2)
                    a0.lo, a0.hi = lo, hi
                    return [cont(Adt("std::result::Result", 0, [a0])), err]
        # a call through a generic `F: Fn*` parameter whose value is a known closure / fn item
        if len(args) == 2 and any(n in names for n in ("std::ops::Fn::call", "std::ops::FnMut::call_mut",
                                                        "std::ops::FnOnce::call_once")) and "resolved" not in t["callee"]:
            clo = self._deref(args[0], path)
            tup = self._deref(args[1], path)
            if isinstance(clo, FnItem) and isinstance(tup, Tup) and not t.get("_redispatched"):
                # `parse_contents(self, close)` with `parse_contents = Self::parse_list`: an ordinary call of that
                # function - hooks and the inline policy see it as such
                cf = self.find_fn(clo.path)
                if cf is not None and cf.kind != "closure" and len(tup.fields) == cf.arg_count:
                    base = len(env)
                    env.extend(tup.fields)
                    t2 = dict(t)
                    t2["callee"] = {"path": clo.path, "resolved": clo.path, "resolved_kind": "Item", "crate": cf.crate,
                                    "resolved_crate": cf.crate, "method": clo.path.rsplit("::", 1)[-1]}
                    t2["args"] = [{"c": "move", "pl": {"l": base + i, "p": []}} for i in range(len(tup.fields))]
                    t2["arg_tys"] = [cf.local_ty(i + 1) for i in range(cf.arg_count)]
                    t2["_redispatched"] = True
                    return self._call(fn, env, bb, t2, path, depth)
            if isinstance(clo, (Closure, FnItem)) and isinstance(tup, Tup):
                r = self.call_closure(clo, list(tup.fields), fn, env, bb, t, path, depth, cont)
                if r is not None:
                    return r
        if self.structural_vec and "resolved" not in t["callee"] or self.structural_vec and t["callee"].get("resolved_crate") in ("core", "alloc", "std"):
            r = self._iter_calls(fn, env, bb, t, args, names, path, depth, cont)
            if r is not None:
                return r
        # next() on a std adaptor that _skip resolved to the advanced local iterator itself
        if "std::iter::Iterator::next" in names and len(args) == 1:
            st = (t["callee"].get("substs") or [""])[0]
            itv = self._deref(args[0], path)
            if st.startswith("std::iter::Skip<") and isinstance(itv, Adt) and st[len("std::iter::Skip<"):].split("<")[0] == itv.adt:
                nf = self._local_next(itv.adt)
                if nf is not None and depth < self.max_depth:
                    return self._inline(fn, env, bb, t, path, depth, nf, args, cont)
        # higher-order std adaptors applied to known closures
        ho = self._higher_order(fn, env, bb, t, args, path, depth, cont, ev)
        if ho is not None:
            return ho
        # builtin models
        m = self._builtin(t, names, args, path)
        if m is not None:
            if m[0] == "panic":
                path.events.append(ev)
                path.events.append(("panic", m[1], fn.path, bb))
                path.end = "panic"
                return [(env, path, None)]
            return [cont(m[1])]
        # inline local callee
        c = t["callee"]
        target = c.get("resolved") or c.get("path")
        callee_fn = None
        if target and c.get("resolved_kind", "Item") == "Item":
            callee_fn = self.find_fn(target, c.get("resolved_crate") or c.get("crate"))
            if callee_fn is None:
                callee_fn = self.find_dp(c.get("resolved_dp") or c.get("dp"))
        if callee_fn is not None and depth < self.max_depth and self.inline(fn, callee_fn):
            cargs = args
            if callee_fn.kind == "closure" and any(n in names for n in (
                    "std::ops::Fn::call", "std::ops::FnMut::call_mut", "std::ops::FnOnce::call_once")) and len(args) == 2:
                tup = self._deref(args[1], path)
                if isinstance(tup, Tup):
                    cargs = [args[0]] + list(tup.fields)
            return self._inline(fn, env, bb, t, path, depth, callee_fn, cargs, cont)
        # an unmodelled call that may write through a `&mut` to a structural vector: its contents are unknown now
        for i, a in enumerate(args):
            tys = t.get("arg_tys") or []
            if isinstance(a, Ref) and (i >= len(tys) or tys[i].startswith("&mut ")):
                v = self._deref(a, path)
                if isinstance(v, Adt) and v.adt == "sim::Vec":
                    v.fields[0] = Tup([UNK])
        path.events.append(ev)
        return [cont(UNK)]

    def _iter_calls(self, fn, env, bb, t, args, names, path, depth, cont):
        """Lazy adaptors and consumers over iterators the simulator can follow (see _iter_next)."""
        d0 = self._deref(args[0], path) if args else None
        if "std::iter::Iterator::map" in names and len(args) == 2 and self._followable(d0) \
                and isinstance(args[1], (Closure, FnItem)):
            return [cont(Adt("sim::Map", 0, [Ref([d0], 0, ()), args[1]]))]
        if "std::iter::Iterator::enumerate" in names and len(args) == 1 and self._followable(d0):
            return [cont(Adt("sim::Enumerate", 0, [Ref([d0], 0, ()), 0]))]
        if "std::iter::Iterator::zip" in names and len(args) == 2 and self._followable(d0):
            d1 = self._deref(args[1], path)
            if self._followable(d1):
                return [cont(Adt("sim::Zip", 0, [Ref([d0], 0, ()), Ref([d1], 0, ())]))]
        if "std::iter::Iterator::next" in names and len(args) == 1 and isinstance(d0, Adt) \
                and d0.adt in ("sim::Map", "sim::Enumerate", "sim::Zip") \
                and isinstance(args[0], Ref):
            def got(rv, sp, e, tr):
                return [cont(rv if rv is not None else UNK, sp, e)]
            return self._iter_next(fn, env, bb, t, path, depth, args[0], got)
        consumer = None
        if "std::iter::Extend::extend" in names and len(args) == 2:
            v = d0
            src = self._deref(args[1], path)
            if isinstance(v, Adt) and v.adt == "sim::Vec":
                if isinstance(src, Adt) and src.adt == "sim::Vec":
                    v.fields[0].fields.extend(src.fields[0].fields)
                    return [cont(Tup([]))]
                if self._followable(src):
                    consumer = ("extend", args[0], Ref([src], 0, ()))
        elif "std::iter::Iterator::collect" in names and len(args) == 1 and self._followable(d0) \
                and (t["callee"].get("substs") or ["", ""])[-1].startswith("std::vec::Vec<"):
            consumer = ("collect", None, Ref([d0], 0, ()))
        elif "std::iter::Iterator::count" in names and len(args) == 1 and self._followable(d0):
            consumer = ("count", None, Ref([d0], 0, ()))
        if consumer is None:
            return None
        kind, vecref, itref = consumer

        def done(items, sp, e, tr):
            if items is None:
                if kind == "extend":
                    vv = self._deref(tr(vecref), sp)
                    if isinstance(vv, Adt) and vv.adt == "sim::Vec":
                        vv.fields[0] = Tup([UNK])
                return [cont(UNK if kind != "extend" else Tup([]), sp, e)]
            if kind == "extend":
                vv = self._deref(tr(vecref), sp)
                if isinstance(vv, Adt) and vv.adt == "sim::Vec":
                    vv.fields[0].fields.extend(items)
                return [cont(Tup([]), sp, e)]
            if kind == "collect":
                return [cont(Adt("sim::Vec", 0, [Tup(list(items))]), sp, e)]
            return [cont(len(items), sp, e)]
        return self._drain(fn, env, bb, t, path, depth, itref, [], done)

    def _inline(self, fn, env, bb, t, path, depth, callee_fn, args, cont):
        path.events.append(("enter", callee_fn.path, fn.path, bb))
        amap = {i + 1: a for i, a in enumerate(args)}
        n0 = len(path.memos)
        self._tyenv.append(self._callee_tyenv(t, callee_fn))
        try:
            sub = self._run_fn(callee_fn, amap, path, depth + 1)
        finally:
            self._tyenv.pop()
        outs = []
        first = True
        for sp in sub:
            e, own = self._caller_env(env, sp, n0)
            if sp.end == "return":
                sp.events.append(("leave", callee_fn.path))
                rv = sp.ret
                sp.end = None
                sp.ret = UNK
                if own:
                    # the callee forked with this frame's environment in reach: the path has its own copy of it
                    outs.append(cont(rv, sp, e))
                elif first:
                    outs.append(cont(rv, sp, env))
                    first = False
                else:
                    memo = {}
                    e2 = self._copy_env(env, memo)
                    sp.memos = sp.memos + [memo]
                    outs.append(cont(self._copy_val(rv, memo), sp, e2))
            else:
                outs.append((e, sp, None))
        return outs

    def _callee_tyenv(self, t, callee_fn):
        """Type parameters of the callee -> what the call site passes for them (through the caller's own bindings)."""
        if callee_fn.kind == "closure":
            return dict(self._tyenv[-1])      # a closure shares the type parameters of the function it is written in
        gens = callee_fn.d.get("generics")
        c = t.get("callee", {})
        subs = c.get("substs")
        target = c.get("resolved") or c.get("path")
        if not gens or not subs or len(gens) != len(subs) or target != callee_fn.path:
            return {}
        cur = self._tyenv[-1]
        out = {}
        for g, sv in zip(gens, subs):
            if g.startswith("'"):
                continue
            sv = cur.get(sv, sv)
            if sv != g or sv in cur:
                out[g] = sv
        # only bindings to something concrete help (a caller's own parameter name is still a parameter)
        return out

    @staticmethod
    def _caller_env(env, sp, n0):
        """The caller's environment as the sub-path sp sees it: forks inside the callee copy everything in reach,
        which includes the caller's environment whenever the callee holds a reference into it."""
        e = env
        for memo in sp.memos[n0:]:
            e = memo.get(id(e), e)
        return e, e is not env

    def _inline_multi(self, fn, env, bb, t, path, depth, callee_fn, args, contm):
        """Like _inline, but the continuation returns a list of outs and receives a translation function for
        values captured before the call (forked paths work on a copy of the environment)."""
        path.events.append(("enter", callee_fn.path, fn.path, bb))
        amap = {i + 1: a for i, a in enumerate(args)}
        n0 = len(path.memos)
        self._tyenv.append(self._callee_tyenv(t, callee_fn))
        try:
            sub = self._run_fn(callee_fn, amap, path, depth + 1)
        finally:
            self._tyenv.pop()
        outs = []
        first = True
        for sp in sub:
            e, own = self._caller_env(env, sp, n0)
            if sp.end == "return":
                sp.events.append(("leave", callee_fn.path))
                rv = sp.ret
                sp.end = None
                sp.ret = UNK
                if own:
                    def tr(v, memos=sp.memos[n0:]):
                        for m in memos:
                            v = self._copy_val(v, m)
                        return v
                    outs.extend(contm(rv, sp, e, tr))
                elif first:
                    outs.extend(contm(rv, sp, env, lambda v: v))
                    first = False
                else:
                    memo = {}
                    e2 = self._copy_env(env, memo)
                    sp.memos = sp.memos + [memo]
                    outs.extend(contm(self._copy_val(rv, memo), sp, e2, lambda v, memo=memo: self._copy_val(v, memo)))
            else:
                outs.append((e, sp, None))
        return outs

    def _find_map(self, fn, env, bb, t, path, depth, cont, it, f, next_fn, k):
        """Iterator::find_map over a local iterator type: next() and the closure are evaluated in turn until the
        closure answers Some or the iterator ends (at most 16 items)."""
        if k > 16 or depth >= self.max_depth:
            path.end = "stop:iter-limit"
            return [(env, path, None)]
        ff = self.find_fn(f.path)
        if ff is None:
            return [cont(UNK, path, env)]

        def after_next(rv, sp, e, tr):
            it2, f2 = tr(it), tr(f)
            if not isinstance(rv, Adt):
                return [cont(UNK, sp, e)]
            if rv.variant == 0:
                return [cont(Adt("std::option::Option", 0, []), sp, e)]
            x = rv.fields[0]

            def after_f(r, sp2, e2, tr2):
                if not isinstance(r, Adt):
                    return [cont(UNK, sp2, e2)]
                if r.variant == 1:
                    return [cont(r, sp2, e2)]
                return self._find_map(fn, e2, bb, t, sp2, depth, cont, tr2(it2), tr2(f2), next_fn, k + 1)

            cargs = [f2, x] if isinstance(f2, Closure) else [x]
            return self._inline_multi(fn, e, bb, t, sp, depth, ff, cargs, after_f)

        return self._inline_multi(fn, env, bb, t, path, depth, next_fn, [it], after_next)

    def _skip(self, fn, env, bb, t, path, depth, cont, itref, next_fn, n):
        """Iterator::skip(n) over a local iterator: next() is evaluated n times now (the adaptor does the same on
        its first use and the local iterators have no side effects besides advancing) and the advanced iterator
        stands for the adaptor."""
        if n <= 0:
            return [cont(self._deref(itref, path), path, env)]
        if depth >= self.max_depth:
            return [cont(UNK, path, env)]

        def after_next(rv, sp, e, tr):
            it2 = tr(itref)
            if not isinstance(rv, Adt):
                return [cont(UNK, sp, e)]
            if rv.variant == 0:
                return [cont(self._deref(it2, sp), sp, e)]
            return self._skip(fn, e, bb, t, sp, depth, cont, it2, next_fn, n - 1)

        return self._inline_multi(fn, env, bb, t, path, depth, next_fn, [itref], after_next)

    def _all_any(self, fn, env, bb, t, path, depth, cont, it, f, next_fn, k, want_all):
        """Iterator::all / any over a local iterator type: next() and the predicate are evaluated in turn until the
        predicate decides or the iterator ends (at most 16 items)."""
        if k > 16 or depth >= self.max_depth:
            path.end = "stop:iter-limit"
            return [(env, path, None)]
        ff = self.find_fn(f.path)
        if ff is None:
            return [cont(UNK, path, env)]

        def after_next(rv, sp, e, tr):
            it2, f2 = tr(it), tr(f)
            if not isinstance(rv, Adt):
                return [cont(UNK, sp, e)]
            if rv.variant == 0:
                return [cont(1 if want_all else 0, sp, e)]
            x = rv.fields[0]

            def after_f(r, sp2, e2, tr2):
                if not isinstance(r, int):
                    return [cont(UNK, sp2, e2)]
                if want_all and r == 0:
                    return [cont(0, sp2, e2)]
                if not want_all and r == 1:
                    return [cont(1, sp2, e2)]
                return self._all_any(fn, e2, bb, t, sp2, depth, cont, tr2(it2), tr2(f2), next_fn, k + 1, want_all)

            cargs = [f2, x] if isinstance(f2, Closure) else [x]
            return self._inline_multi(fn, e, bb, t, sp, depth, ff, cargs, after_f)

        return self._inline_multi(fn, env, bb, t, path, depth, next_fn, [it], after_next)

    def _all_any_follow(self, fn, env, bb, t, path, depth, cont, itref, f, k, want_all):
        """Iterator::all / any over an adaptor the simulator follows (zip / map / enumerate of followable iterators)."""
        if k > 16 or depth >= self.max_depth:
            path.end = "stop:iter-limit"
            return [(env, path, None)]
        ff = self.find_fn(f.path)
        if ff is None:
            return [cont(UNK, path, env)]

        def step(rv, sp, e, tr):
            f2 = tr(f)
            if rv is None or not isinstance(rv, Adt):
                return [cont(UNK, sp, e)]
            if rv.variant == 0:
                return [cont(1 if want_all else 0, sp, e)]

            def after_f(r, sp2, e2, tr2):
                if not isinstance(r, int):
                    return [cont(UNK, sp2, e2)]
                if want_all and r == 0:
                    return [cont(0, sp2, e2)]
                if not want_all and r == 1:
                    return [cont(1, sp2, e2)]
                return self._all_any_follow(fn, e2, bb, t, sp2, depth, cont, tr2(tr(itref)), tr2(f2), k + 1, want_all)

            cargs = [f2, rv.fields[0]] if isinstance(f2, Closure) else [rv.fields[0]]
            return self._inline_multi(fn, e, bb, t, sp, depth, ff, cargs, after_f)
        return self._iter_next(fn, env, bb, t, path, depth, itref, step)

    def _all_any_items(self, fn, env, bb, t, path, depth, cont, items, k, f, want_all):
        """Iterator::all / any over the remaining items of a known array / slice iterator."""
        if k >= len(items):
            return [cont(1 if want_all else 0, path, env)]
        ff = self.find_fn(f.path)
        if ff is None or depth >= self.max_depth:
            return [cont(UNK, path, env)]

        def after(rv, sp, e, tr):
            if not isinstance(rv, int):
                return [cont(UNK, sp, e)]
            if want_all and rv == 0:
                return [cont(0, sp, e)]
            if not want_all and rv == 1:
                return [cont(1, sp, e)]
            return self._all_any_items(fn, e, bb, t, sp, depth, cont, [tr(x) for x in items], k + 1, tr(f), want_all)

        cargs = [f, items[k]] if isinstance(f, Closure) else [items[k]]
        return self._inline_multi(fn, env, bb, t, path, depth, ff, cargs, after)

    def _find_items(self, fn, env, bb, t, path, depth, cont, items, k, f):
        """Iterator::find over the remaining items of a known array / slice iterator (the predicate takes `&item`)."""
        if k >= len(items):
            return [cont(Adt("std::option::Option", 0, []), path, env)]
        ff = self.find_fn(f.path)
        if ff is None or depth >= self.max_depth:
            return [cont(UNK, path, env)]

        def after(rv, sp, e, tr):
            if not isinstance(rv, int):
                return [cont(UNK, sp, e)]
            its = [tr(x) for x in items]
            if rv == 1:
                return [cont(Adt("std::option::Option", 1, [its[k]]), sp, e)]
            return self._find_items(fn, e, bb, t, sp, depth, cont, its, k + 1, tr(f))

        argk = Ref([items[k]], 0, ())
        cargs = [f, argk] if isinstance(f, Closure) else [argk]
        return self._inline_multi(fn, env, bb, t, path, depth, ff, cargs, after)

    def _position_items(self, fn, env, bb, t, path, depth, cont, items, k, f):
        """Iterator::position over the remaining items of a known array / slice iterator."""
        if k >= len(items):
            return [cont(Adt("std::option::Option", 0, []), path, env)]
        ff = self.find_fn(f.path)
        if ff is None or depth >= self.max_depth:
            return [cont(UNK, path, env)]

        def after(rv, sp, e, tr):
            if not isinstance(rv, int):
                return [cont(UNK, sp, e)]
            if rv == 1:
                return [cont(Adt("std::option::Option", 1, [k]), sp, e)]
            return self._position_items(fn, e, bb, t, sp, depth, cont, [tr(x) for x in items], k + 1, tr(f))

        cargs = [f, items[k]] if isinstance(f, Closure) else [items[k]]
        return self._inline_multi(fn, env, bb, t, path, depth, ff, cargs, after)

    def _fold(self, fn, env, bb, t, path, depth, cont, items, k, acc, f):
        """Iterator::fold over the remaining items of a known array / slice iterator."""
        if k >= len(items):
            return [cont(acc, path, env)]
        ff = self.find_fn(f.path)
        if ff is None or depth >= self.max_depth:
            return [cont(UNK, path, env)]

        def after(rv, sp, e, tr):
            return self._fold(fn, e, bb, t, sp, depth, cont, [tr(x) for x in items], k + 1, rv, tr(f))

        cargs = [f, acc, items[k]] if isinstance(f, Closure) else [acc, items[k]]
        return self._inline_multi(fn, env, bb, t, path, depth, ff, cargs, after)

    def _nth(self, fn, env, bb, t, path, depth, cont, itref, next_fn, n):
        """Iterator::nth(n) over a local iterator held behind `itref`: n + 1 calls of next(), the last one's answer."""
        if depth >= self.max_depth:
            return [cont(UNK, path, env)]

        def after_next(rv, sp, e, tr):
            if not isinstance(rv, Adt):
                return [cont(UNK, sp, e)]
            if rv.variant == 0 or n == 0:
                return [cont(rv, sp, e)]
            return self._nth(fn, e, bb, t, sp, depth, cont, tr(itref), next_fn, n - 1)

        return self._inline_multi(fn, env, bb, t, path, depth, next_fn, [itref], after_next)

    def _iter_next(self, fn, env, bb, t, path, depth, itref, contm):
        """One step of an iterator the simulator can follow, held behind the reference `itref`: a known slice / array
        iterator, an integer range, an iterator type of the analysed crates (its own `next` runs as MIR), or a
        `map` adaptor over one of these (`sim::Map`).  contm(item_option_or_None, path, env, translate) -> outs;
        None means the iterator is not one of these."""
        it = self._deref(itref, path)
        if not isinstance(it, Adt):
            return contm(None, path, env, lambda v: v)
        if it.adt == "sim::SliceIter":
            seq, i = it.fields[0], it.fields[1]
            elems = seq.b if isinstance(seq, Bytes) else seq.fields
            if i < len(elems):
                it.fields[1] = i + 1
                item = elems[i] if len(it.fields) > 2 else Ref([elems[i]], 0, ())
                return contm(Adt("std::option::Option", 1, [item]), path, env, lambda v: v)
            return contm(Adt("std::option::Option", 0, []), path, env, lambda v: v)
        if it.adt == "sim::Zip":
            # one step of each side; the first side to run out ends the pair iterator (the other side is not asked then)
            def after_left(rv, sp, e, tr):
                if not isinstance(rv, Adt):
                    return contm(None, sp, e, tr)
                if rv.variant == 0:
                    return contm(rv, sp, e, tr)
                me = self._deref(tr(itref), sp)

                def after_right(rv2, sp2, e2, tr2):
                    if not isinstance(rv2, Adt):
                        return contm(None, sp2, e2, lambda v: tr2(tr(v)))
                    if rv2.variant == 0:
                        return contm(rv2, sp2, e2, lambda v: tr2(tr(v)))
                    return contm(Adt("std::option::Option", 1, [Tup([tr2(rv.fields[0]), rv2.fields[0]])]), sp2, e2,
                                 lambda v: tr2(tr(v)))
                return self._iter_next(fn, e, bb, t, sp, depth, me.fields[1], after_right)
            return self._iter_next(fn, env, bb, t, path, depth, it.fields[0], after_left)
        if it.adt == "sim::Enumerate":
            def after_counted(rv, sp, e, tr):
                if not isinstance(rv, Adt):
                    return contm(None, sp, e, tr)
                if rv.variant == 0:
                    return contm(rv, sp, e, tr)
                me = self._deref(tr(itref), sp)
                n = me.fields[1]
                me.fields[1] = n + 1
                return contm(Adt("std::option::Option", 1, [Tup([n, rv.fields[0]])]), sp, e, tr)
            return self._iter_next(fn, env, bb, t, path, depth, it.fields[0], after_counted)
        if it.adt == "sim::Map":
            inner_cell, f = it.fields[0], it.fields[1]

            def after_inner(rv, sp, e, tr):
                if not isinstance(rv, Adt):
                    return contm(None, sp, e, tr)
                if rv.variant == 0:
                    return contm(rv, sp, e, tr)
                f2 = tr(f)
                ff = self.find_fn(f2.path) if isinstance(f2, (Closure, FnItem)) else None
                if ff is None or depth >= self.max_depth:
                    return contm(Adt("std::option::Option", 1, [UNK]), sp, e, tr)

                def after_f(r2, sp2, e2, tr2):
                    return contm(Adt("std::option::Option", 1, [r2]), sp2, e2, lambda v: tr2(tr(v)))
                cargs = [f2, rv.fields[0]] if isinstance(f2, Closure) else [rv.fields[0]]
                return self._inline_multi(fn, e, bb, t, sp, depth, ff, cargs, after_f)
            return self._iter_next(fn, env, bb, t, path, depth, inner_cell, after_inner)
        nf = self._local_next(it.adt)
        if nf is not None and depth < self.max_depth:
            return self._inline_multi(fn, env, bb, t, path, depth, nf, [itref], contm)
        return contm(None, path, env, lambda v: v)

    def _drain(self, fn, env, bb, t, path, depth, itref, acc, done, k=0):
        """Pull items until the iterator ends (at most 32): done(list_of_items_or_None, path, env, translate) -> outs."""
        if k > 32:
            return done(None, path, env, lambda v: v)

        def step(rv, sp, e, tr):
            acc2 = [tr(x) for x in acc]
            if rv is None or not isinstance(rv, Adt):
                return done(None, sp, e, tr)
            if rv.variant == 0:
                return done(acc2, sp, e, tr)
            def done2(items, sp2, e2, tr2):
                return done(items, sp2, e2, lambda v: tr2(tr(v)))
            return self._drain(fn, e, bb, t, sp, depth, tr(itref), acc2 + [rv.fields[0]], done2, k + 1)
        return self._iter_next(fn, env, bb, t, path, depth, itref, step)

    def _followable(self, v):
        return isinstance(v, Adt) and (v.adt in ("sim::SliceIter", "sim::Map", "sim::Enumerate", "sim::Zip") or self._local_next(v.adt) is not None)

    def _local_next(self, self_ty):
        """The local `Iterator::next` implementation for an iterator type, if any."""
        base = self_ty.split("<")[0]
        for c in self.crates:
            for g in c.fns:
                if g.impl_trait == "std::iter::Iterator" and g.path.endswith("::next") and (g.self_ty or "").split("<")[0] == base:
                    return g
        return None

    def call_closure(self, clo, cargs, fn, env, bb, t, path, depth, cont):
        """Invoke a closure / fn item value with argument list cargs; returns outs or None."""
        if isinstance(clo, Closure):
            cf = self.find_fn(clo.path)
            if cf is None or depth >= self.max_depth:
                return None
            # closure MIR: _1 = the closure (or a reference to it), _2.. = args
            return self._inline(fn, env, bb, t, path, depth, cf, [clo] + list(cargs), cont)
        if isinstance(clo, FnItem):
            ctor = {"Some": ("std::option::Option", 1), "Ok": ("std::result::Result", 0),
                    "Err": ("std::result::Result", 1)}.get(clo.path.rsplit("::", 1)[-1]) \
                if clo.path.startswith(("std::prelude::", "std::option::Option::", "std::result::Result::", "core::")) else None
            if ctor and len(cargs) == 1:
                return [cont(Adt(ctor[0], ctor[1], [cargs[0]]))]
            # a tuple-variant / tuple-struct constructor of a known type used as a function (`.map(N::PosInt)`)
            base, _, vname = clo.path.split("::<")[0].rpartition("::")
            a = self.adts.get(base)
            if a is not None:
                for v in a["variants"]:
                    if v["name"] == vname and len(v["fields"]) == len(cargs):
                        return [cont(Adt(base, v["idx"], list(cargs), vname))]
            cf = self.find_fn(clo.path)
            if cf is None or depth >= self.max_depth:
                return None
            return self._inline(fn, env, bb, t, path, depth, cf, list(cargs), cont)
        return None

    def _deref(self, v, path):
        while isinstance(v, Ref):
            v = self._read_ref(v, path)
        return v

    def _higher_order(self, fn, env, bb, t, args, path, depth, cont, ev):
        p = t["callee"].get("path", "")
        if len(args) < 2:
            return None
        x = self._deref(args[0], path)
        f = args[1]
        R, O = "std::result::Result::<T, E>::", "std::option::Option::<T>::"
        if p == "core::bool::<impl bool>::then" and isinstance(x, int) and isinstance(f, (Closure, FnItem)):
            if x == 0:
                return [cont(Adt("std::option::Option", 0, []))]

            def some_cont(val, p2=path, e2=env):
                return cont(Adt("std::option::Option", 1, [val]), p2, e2)
            return self.call_closure(f, [], fn, env, bb, t, path, depth, some_cont)
        if p == "core::bool::<impl bool>::then_some" and isinstance(x, int):
            return [cont(Adt("std::option::Option", 1, [f]) if x else Adt("std::option::Option", 0, []))]
        if p == "std::iter::Iterator::find_map" and isinstance(f, (Closure, FnItem)):
            substs = t["callee"].get("substs") or []
            nf = self._local_next(substs[0]) if substs else None
            if nf is not None:
                return self._find_map(fn, env, bb, t, path, depth, cont, args[0], f, nf, 0)
        if p == "std::iter::Iterator::find" and isinstance(f, (Closure, FnItem)) and isinstance(x, Adt) \
                and x.adt == "sim::SliceIter":
            seq, i = x.fields[0], x.fields[1]
            elems = list(seq.b if isinstance(seq, Bytes) else seq.fields)[i:]
            items = [e if len(x.fields) > 2 else Ref([e], 0, ()) for e in elems]
            return self._find_items(fn, env, bb, t, path, depth, cont, items, 0, f)
        if p == "std::iter::Iterator::position" and isinstance(f, (Closure, FnItem)) and isinstance(x, Adt) \
                and x.adt == "sim::SliceIter":
            seq, i = x.fields[0], x.fields[1]
            elems = list(seq.b if isinstance(seq, Bytes) else seq.fields)[i:]
            items = [e if len(x.fields) > 2 else Ref([e], 0, ()) for e in elems]
            return self._position_items(fn, env, bb, t, path, depth, cont, items, 0, f)
        if p in ("std::iter::Iterator::all", "std::iter::Iterator::any") and isinstance(f, (Closure, FnItem)) \
                and isinstance(x, Adt) and x.adt == "sim::SliceIter":
            seq, i = x.fields[0], x.fields[1]
            elems = list(seq.b if isinstance(seq, Bytes) else seq.fields)[i:]
            items = [e if len(x.fields) > 2 else Ref([e], 0, ()) for e in elems]
            return self._all_any_items(fn, env, bb, t, path, depth, cont, items, 0, f, p.endswith("::all"))
        if p in ("std::iter::Iterator::all", "std::iter::Iterator::any") and isinstance(f, (Closure, FnItem)) \
                and isinstance(x, Adt) and x.adt in ("sim::Zip", "sim::Map", "sim::Enumerate"):
            itref = args[0] if isinstance(args[0], Ref) else Ref([x], 0, ())
            return self._all_any_follow(fn, env, bb, t, path, depth, cont, itref, f, 0, p.endswith("::all"))
        if p in ("std::iter::Iterator::all", "std::iter::Iterator::any") and isinstance(f, (Closure, FnItem)):
            substs = t["callee"].get("substs") or []
            nf = self._local_next(substs[0]) if substs else None
            if nf is not None:
                return self._all_any(fn, env, bb, t, path, depth, cont, args[0], f, nf, 0, p.endswith("::all"))
        if p == "std::iter::Iterator::fold" and len(args) == 3 and isinstance(x, Adt) and x.adt == "sim::SliceIter" \
                and isinstance(args[2], (Closure, FnItem)):
            seq, i = x.fields[0], x.fields[1]
            elems = list(seq.b if isinstance(seq, Bytes) else seq.fields)[i:]
            items = [e if len(x.fields) > 2 else Ref([e], 0, ()) for e in elems]
            x.fields[1] = i + len(elems)
            return self._fold(fn, env, bb, t, path, depth, cont, items, 0, args[1], args[2])
        if p == "std::iter::Iterator::nth" and isinstance(f, int) and 0 <= f <= 8 and isinstance(x, Adt) \
                and isinstance(args[0], Ref):
            substs = t["callee"].get("substs") or []
            nf = self._local_next(substs[0]) if substs else None
            if nf is not None:
                return self._nth(fn, env, bb, t, path, depth, cont, args[0], nf, f)
        if p == "std::iter::Iterator::skip" and isinstance(f, int) and 0 <= f <= 4 and isinstance(x, Adt):
            substs = t["callee"].get("substs") or []
            nf = self._local_next(substs[0]) if substs else None
            if nf is not None:
                return self._skip(fn, env, bb, t, path, depth, cont, Ref([x], 0, ()), nf, f)
        if p in (O + "map_or_else", R + "map_or_else") and len(args) == 3 and isinstance(x, Adt) \
                and isinstance(args[1], (Closure, FnItem)) and isinstance(args[2], (Closure, FnItem)):
            some = x.variant == (1 if p.startswith(O) else 0)
            if some:
                return self.call_closure(args[2], [x.fields[0]], fn, env, bb, t, path, depth, cont)
            # Option: default(); Result: default(err)
            return self.call_closure(args[1], [] if p.startswith(O) else [x.fields[0]], fn, env, bb, t, path, depth, cont)
        if p in (O + "map_or", R + "map_or") and len(args) == 3 and isinstance(x, Adt) \
                and isinstance(args[2], (Closure, FnItem)):
            some = x.variant == (1 if p.startswith(O) else 0)
            if not some:
                return [cont(args[1])]
            return self.call_closure(args[2], [x.fields[0]], fn, env, bb, t, path, depth, cont)
        if not isinstance(f, (Closure, FnItem)) or not isinstance(x, Adt):
            return None

        def wrap_cont(mk):
            def c2(val, p2=path, e2=env):
                return cont(mk(val), p2, e2)
            return c2

        if p == R + "and_then":
            if x.variant == 1:
                return [cont(Adt(x.adt, 1, x.fields))]
            return self.call_closure(f, [x.fields[0]], fn, env, bb, t, path, depth, cont)
        if p == O + "and_then":
            if x.variant == 0:
                return [cont(Adt(x.adt, 0, []))]
            return self.call_closure(f, [x.fields[0]], fn, env, bb, t, path, depth, cont)
        if p == R + "map":
            if x.variant == 1:
                return [cont(Adt(x.adt, 1, x.fields))]
            return self.call_closure(f, [x.fields[0]], fn, env, bb, t, path, depth,
                                     wrap_cont(lambda v: Adt("std::result::Result", 0, [v])))
        if p == R + "map_err":
            if x.variant == 0:
                return [cont(Adt(x.adt, 0, x.fields))]
            return self.call_closure(f, [x.fields[0]], fn, env, bb, t, path, depth,
                                     wrap_cont(lambda v: Adt("std::result::Result", 1, [v])))
        if p == R + "or_else":
            if x.variant == 0:
                return [cont(Adt(x.adt, 0, x.fields))]
            return self.call_closure(f, [x.fields[0]], fn, env, bb, t, path, depth, cont)
        if p == O + "map":
            if x.variant == 0:
                return [cont(Adt(x.adt, 0, []))]
            return self.call_closure(f, [x.fields[0]], fn, env, bb, t, path, depth,
                                     wrap_cont(lambda v: Adt("std::option::Option", 1, [v])))
        if p == O + "ok_or_else":
            if x.variant == 1:
                return [cont(Adt("std::result::Result", 0, [x.fields[0]]))]
            return self.call_closure(f, [], fn, env, bb, t, path, depth,
                                     wrap_cont(lambda v: Adt("std::result::Result", 1, [v])))
        if p == O + "or_else":
            if x.variant == 1:
                return [cont(x)]
            return self.call_closure(f, [], fn, env, bb, t, path, depth, cont)
        if p == O + "unwrap_or_else":
            if x.variant == 1:
                return [cont(x.fields[0])]
            return self.call_closure(f, [], fn, env, bb, t, path, depth, cont)
        if p in (O + "is_some_and", R + "is_ok_and"):
            some = x.variant == (1 if p.startswith(O) else 0)
            if not some:
                return [cont(0)]
            return self.call_closure(f, [x.fields[0]], fn, env, bb, t, path, depth, cont)
        return None

    def _builtin(self, t, names, args, path):
        c = t["callee"]
        p = c.get("path", "")
        substs = c.get("substs", [])
        d = [self._deref(a, path) for a in args]

        def has(*ns):
            return any(n in names for n in ns)

        rs = c.get("resolved") or ""
        if self.structural_vec and p in ("std::vec::Vec::<T>::new", "std::vec::Vec::<T>::with_capacity"):
            return ("value", Adt("sim::Vec", 0, [Tup([])]))
        # a vector with known elements (`sim::Vec`, built by a rule): length, indexing, checked access, iteration
        is_vec = bool(d) and isinstance(d[0], Adt) and d[0].adt == "sim::Vec"
        if is_vec or (d and isinstance(d[0], (Tup, Bytes)) and "<impl [T]>::" in p):
            tup = d[0].fields[0] if is_vec else d[0]
            items = tup.b if isinstance(tup, Bytes) else tup.fields
            last = p.rsplit("::", 1)[-1].split("::<")[0]
            if last == "len" and len(d) == 1:
                return ("value", len(items))
            if last == "is_empty" and len(d) == 1:
                return ("value", int(not items))
            if is_vec and (has("std::ops::Deref::deref", "std::ops::DerefMut::deref_mut", "std::convert::AsRef::as_ref")
                           or last in ("as_slice", "as_mut_slice")):
                return ("value", Ref(d[0].fields, 0, ()))      # the elements, as a slice
            if has("std::ops::Index::index", "std::ops::IndexMut::index_mut") and len(d) == 2 and isinstance(d[1], int):
                if 0 <= d[1] < len(items):
                    return ("value", Ref(items, d[1], ()))
                return ("panic", "index out of bounds")
            if last in ("get", "get_mut") and len(d) == 2 and isinstance(d[1], int):
                if 0 <= d[1] < len(items):
                    return ("value", Adt("std::option::Option", 1, [Ref(items, d[1], ())]))
                return ("value", Adt("std::option::Option", 0, []))
            if last == "contains" and len(d) == 2 and isinstance(d[1], int) and all(isinstance(x, int) for x in items):
                return ("value", int(d[1] in items))
            if last in ("split_first", "split_last") and len(d) == 1 and not isinstance(tup, Bytes):
                # `(first, rest)` / `(last, rest)`: the element by reference, the remaining elements as a slice of their own
                if not items:
                    return ("value", Adt("std::option::Option", 0, []))
                if last == "split_first":
                    return ("value", Adt("std::option::Option", 1, [Tup([Ref(items, 0, ()), Ref([Tup(list(items[1:]))], 0, ())])]))
                return ("value", Adt("std::option::Option", 1, [Tup([Ref(items, len(items) - 1, ()), Ref([Tup(list(items[:-1]))], 0, ())])]))
            if last in ("first", "last") and len(d) == 1:
                if items:
                    return ("value", Adt("std::option::Option", 1, [Ref(items, 0 if last == "first" else len(items) - 1, ())]))
                return ("value", Adt("std::option::Option", 0, []))
            if last == "iter" and len(d) == 1 or has("std::iter::IntoIterator::into_iter") and isinstance(args[0], Ref):
                return ("value", Adt("sim::SliceIter", 0, [tup, 0]))
            if has("std::iter::IntoIterator::into_iter"):
                return ("value", Adt("sim::SliceIter", 0, [tup, 0, "by-value"]))
            if is_vec and last == "clear" and len(d) == 1:
                del items[:]
                return ("value", Tup([]))
            if is_vec and last == "push" and len(d) == 2:
                items.append(args[1])
                return ("value", Tup([]))
        if (p.endswith("<impl [T]>::starts_with") or p.endswith("<impl [T]>::ends_with")) and len(d) == 2:
            def as_bytes(v):
                if isinstance(v, Bytes):
                    return list(v.b)
                if isinstance(v, Tup) and all(isinstance(x, int) for x in v.fields):
                    return list(v.fields)
                if isinstance(v, Adt) and v.adt == "sim::Vec" and all(isinstance(x, int) for x in v.fields[0].fields):
                    return list(v.fields[0].fields)
                return None
            hay, needle = as_bytes(d[0]), as_bytes(d[1])
            if hay is not None and needle is not None:
                if p.endswith("starts_with"):
                    return ("value", int(hay[:len(needle)] == needle))
                return ("value", int(len(needle) <= len(hay) and hay[len(hay) - len(needle):] == needle))
        # iteration over a known byte slice / array: `for x in bytes`, `for &x in &[a, b, c]`
        if has("std::iter::IntoIterator::into_iter") and d and isinstance(d[0], (Bytes, Tup)) and \
                ("IntoIterator for &'a [T]>" in rs or "IntoIterator for &'a [T; N]>" in rs):
            return ("value", Adt("sim::SliceIter", 0, [d[0], 0]))
        if has("std::iter::IntoIterator::into_iter") and d and isinstance(d[0], (Bytes, Tup)) and \
                "IntoIterator for [T; N]>" in rs:
            return ("value", Adt("sim::SliceIter", 0, [d[0], 0, "by-value"]))
        if has("std::iter::IntoIterator::into_iter") and d and isinstance(d[0], (Bytes, Tup)) and not rs and len(args) == 1:
            # `I: IntoIterator` is a type parameter and the value at hand is an array (by value) or a slice / array
            # reference: the items are the elements resp. references to them
            if isinstance(args[0], Ref):
                return ("value", Adt("sim::SliceIter", 0, [d[0], 0]))
            return ("value", Adt("sim::SliceIter", 0, [d[0], 0, "by-value"]))
        if p.endswith("<impl [T]>::iter") and d and isinstance(d[0], Bytes):
            return ("value", Adt("sim::SliceIter", 0, [d[0], 0]))
        if d and isinstance(d[0], Adt) and d[0].adt == "sim::SliceIter" and self.structural_vec:
            it = d[0]
            seq, i = it.fields[0], it.fields[1]
            rest = list(seq.b if isinstance(seq, Bytes) else seq.fields)[i:]
            byval = len(it.fields) > 2
            if has("std::iter::Iterator::cloned", "std::iter::Iterator::copied"):
                # the elements themselves instead of references to them (values are immutable once built)
                vals = [self._deref(x, path) for x in rest] if byval else rest
                return ("value", Adt("sim::SliceIter", 0, [Tup(vals), 0, "by-value"]))
            if has("std::iter::Iterator::collect") and len(substs) >= 2 and substs[1].startswith("std::vec::Vec<"):
                vals = rest if byval else [Ref([x], 0, ()) for x in rest]
                return ("value", Adt("sim::Vec", 0, [Tup(vals)]))
        if p in ("std::iter::Peekable::<I>::peek", "std::iter::Peekable::<I>::peek_mut") and d and isinstance(d[0], Adt) \
                and d[0].adt == "sim::SliceIter":
            it = d[0]
            seq, i = it.fields[0], it.fields[1]
            elems = seq.b if isinstance(seq, Bytes) else seq.fields
            if i < len(elems):
                return ("value", Adt("std::option::Option", 1, [Ref(elems, i, ()) if not isinstance(seq, Bytes) else Ref([elems[i]], 0, ())]))
            return ("value", Adt("std::option::Option", 0, []))
        if has("std::iter::Iterator::next") and d and isinstance(d[0], Adt) and d[0].adt == "sim::SliceIter":
            it = d[0]
            seq, i = it.fields[0], it.fields[1]
            elems = seq.b if isinstance(seq, Bytes) else seq.fields
            if i < len(elems):
                it.fields[1] = i + 1
                item = elems[i] if len(it.fields) > 2 else Ref([elems[i]], 0, ())
                return ("value", Adt("std::option::Option", 1, [item]))
            return ("value", Adt("std::option::Option", 0, []))
        # `for i in a..b` over known integer bounds
        if has("std::iter::Iterator::next") and d and isinstance(d[0], Adt) and d[0].adt in ("std::ops::Range", "range") \
                and len(d[0].fields) >= 2 and isinstance(d[0].fields[0], int) and isinstance(d[0].fields[1], int):
            rg = d[0]
            if rg.fields[0] < rg.fields[1]:
                v = rg.fields[0]
                rg.fields[0] = v + 1
                return ("value", Adt("std::option::Option", 1, [v]))
            return ("value", Adt("std::option::Option", 0, []))
        # comparison and arithmetic operator traits on integers whose static type is a type parameter of a generic
        # helper (`fn mul_add_overflows<T: PartialOrd + Div<Output = T> + ..>`): the values decide
        if len(d) == 2 and isinstance(d[0], int) and isinstance(d[1], int) and not isinstance(d[0], bool):
            for m, f in (("lt", lambda a, b: a < b), ("le", lambda a, b: a <= b), ("gt", lambda a, b: a > b),
                         ("ge", lambda a, b: a >= b)):
                if has("std::cmp::PartialOrd::" + m):
                    return ("value", int(f(d[0], d[1])))
            ty0 = self._tyenv[-1].get(substs[0], substs[0]).lstrip("&") if substs else ""
            if has("std::ops::Div::div") and d[1] != 0 and "resolved" not in c:
                q = abs(d[0]) // abs(d[1]) * (1 if (d[0] >= 0) == (d[1] >= 0) else -1)
                return ("value", wrap(q, ty0) if ty0 in INT_BITS else q)
            if has("std::ops::Rem::rem") and d[1] != 0 and "resolved" not in c:
                rm = abs(d[0]) % abs(d[1]) * (1 if d[0] >= 0 else -1)
                return ("value", wrap(rm, ty0) if ty0 in INT_BITS else rm)
            for tr, f in (("std::ops::Add::add", lambda a, b: a + b), ("std::ops::Sub::sub", lambda a, b: a - b),
                          ("std::ops::Mul::mul", lambda a, b: a * b)):
                if has(tr) and "resolved" not in c and ty0 in INT_BITS:
                    v = f(d[0], d[1])
                    if wrap(v, ty0) != v:
                        return ("panic", "arithmetic overflow")
                    return ("value", v)
        # operators on `&u8` / `u8` operands (`octet >> 6`, `octet & 7`)
        for tr, fnop in (("std::ops::Shr::shr", lambda a, b: a >> b), ("std::ops::Shl::shl", lambda a, b: a << b),
                         ("std::ops::BitAnd::bitand", lambda a, b: a & b), ("std::ops::BitOr::bitor", lambda a, b: a | b)):
            if has(tr) and len(d) == 2 and isinstance(d[0], int) and isinstance(d[1], int) and substs:
                ty = substs[0].lstrip("&")
                return ("value", wrap(fnop(d[0], d[1]), ty) if ty in INT_BITS else UNK)
            if has(tr) and len(d) == 2 and substs and (isinstance(d[0], Rng) or isinstance(d[1], Rng)):
                rr = rng_binop(tr.rsplit("::", 1)[0].rsplit("::", 1)[1], d[0], d[1], substs[0].lstrip("&"))
                return ("value", rr if rr is not None else UNK)
        # `&bytes[a..=b]` / `&bytes[a..b]` on a known byte slice
        if has("std::ops::Index::index") and len(d) == 2 and isinstance(d[0], Bytes) and isinstance(d[1], Adt) \
                and d[1].adt in ("range-incl", "range") and any(isinstance(x, Rng) for x in d[1].fields[:2]) \
                and all(isinstance(x, (int, Rng)) for x in d[1].fields[:2]) and d[0].b:
            # a sub-slice at an unknown (bounds-checked) position: every element lies in the table's range there
            los, his = _iv(d[1].fields[0]), _iv(d[1].fields[1])
            sl = d[0].b[max(0, los[0]):min(len(d[0].b), his[1] + 1)] or d[0].b
            return ("value", Tup([Rng(min(sl), max(sl)) if min(sl) != max(sl) else sl[0]]))
        if has("std::ops::Index::index") and len(d) == 2 and isinstance(d[0], Bytes) and isinstance(d[1], Adt) \
                and d[1].adt in ("range-incl", "range") and all(isinstance(x, int) for x in d[1].fields[:2]):
            lo, hi = d[1].fields[0], d[1].fields[1] + (1 if d[1].adt == "range-incl" else 0)
            if 0 <= lo <= hi <= len(d[0].b):
                return ("value", Bytes(list(d[0].b[lo:hi])))
            return ("panic", "slice index out of range")
        # the same with a range value built at run time: `&bytes[start..self.index]`, `&bytes[start..]`, `&bytes[..n]`
        if has("std::ops::Index::index", "std::ops::IndexMut::index_mut") and len(d) == 2 and isinstance(d[0], (Bytes, Tup)) \
                and isinstance(d[1], Adt) and d[1].adt in ("std::ops::Range", "std::ops::RangeFrom", "std::ops::RangeTo",
                                                             "std::ops::RangeFull"):
            seq = d[0].b if isinstance(d[0], Bytes) else d[0].fields
            fsr = d[1].fields
            kind = d[1].adt.rsplit("::", 1)[1]
            lo = fsr[0] if kind in ("Range", "RangeFrom") else 0
            hi = fsr[1] if kind == "Range" else (fsr[0] if kind == "RangeTo" else len(seq))
            if isinstance(lo, int) and isinstance(hi, int):
                if 0 <= lo <= hi <= len(seq):
                    return ("value", Bytes(list(seq[lo:hi])) if isinstance(d[0], Bytes) else Tup(list(seq[lo:hi])))
                return ("panic", "slice index out of range")
        if has("std::iter::IntoIterator::into_iter") and d and (c.get("resolved") or "").startswith("<I as std::iter::IntoIterator>"):
            # the blanket `impl<I: Iterator> IntoIterator for I`: the iterator itself
            return ("value", args[0])
        if has("std::ops::Try::branch"):
            a = d[0] if d else UNK
            s0 = substs[0] if substs else ""
            if isinstance(a, Adt):
                if s0.startswith("std::result::Result"):
                    if a.variant == 0:
                        return ("value", Adt("std::ops::ControlFlow", 0, [a.fields[0]]))
                    return ("value", Adt("std::ops::ControlFlow", 1, [Adt("std::result::Result", 1, [a.fields[0]])]))
                if s0.startswith("std::option::Option"):
                    if a.variant == 1:
                        return ("value", Adt("std::ops::ControlFlow", 0, [a.fields[0]]))
                    return ("value", Adt("std::ops::ControlFlow", 1, [Adt("std::option::Option", 0, [])]))
            return ("value", UNK)
        if has("std::ops::FromResidual::from_residual"):
            a = d[0] if d else UNK
            s0 = substs[0] if substs else ""
            if s0.startswith("std::result::Result"):
                # the residual of a Result is always its Err
                pay = a.fields[0] if isinstance(a, Adt) and a.fields else UNK
                return ("value", Adt("std::result::Result", 1, [pay]))
            if s0.startswith("std::option::Option"):
                return ("value", Adt("std::option::Option", 0, []))
            if isinstance(a, Adt):
                return ("value", Adt(a.adt, a.variant, a.fields))
            return ("value", UNK)
        if p == "std::option::Option::<T>::unwrap_or":
            a = d[0]
            if isinstance(a, Adt):
                return ("value", a.fields[0] if a.variant == 1 else d[1])
            return ("value", UNK)
        if p in ("std::option::Option::<T>::unwrap", "std::option::Option::<T>::expect"):
            a = d[0]
            if isinstance(a, Adt):
                if a.variant == 1:
                    return ("value", a.fields[0])
                return ("panic", "unwrap on None")
            return ("value", UNK)
        if p in ("std::option::Option::<T>::as_ref", "std::option::Option::<T>::as_mut", "std::option::Option::<T>::as_deref") \
                and len(d) == 1 and isinstance(d[0], Adt) and d[0].adt.endswith("Option"):
            if d[0].variant == 0:
                return ("value", Adt("std::option::Option", 0, []))
            return ("value", Adt("std::option::Option", 1, [Ref(d[0].fields, 0, ())]))      # a reference to the payload
        if p in ("std::option::Option::<&T>::copied", "std::option::Option::<&T>::cloned", "std::option::Option::<&mut T>::copied",
                 "std::option::Option::<&mut T>::cloned") and len(d) == 1 and isinstance(d[0], Adt) and d[0].adt.endswith("Option"):
            if d[0].variant == 0:
                return ("value", Adt("std::option::Option", 0, []))
            v = self._deref(d[0].fields[0], path)
            if isinstance(v, (int, Rng, Flt)) or v is UNK:
                return ("value", Adt("std::option::Option", 1, [v]))
            return ("value", UNK)
        if p == "std::option::Option::<std::result::Result<T, E>>::transpose" and len(d) == 1 and isinstance(d[0], Adt):
            if d[0].variant == 0:
                return ("value", Adt("std::result::Result", 0, [Adt("std::option::Option", 0, [])]))
            inner = self._deref(d[0].fields[0], path)
            if isinstance(inner, Adt) and inner.adt.endswith("Result"):
                if inner.variant == 0:
                    return ("value", Adt("std::result::Result", 0, [Adt("std::option::Option", 1, [inner.fields[0]])]))
                return ("value", Adt("std::result::Result", 1, [inner.fields[0]]))
            return ("value", UNK)
        if p == "std::result::Result::<std::option::Option<T>, E>::transpose" and len(d) == 1 and isinstance(d[0], Adt):
            if d[0].variant == 1:
                return ("value", Adt("std::option::Option", 1, [Adt("std::result::Result", 1, [d[0].fields[0]])]))
            inner = self._deref(d[0].fields[0], path)
            if isinstance(inner, Adt) and inner.adt.endswith("Option"):
                if inner.variant == 0:
                    return ("value", Adt("std::option::Option", 0, []))
                return ("value", Adt("std::option::Option", 1, [Adt("std::result::Result", 0, [inner.fields[0]])]))
            return ("value", UNK)
        if p == "std::option::Option::<T>::ok_or" and len(d) == 2 and isinstance(d[0], Adt):
            if d[0].variant == 1:
                return ("value", Adt("std::result::Result", 0, [d[0].fields[0]]))
            return ("value", Adt("std::result::Result", 1, [args[1]]))
        if p in ("std::option::Option::<T>::is_some", "std::option::Option::<T>::is_none"):
            a = d[0]
            if isinstance(a, Adt):
                r = a.variant == 1
                return ("value", int(r if p.endswith("is_some") else not r))
            return ("value", UNK)
        if p in ("std::result::Result::<T, E>::is_ok", "std::result::Result::<T, E>::is_err"):
            a = d[0]
            if isinstance(a, Adt):
                r = a.variant == 0
                return ("value", int(r if p.endswith("is_ok") else not r))
            return ("value", UNK)
        if p in ("std::result::Result::<T, E>::ok", "std::result::Result::<T, E>::err"):
            a = d[0]
            if isinstance(a, Adt):
                hit = a.variant == (0 if p.endswith("::ok") else 1)
                return ("value", Adt("std::option::Option", 1, [a.fields[0]]) if hit else Adt("std::option::Option", 0, []))
            return ("value", UNK)
        if p == "std::result::Result::<std::option::Option<T>, E>::transpose":
            a = d[0]
            if isinstance(a, Adt):
                if a.variant == 1:
                    return ("value", Adt("std::option::Option", 1, [Adt("std::result::Result", 1, a.fields)]))
                o = a.fields[0]
                if isinstance(o, Adt):
                    if o.variant == 0:
                        return ("value", Adt("std::option::Option", 0, []))
                    return ("value", Adt("std::option::Option", 1, [Adt("std::result::Result", 0, o.fields)]))
            return ("value", UNK)
        if p == "std::option::Option::<T>::take":
            # `opt.take()` on a known Option held in a local / field: hand out the value, leave None behind
            r0 = args[0] if args else None
            if isinstance(r0, Ref) and isinstance(d[0], Adt) and d[0].adt.endswith("Option"):
                old = d[0]
                self.write_place(r0.env, {"l": r0.local, "p": list(r0.proj)}, Adt("std::option::Option", 0, []), path)
                return ("value", old)
            return None
        if p in ("std::mem::replace", "core::mem::replace") and len(args) == 2 and isinstance(args[0], Ref) \
                and not isinstance(d[0], (Opq,)) and d[0] is not UNK:
            old = d[0]
            self.write_place(args[0].env, {"l": args[0].local, "p": list(args[0].proj)}, args[1], path)
            return ("value", old)
        if p in ("std::char::from_u32", "core::char::from_u32") or p.endswith("<impl char>::from_u32"):
            n = d[0] if d else UNK
            if isinstance(n, int):
                okc = 0 <= n < 0x110000 and not (0xD800 <= n < 0xE000)
                return ("value", Adt("std::option::Option", 1, [n]) if okc else Adt("std::option::Option", 0, []))
            return ("value", UNK)
        if p.endswith("<impl char>::encode_utf8") and d and isinstance(d[0], int) and 0 <= d[0] < 0x110000 \
                and not (0xD800 <= d[0] < 0xE000):
            return ("value", Bytes(list(chr(d[0]).encode("utf-8"))))
        if p.endswith("<impl str>::as_bytes") and d and isinstance(d[0], Bytes):
            return ("value", d[0])
        if (p.endswith("<impl str>::as_bytes") or p.endswith("String::as_bytes")) and self.utf8_by_type:
            return ("value", Utf8())     # whatever the string is, its bytes are well-formed UTF-8
        if p.endswith("<impl str>::contains") and len(d) == 2 and isinstance(d[0], Bytes):
            # `"!$%&".contains(c)` with a character or a string needle
            hay = bytes(d[0].b)
            if isinstance(d[1], int):
                needle = chr(d[1]).encode("utf-8") if 0 <= d[1] < 0x110000 else None
            elif isinstance(d[1], Bytes):
                needle = bytes(d[1].b)
            else:
                needle = None
            if needle is not None:
                return ("value", int(needle in hay))
            return ("value", UNK)
        if p == "core::slice::<impl [T]>::contains" or p.endswith("<impl [T]>::contains"):
            s, x = d[0], d[1]
            if isinstance(s, Bytes) and isinstance(x, int):
                return ("value", int(x in s.b))
            return ("value", UNK)
        mnum = re.match(r"core::num::<impl (u8|u16|u32|u64|u128|usize|i8|i16|i32|i64|i128|isize)>::(\w+)$", p)
        if mnum and d and isinstance(d[0], int) and mnum.group(2) in ("trailing_zeros", "leading_zeros", "count_ones",
                                                                         "count_zeros", "is_power_of_two"):
            ty, m = mnum.group(1), mnum.group(2)
            bits = INT_BITS[ty]
            x = d[0] & ((1 << bits) - 1)
            if m == "trailing_zeros":
                return ("value", bits if x == 0 else (x & -x).bit_length() - 1)
            if m == "leading_zeros":
                return ("value", bits - x.bit_length())
            if m == "count_ones":
                return ("value", bin(x).count("1"))
            if m == "count_zeros":
                return ("value", bits - bin(x).count("1"))
            return ("value", int(x != 0 and x & (x - 1) == 0))
        if p.startswith("core::num::<impl u8>::") or p.startswith("std::char::methods::<impl char>::") \
                or p.startswith("core::char::methods::<impl char>::"):
            m = p.rsplit("::", 1)[1]
            x = d[0] if d else UNK
            if isinstance(x, int):
                r = _ascii_pred(m, x)
                if r is not None:
                    return ("value", r)
            return ("value", UNK)
        if has("std::cmp::PartialEq::eq", "std::cmp::PartialEq::ne"):
            a, b = d[0], d[1]
            # a comparison implemented in the analysed crates is evaluated from its own MIR, not answered structurally
            # (a derived impl *is* structural equality and is answered here)
            lf = self.find_fn(c["resolved"], c.get("resolved_crate")) if c.get("resolved") else None
            if lf is not None and not lf.derived and c.get("resolved_kind", "Item") == "Item":
                return None
            def _byteseq(v):
                if isinstance(v, Bytes):
                    return list(v.b)
                if isinstance(v, Tup) and v.fields and all(isinstance(x, int) for x in v.fields):
                    return list(v.fields)
                if isinstance(v, Adt) and v.adt == "sim::Vec" and all(isinstance(x, int) for x in v.fields[0].fields):
                    return list(v.fields[0].fields)
                return None
            if type(a) is not type(b) or isinstance(a, Adt) and a.adt == "sim::Vec":
                sa, sb = _byteseq(a), _byteseq(b)
                if sa is not None and sb is not None:
                    r = sa == sb
                    return ("value", int(r if c.get("method") == "eq" else not r))
            if isinstance(a, Flt) and isinstance(b, Flt):
                r = a.v == b.v          # IEEE equality
                return ("value", int(r if c.get("method") == "eq" else not r))
            if type(a) is not type(b) and not (isinstance(a, int) and isinstance(b, int)):
                return ("value", UNK) if not (known(a) and known(b)) else None
            if known(a) and known(b) and not isinstance(a, (FnItem, Closure)) and _comparable(a) and _comparable(b):
                r = _ieee_eq(a, b)
                return ("value", int(r if c.get("method") == "eq" else not r))
            return ("value", UNK)
        if has("std::convert::TryFrom::try_from", "std::convert::TryInto::try_into"):
            a = d[0] if d else UNK
            if isinstance(a, int) and len(substs) >= 2:
                to, frm = (substs[0], substs[1]) if has("std::convert::TryFrom::try_from") else (substs[1], substs[0])
                if to in INT_BITS and frm in INT_BITS:
                    fits = wrap(a, to) == a
                    return ("value", Adt("std::result::Result", 0 if fits else 1, [a if fits else UNK]))
            return ("value", UNK)
        if p.endswith("::wrapping_neg") or p.endswith("::wrapping_add") or p.endswith("::wrapping_sub") \
                or p.endswith("::wrapping_mul"):
            ty = (c.get("inherent_self") or "")
            if all(isinstance(x, int) for x in d) and ty in INT_BITS:
                if p.endswith("neg"):
                    return ("value", wrap(-d[0], ty))
                if p.endswith("add"):
                    return ("value", wrap(d[0] + d[1], ty))
                if p.endswith("sub"):
                    return ("value", wrap(d[0] - d[1], ty))
                return ("value", wrap(d[0] * d[1], ty))
            return ("value", UNK)
        if p.endswith("::saturating_add") or p.endswith("::saturating_sub") or p.endswith("::saturating_mul"):
            ty = (c.get("inherent_self") or "")
            tr = _ty_range(ty)
            if all(isinstance(x, int) for x in d) and len(d) == 2 and tr is not None and ty != "char":
                v = d[0] + d[1] if p.endswith("add") else d[0] - d[1] if p.endswith("sub") else d[0] * d[1]
                return ("value", max(tr[0], min(tr[1], v)))
            return ("value", UNK)
        if p.endswith("::checked_neg") or p.endswith("::checked_add") or p.endswith("::checked_sub") or p.endswith("::checked_mul"):
            ty = (c.get("inherent_self") or "")
            if all(isinstance(x, int) for x in d) and ty in INT_BITS:
                r = -d[0] if p.endswith("neg") else d[0] + d[1] if p.endswith("add") else d[0] - d[1] if p.endswith("sub") else d[0] * d[1]
                okv = wrap(r, ty) == r
                return ("value", Adt("std::option::Option", 1 if okv else 0, [r] if okv else []))
            return ("value", UNK)
        if has("std::convert::From::from", "std::convert::Into::into"):
            a = d[0] if d else UNK
            if len(substs) >= 2 and substs[0] == substs[1] and args:
                return ("value", args[0])      # the reflexive `impl<T> From<T> for T`
            if len(substs) >= 2 and d and isinstance(d[0], Flt):
                to, frm = (substs[0], substs[1]) if has("std::convert::From::from") else (substs[1], substs[0])
                if to == "f64" and frm == "f32":
                    return ("value", Flt(d[0].v, "f64"))     # exact widening
            if isinstance(a, Rng) and len(substs) >= 2 and substs[0] in INT_BITS and substs[1] in INT_BITS:
                return ("value", a)      # lossless widening keeps the quantity
            if isinstance(a, int) and len(substs) >= 2 and substs[0] in INT_BITS and substs[1] in INT_BITS:
                return ("value", a)
            if isinstance(a, int) and len(substs) >= 2 and substs[0] in INT_BITS:
                return ("value", a)
            return None
        if p.endswith("RangeInclusive::<Idx>::new"):
            return ("value", Adt("range-incl", 0, [d[0], d[1]]))
        if p.endswith("RangeInclusive::<Idx>::contains") or p.endswith("Range::<Idx>::contains"):
            r, x = d[0], d[1]
            if isinstance(r, Adt) and isinstance(x, Rng) and len(r.fields) >= 2 \
                    and isinstance(r.fields[0], int) and isinstance(r.fields[1], int):
                incl = r.adt == "range-incl" or "RangeInclusive" in r.adt
                lo, hi = r.fields[0], r.fields[1] if incl else r.fields[1] - 1
                if x.lo >= lo and x.hi <= hi:
                    return ("value", 1)
                if x.hi < lo or x.lo > hi:
                    return ("value", 0)
                return ("value", Cmp(x, lo, hi))
            if isinstance(r, Adt) and isinstance(x, int) and len(r.fields) >= 2 \
                    and isinstance(r.fields[0], int) and isinstance(r.fields[1], int):
                if r.adt == "range-incl" or "RangeInclusive" in r.adt:
                    return ("value", int(r.fields[0] <= x <= r.fields[1]))
                return ("value", int(r.fields[0] <= x < r.fields[1]))
            return ("value", UNK)
        if has("std::ops::Deref::deref", "std::borrow::Borrow::borrow", "std::convert::AsRef::as_ref",
               "std::ops::DerefMut::deref_mut"):
            return None
        if has("std::clone::Clone::clone"):
            a = d[0] if d else UNK
            if isinstance(a, int):
                return ("value", a)
            return None
        if p == "std::boxed::Box::<T>::new":
            if self.structural_box:
                # Box { 0: Unique { pointer: NonNull<T> }, 1: alloc } as the lowered MIR dereferences it
                return ("value", Adt("std::boxed::Box", 0, [Adt("std::ptr::Unique", 0, [Ref([args[0]], 0, ())]), UNK]))
            return ("value", args[0])
        if p.endswith("::unsigned_abs") or p.endswith("::abs"):
            x = d[0]
            if isinstance(x, int):
                return ("value", abs(x))
            return ("value", UNK)
        return None


def _ieee_eq(a, b):
    """Structural equality as a derived / std PartialEq computes it: floats compare by IEEE equality."""
    if isinstance(a, Flt) and isinstance(b, Flt):
        return a.v == b.v
    if isinstance(a, Adt) and isinstance(b, Adt):
        return a.adt == b.adt and a.variant == b.variant and len(a.fields) == len(b.fields) and \
            all(_ieee_eq(x, y) for x, y in zip(a.fields, b.fields))
    if isinstance(a, Tup) and isinstance(b, Tup):
        return len(a.fields) == len(b.fields) and all(_ieee_eq(x, y) for x, y in zip(a.fields, b.fields))
    return a == b


def _comparable(v):
    if isinstance(v, (int, Bytes, Flt)):
        return True
    if isinstance(v, (Adt, Tup)):
        return all(_comparable(x) for x in v.fields)
    return False


def _ascii_pred(m, x):
    ch = x
    if m == "is_ascii_whitespace":
        return int(ch in (0x20, 0x09, 0x0A, 0x0C, 0x0D))
    if m == "is_ascii_alphabetic":
        return int(65 <= ch <= 90 or 97 <= ch <= 122)
    if m == "is_ascii_digit":
        return int(48 <= ch <= 57)
    if m == "is_ascii_alphanumeric":
        return int(65 <= ch <= 90 or 97 <= ch <= 122 or 48 <= ch <= 57)
    if m == "is_ascii_lowercase":
        return int(97 <= ch <= 122)
    if m == "is_ascii_uppercase":
        return int(65 <= ch <= 90)
    if m == "is_ascii_hexdigit":
        return int(48 <= ch <= 57 or 65 <= ch <= 70 or 97 <= ch <= 102)
    if m == "is_ascii_punctuation":
        return int(33 <= ch <= 47 or 58 <= ch <= 64 or 91 <= ch <= 96 or 123 <= ch <= 126)
    if m == "is_ascii_control":
        return int(ch < 32 or ch == 127)
    if m == "is_ascii_graphic":
        return int(33 <= ch <= 126)
    if m == "is_ascii":
        return int(ch < 128)
    if m == "to_ascii_lowercase":
        return ch + 32 if 65 <= ch <= 90 else ch
    if m == "to_ascii_uppercase":
        return ch - 32 if 97 <= ch <= 122 else ch
    return None
