"""C02  Round trip for every consistent printer/parser dialect pairing - table clauses only.

  R-FOLLOW<=TERM   `]` (bracket vectors) as well as ' ' and ')' end every token kind
  R-ESC-ELISP      for all 256 bytes: what the Emacs Lisp string printer emits is read back as that byte by
                   the Emacs Lisp string reader; control characters use the \\u00XX form (keeps multibyte)
  R-CHAR-ELISP     every printable ASCII character written by write_elisp_char (with or without the
                   backslash chosen from ELISP_ESCAPE_CHARS) is read back as itself by parse_elisp_char
  R-HASH-TOKENS    every `#` token the printer has a constant for is dispatched to the right token kind
  R-BYTES-ELISP    every byte of a byte vector is written as `\\ooo` in Emacs Lisp syntax and decoded back (256 values;
                   replaces the former digit-table check R-OCTAL, which it subsumes)
  R-NULL-TEXT      the empty list is printed as `()` under every printer option value (only Nil and booleans
                   are subject to the documented nil/t folding)
  R-RESCAN         with leading-digit symbols every digit-initial token is offered to the numeric sub-parser
                   unconditionally (no textual pre-filter decides between number and symbol)
Not decided: the option cross product as behaviour, nil/t folding, values.
"""
from .. import facts as F, lex, roundtrip


def run(ctx):
    db = ctx.facts(["poly"])
    lexpr = db.crate("lexpr")
    ctx.explanation = (
        "Table agreement between the customised printer and the parser for the Emacs Lisp dialect and the shared "
        "token syntax, extracted from the MIR by constant propagation: escape text per byte (256 cases) against the "
        "reader's escape switch and hex decoder; the text written for each printable character (95 cases) against "
        "parse_elisp_char / decode_elisp_char_escape; follow bytes against the four terminator classes; the printer's "
        "`#` constants against parse_token's dispatch. These are necessary conditions of the round trip for every "
        "option pairing that uses these syntaxes; the behaviour over the option cross product is not decided.")
    ctx.trusted = ["core::fmt `{:x}` prints lowercase hexadecimal", "char::encode_utf8 is the identity below 0x80"]
    r = ctx.rule("R-FOLLOW<=TERM", "' ', ')' and ']' end every token kind")
    roundtrip.follow_bytes(r, lexpr, {0x20, 0x29, 0x5D}, "customised printer")
    r2 = ctx.rule("R-ESC-ELISP", "Emacs Lisp string escapes are read back as the same byte (256 bytes)")
    n = roundtrip.string_escapes(r2, lexpr, "elisp")
    if n is not None:
        r2.floor("escaped-bytes", n)
    r3 = ctx.rule("R-CHAR-ELISP", "printable characters in Emacs Lisp syntax are read back as themselves (95 characters)")
    n = roundtrip.printable_chars(r3, lexpr, "elisp")
    if n is not None:
        r3.floor("printable", n)
    r4 = ctx.rule("R-HASH-TOKENS", "the printer's `#` tokens are dispatched by parse_token to the matching token kind")
    roundtrip.hash_tokens(r4, lexpr)
    from . import c07
    c07.writeall(ctx, lexpr, db.crate("serde_lexpr"))
    null_text(ctx, lexpr)
    nil_as_false(ctx, lexpr)
    bytes_elisp(ctx, lexpr)
    bytes_notation(ctx, lexpr)
    rescan(ctx, lexpr)
    # integers are printed the same way under every option set: the boundary magnitudes keep their representation
    # when read back (shared with C01 / C05)
    from . import c05
    c05.int_boundary(ctx.rule("R-INT-BOUNDARY", "parse_num_tail stores boundary magnitudes as the exact integer: "
                                                "[-2^63, 2^64-1] stays an integer, beyond that a float"), lexpr)
    # a symbol is printed verbatim: it must come back as that symbol unless it is exactly the `nil` / `t` the options
    # give a meaning to, or carries the postfix-keyword colon (decision table shared with C08)
    from . import c08
    pt = lexpr.fn(c08.P + "parse_token")
    if pt is not None:
        c08.opt_decision(ctx, lexpr, pt)



def null_text(ctx, lexpr):
    from .. import sim
    from ..sim import Adt, Bytes
    r = ctx.rule("R-NULL-TEXT", "the empty list is printed as `()` under every printer option value")
    fns = [lexpr.fn("print::Formatter::write_null"),
           lexpr.fn("<print::CustomizedFormatter as print::Formatter>::write_null")]
    opts = lexpr.adts.get("print::Options")
    if fns[0] is None or not opts:
        r.anchor_missing("print::Formatter::write_null / print::Options")
        return
    fields = opts["variants"][0]["fields"]
    from .. import common
    fwd = common.sink_forwarders(lexpr)
    n = 0
    for f in fns:
        if f is None:
            continue
        # vary each enum-typed option field over all its variants (others symbolic)
        combos = [{}]
        for fld in fields:
            a = lexpr.adts.get(fld["ty"])
            if a and a["kind"] == "enum":
                for v in a["variants"]:
                    combos.append({fld["name"]: Adt(fld["ty"], v["idx"], [], v["name"])})
        for combo in combos:
            def opaque(o, combo=combo):
                for k, v in combo.items():
                    if k in o.path and "options" in o.path:
                        return v
                return None
            S = sim.Sim([lexpr], hooks={"opaque": opaque},
                        inline=lex.print_inline(lexpr))
            texts = set()
            for p in S.run(f):
                if p.end != "return":
                    continue
                for ev in p.calls("std::io::Write::write_all"):
                    a = ev[6][1]
                    texts.add(bytes(a.b) if isinstance(a, Bytes) else None)
            n += 1
            desc = ", ".join("%s=%s" % (k, v.vname) for k, v in combo.items()) or "symbolic options"
            if texts == {b"()"}:
                r.ok("%s (%s) writes `()`" % (f.path.rsplit("::", 1)[1] + ("@custom" if "Customized" in f.path else "@default"), desc), f)
            else:
                r.violation(f.path, "null-text:%s" % desc,
                            "the empty list is printed as %s under %s; it must always be `()` - only the special nil "
                            "value and booleans are folded into nil/t" % (sorted(texts, key=repr), desc), f.loc())
    r.floor("cases", n)


def bytes_elisp(ctx, lexpr):
    """Emacs Lisp unibyte strings: every byte is written as a three-digit octal escape (a raw ASCII byte would turn
    the string into a multibyte one for the reader, or let a following digit be swallowed by the escape before
    it), and the reader's octal decoder turns those three digits back into the byte."""
    from .. import common, lex, sim
    from ..sim import Adt, Bytes, Ref
    r = ctx.rule("R-BYTES-ELISP", "with Emacs Lisp bytes syntax every byte value is written as `\\ooo` between quotes and "
                                  "the reader's octal decoder yields the same byte (256 values)")
    wf = lexpr.fn("<print::CustomizedFormatter as print::Formatter>::write_bytes")
    bs = lexpr.adts.get("print::BytesSyntax")
    opts = lexpr.adts.get("print::Options")
    dec = lexpr.fn("parse::read::decode_elisp_octal_escape")
    if wf is None or not bs or not opts or dec is None:
        r.anchor_missing("CustomizedFormatter::write_bytes / print::BytesSyntax / decode_elisp_octal_escape")
        return
    fld = [f["name"] for f in opts["variants"][0]["fields"] if f["ty"] == "print::BytesSyntax"]
    el = [v for v in bs["variants"] if v["name"] == "Elisp"]
    if not fld or not el:
        r.anchor_missing("Options field of type BytesSyntax / BytesSyntax::Elisp")
        return
    elv = Adt("print::BytesSyntax", el[0]["idx"], [], "Elisp")
    fwd = common.sink_forwarders(lexpr)

    def opaque(o):
        if "options" in o.path and fld[0] in o.path:
            return elv
        return None

    def hook(S, fn, bb, t, args, path):
        if "std::io::Write::write_all" in F.callee_names(t):
            return ("value", Adt("std::result::Result", 0, [sim.Tup([])]))
        return None

    n = 0
    for b in range(256):
        S = sim.Sim([lexpr], hooks={"opaque": opaque, "call": hook},
                    inline=lex.print_inline(lexpr), max_visits=8, max_paths=2000)
        texts = set()
        try:
            for p in S.run(wf, args={3: Ref([Bytes([b])], 0, ())}):
                if p.end != "return":
                    continue
                parts = [bytes(e[6][1].b) if isinstance(e[6][1], Bytes) else None for e in p.calls("std::io::Write::write_all")]
                texts.add(None if None in parts else b"".join(parts))
        except sim.Limit:
            texts = {None}
        want = b'"\\' + (b"%03o" % b) + b'"'
        n += 1
        if texts != {want}:
            r.violation(wf.path, "bytes-text:0x%02X" % b,
                        "the byte 0x%02X of a byte vector is written as %s in Emacs Lisp syntax; it must be %s" % (
                            b, sorted(texts, key=repr), want), wf.loc())
            continue
        # reader: the first digit is passed in, the other two and the closing quote are read
        body = want[1:-1]      # \ooo
        S2 = sim.Sim([lexpr], hooks={"call": lex.seq_hook(list(body[2:]) + [0x22])}, inline=lex.helper_inline(lexpr, {
            "parse::read::decode_octal_val"}), max_visits=6, max_paths=2000)
        vals = set()
        try:
            for p in S2.run(dec, args={2: body[1]}):
                if p.end == "return" and isinstance(p.ret, Adt) and p.ret.variant == 0:
                    vals.add(p.ret.fields[0] if isinstance(p.ret.fields[0], int) else None)
                elif p.end == "return":
                    vals.add("err")
        except sim.Limit:
            vals = {None}
        if vals == {b}:
            r.ok("0x%02X is written as %s and decoded back to 0x%02X" % (b, want.decode(), b), wf)
        else:
            r.violation(dec.path, "bytes-decode:0x%02X" % b,
                        "the octal escape %s written for byte 0x%02X is decoded as %s" % (body.decode(), b, sorted(vals, key=repr)), dec.loc())
    r.floor("bytes", n)


def bytes_notation(ctx, lexpr):
    """A byte vector has its own notation, chosen by the bytes syntax alone: `#vu8(..)` (R6RS), `#u8(..)` (R7RS) or
    an Emacs Lisp unibyte string - whatever notation generic vectors use.  Printed as `[1 2 3]` (the bracket
    notation of generic vectors) it would read back as a vector of numbers.  CustomizedFormatter::write_bytes is
    evaluated on a one-element byte vector under every combination of the two options."""
    from .. import lex, sim
    from ..sim import Adt, Bytes, Ref, Opq
    r = ctx.rule("R-BYTES-NOTATION", "under every combination of vector syntax and bytes syntax a byte vector is written in "
                                     "the notation its bytes syntax documents (`#vu8(`..`)`, `#u8(`..`)`, `\"..\"`)")
    wf = lexpr.fn("<print::CustomizedFormatter as print::Formatter>::write_bytes")
    opts = lexpr.adts.get("print::Options")
    if wf is None or not opts:
        r.anchor_missing("CustomizedFormatter::write_bytes / print::Options")
        return
    ofields = opts["variants"][0]["fields"]
    byf = [f["name"] for f in ofields if f["ty"] == "print::BytesSyntax"]
    vef = [f["name"] for f in ofields if f["ty"] == "print::VectorSyntax"]
    bs, vs = lexpr.adts.get("print::BytesSyntax"), lexpr.adts.get("print::VectorSyntax")
    if len(byf) != 1 or len(vef) != 1 or not bs or not vs:
        r.anchor_missing("Options fields of type BytesSyntax / VectorSyntax")
        return
    want = {"R6RS": (b"#vu8(", b")"), "R7RS": (b"#u8(", b")"), "Elisp": (b'"', b'"')}
    n = 0
    for bv in bs["variants"]:
        for vv in vs["variants"]:
            if bv["name"] not in want:
                r.violation(wf.path, "bytes-syntax:%s" % bv["name"], "BytesSyntax::%s has no documented notation recorded" % bv["name"], wf.loc())
                continue
            vals = {byf[0]: Adt("print::BytesSyntax", bv["idx"], [], bv["name"]),
                    vef[0]: Adt("print::VectorSyntax", vv["idx"], [], vv["name"])}

            def opaque(o, vals=vals):
                if "options" in o.path:
                    for k, v in vals.items():
                        if k in o.path:
                            return v
                return None

            def hook(S, fn, bb, t, args, path):
                nm = F.callee_names(t)
                if "std::io::Write::write_all" in nm:
                    return ("value", Adt("std::result::Result", 0, [sim.Tup([])]))
                if any(x.startswith("itoa::Buffer::format") for x in nm) or t["callee"].get("path", "").startswith("itoa::Buffer::format"):
                    return ("value", Opq("digits"))
                return None

            S = sim.Sim([lexpr], hooks={"opaque": opaque, "call": hook}, inline=lex.print_inline(lexpr), max_visits=8, max_paths=2000)
            texts = set()
            try:
                for p in S.run(wf, args={3: Ref([Bytes([7])], 0, ())}):
                    if p.end == "panic":
                        texts.add(("panic", None))
                        continue
                    if p.end != "return":
                        continue
                    parts = [bytes(e[6][1].b) if isinstance(e[6][1], Bytes) else None for e in p.calls("std::io::Write::write_all")]
                    first = parts[0] if parts else None
                    last = parts[-1] if parts else None
                    texts.add((first, last))
            except sim.Limit:
                texts = {("?", None)}
            n += 1
            desc = "BytesSyntax::%s with VectorSyntax::%s" % (bv["name"], vv["name"])
            if texts == {want[bv["name"]]}:
                r.ok("%s: a byte vector is written as %s..%s" % (desc, want[bv["name"]][0].decode(), want[bv["name"]][1].decode()), wf)
            else:
                r.violation(wf.path, "bytes-notation:%s:%s" % (bv["name"], vv["name"]),
                            "%s: a byte vector is written as %s, the documented notation is %s..%s: it reads back as something "
                            "else than a byte vector" % (desc, sorted(texts, key=repr), want[bv["name"]][0].decode(),
                                                         want[bv["name"]][1].decode()), wf.loc())
    r.floor("option-combinations", n)


def nil_as_false(ctx, lexpr):
    """NilSyntax::False is documented as "print nil like the boolean false": under every boolean syntax the text
    written for nil must be the text written for `false`, otherwise nil and false fold differently and the
    printed text is read back as a different value."""
    from .. import sim
    from ..sim import Adt, Bytes
    r = ctx.rule("R-NIL-FALSE", "with the nil-as-false option, nil is written exactly as `false` is under every boolean syntax")
    wn = lexpr.fn("<print::CustomizedFormatter as print::Formatter>::write_nil")
    wb = lexpr.fn("<print::CustomizedFormatter as print::Formatter>::write_bool")
    nil_ty, bool_ty = lexpr.adts.get("print::NilSyntax"), lexpr.adts.get("print::BoolSyntax")
    opts = lexpr.adts.get("print::Options")
    if None in (wn, wb) or not nil_ty or not bool_ty or not opts:
        r.anchor_missing("CustomizedFormatter::{write_nil, write_bool} / print::{NilSyntax, BoolSyntax, Options}")
        return
    from .. import common
    fwd = common.sink_forwarders(lexpr)
    fnames = {f["ty"]: f["name"] for f in opts["variants"][0]["fields"]}
    nil_f, bool_f = fnames.get("print::NilSyntax"), fnames.get("print::BoolSyntax")
    false_v = [v for v in nil_ty["variants"] if v["name"] == "False"]
    if not nil_f or not bool_f or not false_v:
        r.anchor_missing("Options fields of type NilSyntax / BoolSyntax, NilSyntax::False")
        return
    n = 0
    for bv in bool_ty["variants"]:
        vals = {nil_f: Adt("print::NilSyntax", false_v[0]["idx"], [], "False"),
                bool_f: Adt("print::BoolSyntax", bv["idx"], [], bv["name"])}

        def opaque(o, vals=vals):
            for k, v in vals.items():
                if k in o.path and "options" in o.path:
                    return v
            return None

        def text(f, args):
            S = sim.Sim([lexpr], hooks={"opaque": opaque},
                        inline=lex.print_inline(lexpr))
            out = set()
            for p in S.run(f, args=args):
                if p.end != "return":
                    continue
                out.add(tuple(bytes(ev[6][1].b) if isinstance(ev[6][1], Bytes) else None for ev in p.calls("std::io::Write::write_all")))
            return out

        tn, tb = text(wn, {}), text(wb, {3: 0})
        n += 1
        if tn == tb and tn and all(t and None not in t for t in tn):
            r.ok("BoolSyntax::%s: nil and false are both written as %s" % (bv["name"], sorted(tn)), wn)
        else:
            r.violation(wn.path, "nil-false:%s" % bv["name"],
                        "with NilSyntax::False and BoolSyntax::%s nil is written as %s but false as %s: the two no longer "
                        "fold to the same token" % (bv["name"], sorted(tn, key=repr), sorted(tb, key=repr)), wn.loc())
    r.floor("bool-syntaxes", n)


def rescan(ctx, lexpr):
    from .. import cfg, common, facts as F
    r = ctx.rule("R-RESCAN", "on the leading-digit path the token goes to the numeric sub-parser unconditionally")
    # the function that re-scans a token: it reads a symbol and builds a slice sub-parser (parse_token, or the
    # helper its digit arm was moved into)
    cands = []
    for g in lexpr.fns:
        if g.kind == "closure" or not g.file.endswith("parse/mod.rs"):
            continue
        sb = [bi for bi, t in g.calls() if t["callee"].get("path", "").endswith("from_slice_custom")]
        # ... or builds the sub-parser in place (`Parser { read: SliceRead::new(..), .. }`)
        sb += [bi for bi, b in enumerate(g.blocks) if not b.get("cleanup") and any(
            st["k"] == "assign" and st["rv"]["k"] == "agg" and st["rv"].get("adt") == "parse::Parser" for st in b["stmts"])]
        sy = [bi for bi, t in g.calls() if t["callee"].get("path", "").endswith("Parser::<R>::parse_symbol")]
        if sb and sy:
            cands.append((g, sb))
    if not cands:
        r.anchor_missing("a function that reads a symbol and builds a sub-parser (Parser::from_slice_custom)")
        return
    for f, subs in cands:
        _rescan_fn(r, f, subs)


def _rescan_fn(r, f, subs):
    from .. import cfg, facts as F
    for sb in subs:
        # walk back from the sub-parser construction to the parse_symbol call that produced the token text:
        # no data-dependent branch (switch) other than the `?` on parse_symbol may lie in between
        idom = cfg.dominators(f)
        chain = cfg.dom_set(idom, sb)
        sym = None
        for d in chain:
            t = f.blocks[d]["term"]
            if t["k"] == "call" and t["callee"].get("path", "").endswith("Parser::<R>::parse_symbol"):
                sym = d
                break
        if sym is None:
            r.violation(f.path, "rescan-source", "the numeric sub-parser is not fed from parse_symbol()", f.loc())
            continue
        between = [d for d in chain if d != sb and cfg.dominates(idom, sym, d) and d != sym]
        switches = []
        for d in between:
            t = f.blocks[d]["term"]
            if t["k"] == "switch":
                # the `?` desugaring switches on a ControlFlow discriminant right after Try::branch
                prev = [p for p in f.pred_map()[d]]
                is_try = any(f.blocks[p]["term"]["k"] == "call" and "std::ops::Try::branch" in F.callee_names(f.blocks[p]["term"]) for p in prev)
                if not is_try:
                    switches.append(f.blocks[d]["term"].get("line"))
        if switches:
            r.violation(f.path, "rescan-prefilter",
                        "between reading the digit-initial token and handing it to the numeric sub-parser, parse_token "
                        "branches on the token (line %s): a textual pre-filter can send a valid literal (e.g. `1e-7`) to "
                        "the symbol arm" % switches, f.loc(switches[0]))
        else:
            r.ok("the token read by parse_symbol() reaches Parser::from_slice_custom without a data-dependent branch", f,
                 f.blocks[sb]["term"].get("line"))
