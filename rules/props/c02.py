"""C02  Round trip for every consistent printer/parser dialect pairing - table clauses only.

  R-FOLLOW<=TERM   `]` (bracket vectors) as well as ' ' and ')' end every token kind
  R-ESC-ELISP      for all 256 bytes: what the Emacs Lisp string printer emits is read back as that byte by
                   the Emacs Lisp string reader; control characters use the \\u00XX form (keeps multibyte)
  R-CHAR-ELISP     every printable ASCII character written by write_elisp_char (with or without the
                   backslash chosen from ELISP_ESCAPE_CHARS) is read back as itself by parse_elisp_char
  R-HASH-TOKENS    every `#` token the printer has a constant for is dispatched to the right token kind
  R-OCTAL          the unibyte-string printer's digit table is "01234567" on the indices it uses
Not decided: the option cross product as behaviour, nil/t folding, values.
"""
from .. import roundtrip


def run(ctx):
    db = ctx.facts(["poly"])
    lexpr = db.crate("lexpr")
    ctx.explanation = (
        "Table agreement between the customised printer and the parser for the Emacs Lisp dialect and the shared "
        "token syntax, extracted from the MIR by constant propagation: escape text per byte (256 cases) against the "
        "reader's escape switch and hex decoder; the text written for each printable character (95 cases) against "
        "parse_elisp_char / decode_elisp_char_escape; follow bytes against the four terminator classes; the printer's "
        "`#` constants against parse_token's dispatch. These are necessary conditions of the round trip for every "
        "option pairing that uses these syntaxes; the behaviour over the option cross product is not decided.")
    ctx.trusted = ["core::fmt `{:x}` prints lowercase hexadecimal", "char::encode_utf8 is the identity below 0x80"]
    r = ctx.rule("R-FOLLOW<=TERM", "' ', ')' and ']' end every token kind")
    roundtrip.follow_bytes(r, lexpr, {0x20, 0x29, 0x5D}, "customised printer")
    r2 = ctx.rule("R-ESC-ELISP", "Emacs Lisp string escapes are read back as the same byte (256 bytes)")
    n = roundtrip.string_escapes(r2, lexpr, "elisp")
    if n is not None:
        r2.floor("escaped-bytes", n)
    r3 = ctx.rule("R-CHAR-ELISP", "printable characters in Emacs Lisp syntax are read back as themselves (95 characters)")
    n = roundtrip.printable_chars(r3, lexpr, "elisp")
    if n is not None:
        r3.floor("printable", n)
    r4 = ctx.rule("R-HASH-TOKENS", "the printer's `#` tokens are dispatched by parse_token to the matching token kind")
    roundtrip.hash_tokens(r4, lexpr)
    r5 = ctx.rule("R-OCTAL", "octal digit table of the unibyte string printer")
    oc = lexpr.static_bytes("<print::CustomizedFormatter as print::Formatter>::write_bytes::OCTAL_CHARS")
    if oc is None:
        r5.anchor_missing("OCTAL_CHARS")
    elif bytes(oc[:8]) == b"01234567":
        r5.ok("OCTAL_CHARS[0..8] == \"01234567\"")
    else:
        r5.violation("print::OCTAL_CHARS", "octal-table", "OCTAL_CHARS[0..8] is %r" % bytes(oc[:8]))
