"""C08  Each parser option changes exactly the tokens it is documented to govern.

  R-OPT-LOCAL      each option field is read only while lexing a token whose first byte is in that
                   option's documented class (non-interference as a structural fact)
  R-OPT-GUARD      each option-controlled reading is selected by that option: the set of token kinds
                   parse_token can produce for a first-byte class changes with the option value exactly
                   as documented
  R-SUBPARSER-END  a Parser constructed inside the crate has its result accepted only after expect_end
  R-QUOTE-TABLE    ' ` , ,@ map to quote / quasiquote / unquote / unquote-splicing and both expansion
                   sites build a two-element list headed by that symbol
  R-CLOSE-PARAM    closing delimiters are compared with the opener's partner everywhere (shared with C10)
  R-NUM-BOUNDARY   a number token is only produced when the following byte is a delimiter or end of input
  R-OPT-SETTERS    each Options builder method, evaluated over the options' finite domains, makes the accessor
                   of its option answer the argument and leaves all other accessors' answers unchanged
Not decided: the declarative token classifier as behaviour; pairwise equality of results.
"""
from .. import classes, common, facts as F, lex, sim
from ..report import load_table
from ..sim import Adt, Bytes, Opq, UNK
from . import c10

_TM = {}


def TM(crate):
    if id(crate) not in _TM:
        _TM[id(crate)] = lex.TokenModel(crate)
    return _TM[id(crate)]


def alist_unbox(S, path, v):
    """A Box<str> payload (Value::Symbol(Box<str>)) down to the text value inside, if it is structural."""
    from .. import alist
    try:
        return alist.unbox(S, path, v)
    except Exception:
        return v


P = "parse::Parser::<R>::"
OPT_FIELDS = ("keyword_syntaxes", "nil_symbol", "t_symbol", "brackets", "string_syntax", "char_syntax",
              "racket_hash_percent_symbols", "leading_digit_symbols")
INL = set(lex.WRAPPERS) | {"parse::Options::keyword_syntax", "parse::Options::nil_symbol", "parse::Options::t_symbol",
                           "parse::Options::brackets", "parse::Options::string_syntax", "parse::Options::char_syntax",
                           "parse::Options::racket_hash_percent_symbols", "parse::Options::leading_digit_symbols",
                           "syntax::KeywordSyntax::to_flag", "parse::is_delimiter", "parse::is_sign_subsequent",
                           "parse::Parser::<R>::parse_number_token"}


def run(ctx):
    db = ctx.facts(["poly"])
    lexpr = db.crate("lexpr")
    ctx.explanation = (
        "All option-dependent decisions of the lexer live in parse_token. The rule evaluates parse_token abstractly for "
        "each of the 256 first bytes with the options left symbolic and records which option fields are read: an "
        "option that is only consulted under its documented first-byte class cannot change the reading of any other "
        "token (R-OPT-LOCAL). Conversely it evaluates each first-byte class under every value of the governing option "
        "and compares the set of token kinds that can result with the documented table (R-OPT-GUARD). Sub-parsers must "
        "check for leftover input, quote shorthands are checked against their table, the close-delimiter logic is "
        "evaluated on all opener/closer combinations, and number tokens must be followed by a delimiter test. "
        "These are structural necessary conditions; equality of results between option sets is not decided.")
    ctx.trusted = ["rustc nightly MIR", "the documented first-byte classes in tables/option_classes.json"]
    pt = lexpr.fn(P + "parse_token")
    if pt is None:
        r = ctx.rule("R-OPT-LOCAL", "anchor")
        r.anchor_missing(P + "parse_token")
        return
    opt_local(ctx, lexpr, pt)
    opt_guard(ctx, lexpr, pt)
    opt_decision(ctx, lexpr, pt)
    subparser_end(ctx, lexpr)
    # with leading-digit symbols on, a token that is a numeric literal must still be a number: no textual
    # pre-filter may stand between the token and the numeric sub-parser (shared with C02)
    from . import c02
    c02.rescan(ctx, lexpr)
    quote_table(ctx, lexpr, pt)
    c10.close_param(ctx, lexpr, ctx.rule("R-CLOSE-PARAM", "closing delimiters are compared with the opener's partner in "
                                                           "every position, for parentheses and brackets alike"))
    num_boundary(ctx, lexpr, pt)
    opt_setters(ctx, lexpr)


def _unknown_reader(S, fn, bb, t, args, path):
    nm = F.callee_names(t)
    if lex.is_read_call(nm):
        return ("value", lex.ok(lex.some(UNK)))
    return None


def opt_local(ctx, lexpr, pt):
    r = ctx.rule("R-OPT-LOCAL", "option fields are read only under their documented first-byte class")
    table = load_table("option_classes.json")
    # ColonPostfix is documented for every byte that can start a symbol: compute that class from the code
    allowed = {}
    for fld in OPT_FIELDS:
        cls = set()
        for spec in table[fld]["first_bytes"]:
            if spec == "letters":
                cls |= set(range(65, 91)) | set(range(97, 123))
            elif spec == "digits":
                cls |= set(range(48, 58))
            elif spec == "symbol-initial":
                cls |= set(range(33, 256))
            else:
                cls.add(ord(spec))
        allowed[fld] = cls
    # option reads elsewhere in the crate's parser (outside parse_token) break locality outright
    # helpers parse_token is split into: loop-free functions every call of which comes from parse_token (or another
    # such helper); the abstract evaluation below looks through them, so their option reads are covered by it
    light = lex.light_fns(lexpr)
    callers = {}
    for fn in lexpr.fns:
        for _bi, t in fn.calls():
            c = t["callee"]
            tg = c.get("resolved") or c.get("path")
            if tg:
                callers.setdefault(tg, set()).add(fn.owner if fn.kind == "closure" else fn.path)
    part = {pt.path}
    grew = True
    while grew:
        grew = False
        for fn in lexpr.fns:
            if fn.path in part or fn.path not in light or fn.is_pub:
                continue
            cs = callers.get(fn.path, set())
            if cs and cs <= part:
                part.add(fn.path)
                grew = True
    if len(part) > 1:
        r.note("parse_token is split into helpers (covered by the evaluation): %s" % sorted(x.rsplit("::", 1)[1] for x in part - {pt.path}))
    for fn in lexpr.fns:
        if fn.path in part or not common.in_file(fn, "lexpr/src/parse/mod.rs", "lexpr/src/parse/read.rs"):
            continue
        if (fn.self_ty or "").startswith("parse::Options") or fn.path.startswith("parse::Options"):
            continue
        for b in fn.blocks:
            for s in b["stmts"]:
                if s["k"] == "assign":
                    for op in _ops(s["rv"]):
                        if op.get("c") in ("copy", "move") and "options" in common.field_names(op["pl"]) and \
                                any(n in OPT_FIELDS for n in common.field_names(op["pl"])):
                            r.violation(fn.path, "option-read-outside-parse_token",
                                        "%s reads an option field outside parse_token: the option may influence tokens "
                                        "it does not name" % fn.path, fn.loc(s.get("line")))
    reads_by_field = {f: set() for f in OPT_FIELDS}
    for d in range(256):
        seen = set()

        def opaque(o, seen=seen):
            for f in OPT_FIELDS:
                if f in o.path and "options" in o.path:
                    seen.add(f)
            return None

        S = sim.Sim([lexpr], hooks={"call": _unknown_reader, "opaque": opaque}, inline=lex.helper_inline(lexpr, INL),
                    max_paths=20000, max_depth=4)
        try:
            S.run(pt, args={2: d})
        except sim.Limit:
            r.violation(pt.path, "inexact:%d" % d, "path limit for first byte %s" % lex.fmt_bytes([d]))
            continue
        for f in seen:
            reads_by_field[f].add(d)
    for f in OPT_FIELDS:
        rd = reads_by_field[f]
        if not rd:
            r.violation(pt.path, "option-never-read:%s" % f,
                        "option field %s is never read in parse_token: the option has no effect" % f, pt.loc())
            continue
        extra = rd - allowed[f]
        if extra:
            r.violation(pt.path, "option-read-outside-class:%s" % f,
                        "option %s is consulted for tokens starting with %s, outside its documented class (%s): it can "
                        "change the reading of tokens it does not name" % (f, lex.fmt_bytes(extra), table[f]["doc"]), pt.loc())
        else:
            r.ok("%s is read only for first bytes %s (documented: %s)" % (f, lex.fmt_bytes(rd), table[f]["doc"]), pt)
    r.floor("option-fields", len(OPT_FIELDS))


def _ops(rv):
    for k in ("op", "a", "b"):
        if isinstance(rv.get(k), dict):
            yield rv[k]
    if rv.get("k") in ("ref", "discr") and "pl" in rv:
        yield {"c": "copy", "pl": rv["pl"]}


def _token_kinds(lexpr, pt, seq, optvals):
    """Token kinds parse_token can return for the byte sequence `seq` (then unknown bytes) under the
    given option values (others symbolic)."""
    tok = lexpr.variant_names("parse::Token")
    codes = lexpr.variant_names("parse::error::ErrorCode")

    def opaque(o):
        if "options" in o.path:
            for f, v in optvals.items():
                if f in o.path:
                    return v
        return None

    def hook(S, fn, bb, t, args, path):
        nm = F.callee_names(t)
        if lex.is_read_call(nm):
            k = 0
            peeked = False
            for e in path.events:
                if e[0] == "call":
                    kk = lex.read_kind(e[1])
                    if kk == "next" or any(x in e[1] for x in lex.DISCARDS):
                        k += 1
            opaque_consumer = any(e[0] == "uses" and e[1] in ("parse_num_literal", "parse_radix_literal") for e in path.events)
            if k < len(seq) and not opaque_consumer:
                return ("value", lex.ok(lex.some(seq[k])))
            return ("value", lex.ok(lex.some(UNK)))
        if any(n.endswith("::parse_symbol") or n.endswith("parse_symbol_suffix") or n.endswith("parse_symbol_scratch_suffix")
               for n in nm) and "parse::read::Read::parse_symbol" not in nm:
            path.events.append(("symbol-scan",))
            return ("skip", Adt("std::result::Result", 0, [UNK]))
        for key in ("parse_r6rs_str", "parse_elisp_str", "parse_elisp_char", "parse_r6rs_char", "parse_num_literal",
                    "parse_radix_literal", "from_slice_custom"):
            if any(n.endswith(key) for n in nm):
                path.events.append(("uses", key))
        # a slice sub-parser built in place over the token text plays the role of Parser::from_slice_custom
        if fn.path == pt.path and any(n.endswith("SliceRead::new") or n.endswith("SliceRead::<'a>::new") for n in nm):
            path.events.append(("uses", "from_slice_custom"))
        return None

    S = sim.Sim([lexpr], hooks={"call": hook, "opaque": opaque}, inline=lex.helper_inline(lexpr, INL),
                max_paths=20000, max_depth=4)
    kinds = set()
    uses = set()
    for p in S.run(pt, args={2: seq[0]}):
        if p.end != "return":
            continue
        rv = p.ret
        if isinstance(rv, Adt) and rv.adt.endswith("Result"):
            if rv.variant == 0 and isinstance(rv.fields[0], Adt):
                tk = rv.fields[0]
                nm = TM(lexpr).kind(tk, S, p)
                if nm in ("ListOpen", "VecOpen") and tk.fields and isinstance(tk.fields[0], int):
                    nm += "(%s)" % chr(tk.fields[0])
                kinds.add(nm)
            elif rv.variant == 1:
                cs = lex.error_codes(p, lexpr)
                kinds.add("Err(%s)" % (cs[-1] if cs else "?"))
            else:
                kinds.add("?")
        uses |= {e[1] for e in p.events if e[0] == "uses"}
    return kinds, uses


def opt_guard(ctx, lexpr, pt):
    r = ctx.rule("R-OPT-GUARD", "the token kinds produced for a first-byte class change with the governing option exactly "
                                "as documented")
    A = lambda adt, i: Adt(adt, i, [])
    NS, TS, BR = "parse::NilSymbol", "parse::TSymbol", "parse::Brackets"
    SS, CS = "syntax::StringSyntax", "syntax::CharSyntax"

    def variant(adt, name):
        for v in lexpr.adts[adt]["variants"]:
            if v["name"] == name:
                return Adt(adt, v["idx"], [], name)
        raise KeyError(name)

    cases = [
        # (description, byte sequence, option values, must contain, must not contain, must use, must not use)
        ("`[` with Brackets::List", [0x5B], {"brackets": variant(BR, "List")}, {"ListOpen(])"}, {"VecOpen(])"}, set(), set()),
        ("`[` with Brackets::Vector", [0x5B], {"brackets": variant(BR, "Vector")}, {"VecOpen(])"}, {"ListOpen(])"}, set(), set()),
        ("`\"` with StringSyntax::R6RS", [0x22], {"string_syntax": variant(SS, "R6RS")}, set(), set(), {"parse_r6rs_str"}, {"parse_elisp_str"}),
        ("`\"` with StringSyntax::Elisp", [0x22], {"string_syntax": variant(SS, "Elisp")}, set(), set(), {"parse_elisp_str"}, {"parse_r6rs_str"}),
        ("`?` with CharSyntax::Elisp", [0x3F], {"char_syntax": variant(CS, "Elisp")}, {"Char"}, {"Symbol"}, {"parse_elisp_char"}, set()),
        ("`?` with CharSyntax::R6RS", [0x3F], {"char_syntax": variant(CS, "R6RS")}, {"Symbol"}, {"Char"}, set(), {"parse_elisp_char"}),
        ("`:` with ColonPrefix enabled", [0x3A], {"keyword_syntaxes": 1}, {"Keyword"}, {"Symbol"}, set(), set()),
        ("`:` with ColonPrefix disabled", [0x3A], {"keyword_syntaxes": 6}, {"Symbol"}, {"Keyword"}, set(), set()),
        ("`#:` with Octothorpe enabled", [0x23, 0x3A], {"keyword_syntaxes": 4}, {"Keyword"}, {"Err(ExpectedSomeIdent)"}, set(), set()),
        ("`#:` with Octothorpe disabled", [0x23, 0x3A], {"keyword_syntaxes": 3}, {"Err(ExpectedSomeIdent)"}, {"Keyword"}, set(), set()),
        ("`#%` with the Racket option", [0x23, 0x25], {"racket_hash_percent_symbols": 1}, {"Symbol"}, {"Err(ExpectedSomeIdent)"}, set(), set()),
        ("`#%` without the Racket option", [0x23, 0x25], {"racket_hash_percent_symbols": 0}, {"Err(ExpectedSomeIdent)"}, {"Symbol"}, set(), set()),
        ("digit with leading-digit symbols", [0x31], {"leading_digit_symbols": 1}, {"Symbol", "Number"}, set(), {"from_slice_custom"}, set()),
        ("digit without leading-digit symbols", [0x31], {"leading_digit_symbols": 0}, {"Number"}, {"Symbol"}, {"parse_num_literal"}, {"from_slice_custom"}),
        ("letter with ColonPostfix enabled", [0x61], {"keyword_syntaxes": 2}, {"Keyword", "Symbol"}, set(), set(), set()),
        ("letter with ColonPostfix disabled", [0x61], {"keyword_syntaxes": 5, "nil_symbol": variant(NS, "Default"),
                                                       "t_symbol": variant(TS, "Default")}, {"Symbol"}, {"Keyword", "Null", "Nil", "Bool"}, set(), set()),
        ("letter with NilSymbol::EmptyList", [0x6E], {"keyword_syntaxes": 0, "nil_symbol": variant(NS, "EmptyList"),
                                                      "t_symbol": variant(TS, "Default")}, {"Null", "Symbol"}, {"Nil", "Bool"}, set(), set()),
        ("letter with NilSymbol::Special", [0x6E], {"keyword_syntaxes": 0, "nil_symbol": variant(NS, "Special"),
                                                    "t_symbol": variant(TS, "Default")}, {"Nil", "Symbol"}, {"Null", "Bool"}, set(), set()),
        ("letter with TSymbol::True", [0x74], {"keyword_syntaxes": 0, "nil_symbol": variant(NS, "Default"),
                                                "t_symbol": variant(TS, "True")}, {"Bool", "Symbol"}, {"Nil", "Null"}, set(), set()),
    ]
    for desc, seq, opts, must, mustnot, use, nouse in cases:
        try:
            kinds, uses = _token_kinds(lexpr, pt, seq, opts)
        except sim.Limit:
            r.violation(pt.path, "inexact:%s" % desc, "path limit while evaluating %s" % desc)
            continue
        problems = []
        if not must <= kinds:
            problems.append("cannot produce %s" % sorted(must - kinds))
        if mustnot & kinds:
            problems.append("can still produce %s" % sorted(mustnot & kinds))
        if not use <= uses:
            problems.append("does not call %s" % sorted(use - uses))
        if nouse & uses:
            problems.append("still calls %s" % sorted(nouse & uses))
        if problems:
            r.violation(pt.path, "option-effect:%s" % desc,
                        "%s: parse_token %s (token kinds %s, routines %s): the option does not govern this token as "
                        "documented" % (desc, "; ".join(problems), sorted(kinds), sorted(uses)), pt.loc())
        else:
            r.ok("%s -> %s%s" % (desc, sorted(kinds), (" via " + ",".join(sorted(uses))) if uses else ""), pt)
    r.floor("option-cases", len(cases))


class Str:
    """A known token text (the symbol scanner's result) for the decision-table evaluation."""

    def __init__(self, b):
        self.b = bytearray(b)

    def __repr__(self):
        return "Str(%r)" % bytes(self.b)


def opt_decision(ctx, lexpr, pt):
    """Decision table of the letter-initial arm over representative token texts and option values:
    postfix keyword first, then nil, then t, else symbol - exactly as documented."""
    r = ctx.rule("R-OPT-DECISION", "letter-initial tokens: `name:` is a keyword iff postfix keywords are on; otherwise nil / t "
                                   "follow their own option; every other name is a symbol (representative texts x options)")
    tok = lexpr.variant_names("parse::Token")

    def variant(adt, name):
        for v in lexpr.adts[adt]["variants"]:
            if v["name"] == name:
                return Adt(adt, v["idx"], [], name)
        raise KeyError(name)

    texts = [b"nil", b"t", b"x", b"nil:", b"t:", b"x:", b"nilx", b"tt", b"n", b"nil::", b"NIL", b"Nil", b"T"]
    flags = (0, 2, 5, 7)
    if ctx.tier == "thorough":
        # every combination of the three keyword spellings, and more texts around the two special names
        texts += [b"ni", b"nill", b"t:t", b":", b"a:b", b"nil:x", b"tnil", b"x::", b"nil-", b"t1", b"nIl", b"NIL:"]
        texts = [x for x in texts if x[:1].isalpha()]
        flags = tuple(range(8))
    n = 0
    decided = 0
    undecided = []
    for kw in flags:
        for nil in ("Default", "EmptyList", "Special"):
            for tsym in ("Default", "True"):
                for text in texts:
                    n += 1
                    opts = {"keyword_syntaxes": kw, "nil_symbol": variant("parse::NilSymbol", nil),
                            "t_symbol": variant("parse::TSymbol", tsym)}

                    def opaque(o, opts=opts):
                        if "options" in o.path:
                            for f, v in opts.items():
                                if f in o.path:
                                    return v
                        return None

                    def hook(S, fn, bb, t, args, path, text=text):
                        p = t["callee"].get("path", "")
                        full = t["callee"].get("full", "")
                        nm = F.callee_names(t)
                        d = []
                        for a in args:
                            v = S._deref(a, path)
                            for _ in range(3):
                                if isinstance(v, sim.Ref):
                                    v = S._deref(v, path)
                            d.append(v)
                        if p == P + "parse_symbol":
                            return ("value", Adt("std::result::Result", 0, [Str(text)]))
                        if d and isinstance(d[0], Str):
                            s0 = d[0]
                            if p.endswith("<impl str>::ends_with") and len(d) > 1 and isinstance(d[1], int):
                                return ("value", int(len(s0.b) > 0 and s0.b[-1] == d[1]))
                            if p.endswith("<impl str>::starts_with") and len(d) > 1 and isinstance(d[1], int):
                                return ("value", int(len(s0.b) > 0 and s0.b[0] == d[1]))
                            if p == "std::string::String::pop":
                                if s0.b:
                                    s0.b.pop()
                                return ("value", UNK)
                            if "std::ops::Deref::deref" in nm or "std::ops::DerefMut::deref_mut" in nm \
                                    or p.endswith("String::as_str") or "std::convert::Into::into" in nm \
                                    or "std::convert::From::from" in nm or p.endswith("into_boxed_str") or "std::borrow::Borrow::borrow" in nm:
                                return ("value", s0)
                            if ("std::cmp::PartialEq::eq" in nm or "std::cmp::PartialEq::ne" in nm) and len(d) > 1:
                                other = d[1]
                                ob = bytes(other.b) if isinstance(other, (Bytes, Str)) else None
                                if ob is not None:
                                    eq = bytes(s0.b) == ob
                                    return ("value", int(eq if "eq" == t["callee"].get("method") else not eq))
                            if p.endswith("<impl str>::eq_ignore_ascii_case") and len(d) > 1 and isinstance(d[1], (Bytes, Str)):
                                return ("value", int(bytes(s0.b).lower() == bytes(d[1].b).lower()))
                            if p.endswith("<impl str>::to_ascii_lowercase") or p.endswith("<impl str>::to_lowercase"):
                                return ("value", Str(bytes(s0.b).lower()))
                            if p.endswith("<impl str>::len") or p.endswith("String::len"):
                                return ("value", len(s0.b))
                            if p.endswith("<impl str>::ends_with") and len(d) > 1 and isinstance(d[1], (Bytes, Str)):
                                return ("value", int(bytes(s0.b).endswith(bytes(d[1].b))))
                            if p.endswith("<impl str>::strip_suffix") and len(d) > 1:
                                suf = bytes([d[1]]) if isinstance(d[1], int) else (bytes(d[1].b) if isinstance(d[1], (Bytes, Str)) else None)
                                if suf is not None:
                                    if bytes(s0.b).endswith(suf):
                                        return ("value", lex.some(Str(s0.b[:len(s0.b) - len(suf)])))
                                    return ("value", lex.none())
                            if p == "std::string::String::truncate" and len(d) > 1 and isinstance(d[1], int):
                                del s0.b[d[1]:]
                                return ("value", sim.Tup([]))
                            if p.endswith("<impl str>::is_empty") or p.endswith("String::is_empty"):
                                return ("value", int(len(s0.b) == 0))
                            if p.endswith("as_bytes"):
                                return ("value", Bytes(list(s0.b)))
                            if "std::clone::Clone::clone" in nm or "std::borrow::ToOwned::to_owned" in nm or "std::string::ToString::to_string" in nm:
                                return ("value", Str(s0.b))
                            if "drop_in_place" not in p:
                                unmodelled.append(full or p)
                        return None

                    unmodelled = []
                    S = sim.Sim([lexpr], hooks={"call": hook, "opaque": opaque}, inline=lex.helper_inline(lexpr, INL),
                                max_paths=4000, max_depth=4)
                    got = set()
                    try:
                        for pth in S.run(pt, args={2: text[0]}):
                            if pth.end != "return":
                                continue
                            rv = pth.ret
                            if isinstance(rv, Adt) and rv.variant == 0 and isinstance(rv.fields[0], Adt):
                                tk = rv.fields[0]
                                tmod = TM(lexpr)
                                pay = tmod.payload(tk, S, pth)
                                pay = alist_unbox(S, pth, pay)
                                got.add((tmod.kind(tk, S, pth), bytes(pay.b) if isinstance(pay, Str) else (pay if isinstance(pay, int) else None)))
                            else:
                                got.add(("Err", None))
                    except sim.Limit:
                        got = {("inexact", None)}
                    postfix = bool(kw & 2)
                    if postfix and text.endswith(b":"):
                        want = ("Keyword", text[:-1])
                    elif text == b"nil" and nil != "Default":
                        want = ("Null", None) if nil == "EmptyList" else ("Nil", None)
                    elif text == b"t" and tsym == "True":
                        want = ("Bool", 1)
                    else:
                        want = ("Symbol", text)
                    desc = "%r with keyword flags %d, nil=%s, t=%s" % (text.decode(), kw, nil, tsym)
                    if got != {want} and (unmodelled or got == {("inexact", None)}):
                        undecided.append((desc, sorted(set(unmodelled))[:3]))
                    elif got == {want}:
                        decided += 1
                        if n % 24 == 1:
                            r.ok("%s -> %s" % (desc, want[0]), pt)
                        else:
                            r.obligations += 1
                            r.discharged += 1
                            r.keys.add(desc)
                    else:
                        r.violation(pt.path, "decision:%s" % desc,
                                    "the token %s is read as %s; the documented reading is %s%s" % (
                                        desc, sorted(got, key=repr), want[0],
                                        " %r" % want[1].decode() if isinstance(want[1], bytes) else ""), pt.loc())
    if undecided:
        r.note("%d cases not decided (a string operation on the token text has no model): e.g. %s via %s" % (
            len(undecided), undecided[0][0], undecided[0][1]))
    r.floor("decision-cases", n)
    r.floor("decided-cases", decided)


def subparser_end(ctx, lexpr):
    r = ctx.rule("R-SUBPARSER-END", "the result of a Parser constructed inside the crate is accepted only after "
                                    "expect_end on that parser")
    ctors = ("parse::Parser::<R>::new", "parse::Parser::<R>::with_options", "from_slice_custom", "from_str_custom",
             "from_reader_custom", "::from_slice", "::from_str", "::from_reader")
    n = 0
    for fn in lexpr.fns:
        if not common.in_file(fn, "lexpr/src/parse/mod.rs", "lexpr/src/datum.rs"):
            continue
        if (fn.self_ty or "").startswith("parse::Parser<") and fn.path.rsplit("::", 1)[1] in (
                "new", "with_options", "from_reader", "from_reader_custom", "from_slice", "from_slice_custom", "from_str",
                "from_str_custom"):
            continue   # the constructors themselves
        made = []
        for bi, t in fn.calls():
            p = t["callee"].get("path", "")
            if p.startswith("parse::Parser::<") and p.rsplit("::", 1)[1] in (
                    "new", "with_options", "from_slice_custom", "from_str_custom", "from_reader_custom", "from_slice",
                    "from_str", "from_reader"):
                if not t["dest"]["p"]:
                    made.append((bi, t["dest"]["l"], t))
        for bi, b in enumerate(fn.blocks):
            if b.get("cleanup"):
                continue
            for st in b["stmts"]:
                if st["k"] == "assign" and st["rv"]["k"] == "agg" and st["rv"].get("adt") == "parse::Parser" and not st["place"]["p"]:
                    made.append((bi, st["place"]["l"], {"line": st.get("line")}))      # a parser built in place
        for bi, local, t in made:
            n += 1
            defs = common.defs_of(fn)
            ends = []
            for b2, t2 in fn.calls():
                p2 = t2["callee"].get("path", "")
                if p2.endswith("::expect_end") or p2.endswith("Parser::<R>::end"):
                    o = common.origin(fn, defs, t2["args"][0])
                    if (o["k"] == "multi" and o["l"] == local) or (o["k"] == "call" and o["block"] == bi) \
                            or _refers(fn, defs, t2["args"][0], local):
                        ends.append(b2)
            if not ends:
                # `parser.expect_datum().and_then(|d| parser.expect_end().map(|()| d))`: the check sits in a closure
                # that captures this parser
                for b in fn.blocks:
                    for st in b["stmts"]:
                        if st["k"] == "assign" and st["rv"]["k"] == "agg" and st["rv"].get("agg") == "closure" \
                                and any(_refers(fn, defs, f2, local) for f2 in st["rv"].get("fields") or [] if isinstance(f2, dict)):
                            g = lexpr.fn(st["rv"]["closure"])
                            inner = [g] + (lexpr.closures_of(g.path) if g is not None else [])
                            if any(t3["callee"].get("path", "").endswith(("::expect_end", "Parser::<R>::end"))
                                   for h in inner if h is not None for _b3, t3 in h.calls()):
                                ends.append(-1)
            if ends:
                r.ok("%s: the parser created at line %s is checked with expect_end" % (fn.path, t.get("line")), fn, t.get("line"))
            else:
                r.violation(fn.path, "subparser-without-expect_end",
                            "%s creates a Parser (line %s) and uses its result without calling expect_end on it: "
                            "a value followed by leftover input is accepted (e.g. the leading-digit re-scan turns "
                            "`1+` into the number 1)" % (fn.path, t.get("line")), fn.loc(t.get("line")))
    r.floor("subparser-sites", n)


def _refers(fn, defs, op, local):
    seen = 0
    while op.get("c") in ("copy", "move") and seen < 8:
        pl = op["pl"]
        if pl["l"] == local:
            return True
        ds = defs.get(pl["l"], [])
        if len(ds) != 1 or ds[0][1] == "term":
            return False
        rv = ds[0][2]
        if rv["k"] == "use":
            op = rv["op"]
        elif rv["k"] in ("ref", "rawptr"):
            if rv["pl"]["l"] == local:
                return True
            op = {"c": "copy", "pl": {"l": rv["pl"]["l"], "p": []}}
        else:
            return False
        seen += 1
    return False


def _enum_name(lexpr, v):
    """For a value of a field-less private enum: the string its one `fn(Self) -> &str` / `fn(&Self) -> &str` method
    returns for it (None when there is no such method, or several disagree)."""
    outs = set()
    n = 0
    for g in lexpr.fns:
        if g.kind == "closure" or g.arg_count != 1 or g.local_ty(0) not in ("&str", "&'static str"):
            continue
        t1 = g.local_ty(1)
        if t1 not in (v.adt, "&" + v.adt, "&'_ " + v.adt):
            continue
        n += 1
        S = sim.Sim([lexpr])
        arg = v
        for p in S.run(g, args={1: arg}):
            if p.end != "return":
                outs.add(None)
                continue
            b = S._deref(p.ret, p)
            outs.add(bytes(b.b) if isinstance(b, Bytes) else None)
    if n and len(outs) == 1 and None not in outs:
        return Bytes(list(outs.pop()))
    return None


def quote_table(ctx, lexpr, pt):
    r = ctx.rule("R-QUOTE-TABLE", "' ` , ,@ expand to (quote x) (quasiquote x) (unquote x) (unquote-splicing x)")
    want = {(0x27,): b"quote", (0x60,): b"quasiquote", (0x2C, 0x61): b"unquote", (0x2C, 0x40): b"unquote-splicing"}
    tok = lexpr.variant_names("parse::Token")
    for seq, name in sorted(want.items()):
        S = sim.Sim([lexpr], hooks={"call": lex.seq_hook(list(seq) + [0x61, 0x20])}, inline=lex.helper_inline(lexpr, INL),
                    max_paths=5000, max_visits=2)
        got = set()
        for p in S.run(pt, args={2: seq[0]}):
            if p.end != "return":
                continue
            rv = p.ret
            if isinstance(rv, Adt) and rv.variant == 0 and isinstance(rv.fields[0], Adt):
                tk = rv.fields[0]
                payload = S._deref(tk.fields[0], p) if tk.fields else None
                if isinstance(payload, Adt) and payload.adt in lexpr.adts and lexpr.adts[payload.adt].get("kind") == "enum":
                    # the shorthand as a private enum: its name is what the enum's `-> &str` method says
                    payload = _enum_name(lexpr, payload)
                got.add((TM(lexpr).kind(tk, S, p), bytes(payload.b) if isinstance(payload, Bytes) else None))
            else:
                got.add(("Err", None))
        if got == {("Quotation", name)}:
            r.ok("%r -> Token::Quotation(%r)" % (bytes(seq[:2] if seq[0] == 0x2C and seq[1] == 0x40 else seq[:1]), name.decode()), pt)
        else:
            r.violation(pt.path, "shorthand:%s" % name.decode(),
                        "the shorthand %r yields %s instead of Token::Quotation(%r)" % (bytes(seq), sorted(got, key=repr), name.decode()), pt.loc())
    # expansion sites: a 2-element list headed by symbol(name)
    for fp in (P + "next_value", "datum::Datum::quotation"):
        if lexpr.fn(fp) is None:
            r.anchor_missing(fp)
            continue
        verdicts = [_expansion_site(f) for f in lexpr.parts_of(fp)]
        f = lexpr.fn(fp)
        if "list" in verdicts:
            r.ok("%s builds Value::list([Value::symbol(name), datum])" % fp, f)
        elif "cells" in verdicts:
            r.ok("%s builds cons(Value::symbol(name), cons(datum, ()))" % fp, f)
        else:
            r.violation(fp, "quotation-expansion", "%s no longer builds a two-element list headed by the shorthand's symbol" % fp, f.loc())


def _expansion_site(f):
    """Does this function (next_value, a worker it was split into, Datum::quotation) build `(name datum)`?"""
    if True:
        defs = common.defs_of(f)
        sym_blocks = [bi for bi, t in f.calls() if t["callee"].get("path", "") == "value::Value::symbol"]
        list_calls = [t for bi, t in f.calls() if t["callee"].get("path", "") == "value::Value::list"]
        okk = False
        for b in f.blocks:
            for s in b["stmts"]:
                if s["k"] == "assign" and s["rv"]["k"] == "agg" and s["rv"].get("agg") == "array" and len(s["rv"]["fields"]) == 2:
                    o = common.origin(f, defs, s["rv"]["fields"][0])
                    if o["k"] == "call" and o["t"]["callee"].get("path", "") == "value::Value::symbol":
                        okk = True
        # the same list built cell by cell: cons(symbol(name), cons(datum, Null))
        def is_cons_ctor(t):
            return t["callee"].get("path", "") in ("cons::Cons::new", "value::Value::cons") and len(t["args"]) == 2

        def through_into(o):
            # `.into()` / `Value::from(cons)` / `Value::Cons(cons)` wrappers around a cell
            for _ in range(4):
                if o["k"] == "call" and ({"std::convert::Into::into", "std::convert::From::from"} & F.callee_names(o["t"])) \
                        and o["t"]["args"]:
                    o = common.origin(f, defs, o["t"]["args"][0])
                elif o["k"] == "agg" and o["rv"].get("vname") == "Cons" and o["rv"]["fields"]:
                    o = common.origin(f, defs, o["rv"]["fields"][0])
                else:
                    break
            return o

        nested = False
        for bi, t in f.calls():
            if not is_cons_ctor(t):
                continue
            head = through_into(common.origin(f, defs, t["args"][0]))
            rest = through_into(common.origin(f, defs, t["args"][1]))
            if head["k"] == "call" and head["t"]["callee"].get("path", "") == "value::Value::symbol" \
                    and rest["k"] == "call" and is_cons_ctor(rest["t"]):
                tail = common.origin(f, defs, rest["t"]["args"][1])
                if tail["k"] == "agg" and tail["rv"].get("vname") == "Null":
                    nested = True
        if okk and list_calls:
            return "list"
        if nested:
            return "cells"
        return None


def num_boundary(ctx, lexpr, pt):
    r = ctx.rule("R-NUM-BOUNDARY", "parse_token returns a number only after testing that the following byte is a "
                                   "delimiter or the end of input")
    tok = lexpr.variant_names("parse::Token")
    try:
        delim = classes.predicate_class(lexpr, "parse::is_delimiter")
    except classes.Inexact:
        delim = None
    firsts = {"digit": [0x31], "minus": [0x2D, 0x31], "plus": [0x2B, 0x31], "radix-prefix": [0x23, 0x78]}
    for label, seq in sorted(firsts.items()):
        # after the numeric routine returned, is the next byte inspected?
        def hook(S, fn, bb, t, args, path, seq=seq):
            nm = F.callee_names(t)
            if any(n.endswith("parse_num_literal") or n.endswith("parse_radix_literal") for n in nm):
                path.events.append(("number-parsed",))
                return ("skip", Adt("std::result::Result", 0, [Opq("number")]))
            if lex.is_read_call(nm):
                if any(e[0] == "number-parsed" for e in path.events):
                    path.events.append(("boundary-read", lex.read_kind(nm)))
                    return ("fork", [lex.ok(lex.some(0x2B)), lex.ok(lex.some(0x20)), lex.ok(lex.none())])
                k = sum(1 for e in path.events if e[0] == "call" and (lex.read_kind(e[1]) == "next" or any(x in e[1] for x in lex.DISCARDS)))
                return ("value", lex.ok(lex.some(seq[k] if k < len(seq) else UNK)))
            return None

        def opaque(o):
            if "options" in o.path and "leading_digit_symbols" in o.path:
                return 0
            return None

        S = sim.Sim([lexpr], hooks={"call": hook, "opaque": opaque}, inline=lex.helper_inline(lexpr, INL),
                    max_paths=5000, max_depth=4)
        unchecked = 0
        checked = 0
        accepts_plus = False
        for p in S.run(pt, args={2: seq[0]}):
            if p.end != "return" or not any(e[0] == "number-parsed" for e in p.events):
                continue
            rv = p.ret
            if isinstance(rv, Adt) and rv.variant == 0 and isinstance(rv.fields[0], Adt) and TM(lexpr).kind(rv.fields[0], S, p) == "Number":
                if any(e[0] == "boundary-read" for e in p.events):
                    checked += 1
                else:
                    unchecked += 1
        if unchecked:
            r.violation(pt.path, "number-without-boundary:%s" % label,
                        "parse_token (%s) returns Token::Number without looking at the byte that follows the literal: "
                        "`1+` or `12ab`-like tokens are split into a number and a second token instead of being "
                        "rejected" % label, pt.loc())
        elif checked:
            r.ok("%s: the byte after the literal is inspected before Token::Number is returned" % label, pt)
        else:
            r.violation(pt.path, "number-path-missing:%s" % label, "no path of parse_token (%s) returns a number" % label, pt.loc())


def opt_setters(ctx, lexpr):
    """The builder methods of Options against its accessors, by abstract evaluation over the options' finite domains:
    `with_x(v)` makes `x()` answer v and leaves every other accessor's answer as it was; `with_keyword_syntax(s)` adds
    s to the enabled keyword spellings; `with_keyword_syntaxes(list)` makes exactly the listed spellings enabled.
    Setters and accessors are paired through their public names (`with_` + accessor name)."""
    from ..sim import Ref, Tup
    r = ctx.rule("R-OPT-SETTERS", "each Options builder method sets the option its name and documentation say - as seen "
                                  "through the accessor of that option - and leaves the answers of all other accessors "
                                  "unchanged; with_keyword_syntax adds a spelling, with_keyword_syntaxes sets the list")
    OPT = "parse::Options"
    a = lexpr.adts.get(OPT)
    if a is None:
        r.anchor_missing(OPT)
        return
    fields = a["variants"][0]["fields"]
    KS = "syntax::KeywordSyntax"

    def domain(ty):
        if ty == "bool":
            return [0, 1]
        d = lexpr.adts.get(ty)
        if d and d["kind"] == "enum" and all(not v["fields"] for v in d["variants"]):
            return [Adt(ty, v["idx"], [], v["name"]) for v in d["variants"]]
        return None

    ks = domain(KS)
    if not ks:
        r.anchor_missing(KS)
        return
    member = [f for f in lexpr.fns if f.path.startswith(OPT + "::") and f.is_pub and "{closure" not in f.path]
    ty = lambda f, i: f.locals[i]["ty"]
    getters = {f.path.rsplit("::", 1)[1]: f for f in member
               if (f.arg_count == 1 and ty(f, 1) == OPT and domain(ty(f, 0)))
               or (f.arg_count == 2 and ty(f, 1) == OPT and ty(f, 2) == KS and ty(f, 0) == "bool")}
    setters = {f.path.rsplit("::", 1)[1]: f for f in member if f.arg_count == 2 and ty(f, 1) == OPT and ty(f, 0) == OPT}
    synt = lex.syntax_helpers(lexpr)
    inl = lambda x, b: b.crate == lexpr.name and (b.path.startswith(OPT + "::") or b.path.startswith(KS + "::") or b.path in synt)

    def hook(S, fn, bb, t, args, path):
        nm = F.callee_names(t)
        if "std::borrow::Borrow::borrow" in nm and args:
            v = S._deref(args[0], path)
            if isinstance(v, Adt) and v.adt == KS:
                return ("value", Ref([v], 0, ()))
        return None

    def ev(fn, *args):
        S = sim.Sim([lexpr], hooks={"call": hook}, inline=inl, max_depth=8, max_paths=400, max_visits=12)
        try:
            ps = S.run(fn, args={i + 1: x for i, x in enumerate(args)})
        except sim.Limit:
            return None
        outs = []
        for p in ps:
            if p.end != "return":
                return None
            outs.append(S._deref(p.ret, p))
        if len(outs) != 1:
            # several paths: they must agree
            if not outs or any(key(o) != key(outs[0]) for o in outs):
                return None
        return outs[0]

    def key(v):
        if isinstance(v, int):
            return v
        if isinstance(v, Adt) and v.adt == OPT:
            return tuple(key(x) for x in v.fields)
        if isinstance(v, Adt) and not v.fields:
            return (v.adt, v.variant)
        return None

    def show(v):
        if isinstance(v, Adt) and not v.fields:
            return v.vname or str(v.variant)
        return repr(v)

    # the flag bits as the crate computes them: every subset of spellings is a prior state of the keyword option
    def fresh(state):
        return Adt(OPT, 0, [Adt(x.adt, x.variant, [], x.vname) if isinstance(x, Adt) else x for x in state])

    def observe(o):
        """Answers of all accessors on an Options value: {name or (name, spelling): answer key}."""
        out = {}
        for gname, g in getters.items():
            if g.arg_count == 1:
                out[gname] = key(ev(g, fresh(o.fields)))
            else:
                for s in ks:
                    out[(gname, s.vname)] = key(ev(g, fresh(o.fields), s))
        return out

    new = lexpr.fn(OPT + "::new")
    base = ev(new) if new is not None else None
    if not (isinstance(base, Adt) and base.adt == OPT and key(base) is not None and all(k is not None for k in key(base))):
        r.anchor_missing("Options::new evaluates to a concrete value")
        return
    # prior states: the defaults, and each field in turn at each of its values; the keyword spellings additionally
    # as every subset, built with the crate's own flag computation
    doms = []
    for i, f in enumerate(fields):
        d = domain(f["ty"])
        doms.append(d)
    kw_setter = None
    for sname, sf in setters.items():
        if ty(sf, 2) == KS:
            kw_setter = sf
    priors = [("defaults", base)]
    for i, d in enumerate(doms):
        for v in d or []:
            st = list(base.fields)
            st[i] = v
            priors.append(("%s = %s" % (fields[i]["name"], show(v)), fresh(st)))
    if kw_setter is not None:
        import itertools
        for n in range(1, len(ks) + 1):
            for sub in itertools.combinations(ks, n):
                o = fresh(base.fields)
                for s in sub:
                    o = ev(kw_setter, o, s)
                    if o is None:
                        break
                if o is not None and key(o) is not None:
                    priors.append(("keywords " + "+".join(s.vname for s in sub), o))
    r.floor("prior-states", len(priors))
    n = und = pairs = 0
    for sname, sf in sorted(setters.items()):
        aty = ty(sf, 2)
        gname = sname[5:] if sname.startswith("with_") else None
        target = getters.get(gname) if gname else None
        mode = "set"
        if aty == KS:
            mode, argvals = "add", [("%s" % s.vname, s, [s]) for s in ks]
            target = target or getters.get("keyword_syntax")
            gname = [k for k, g in getters.items() if g is target][0] if target else None
        elif domain(aty):
            argvals = [(show(v), v, None) for v in domain(aty)]
        else:
            # a generic list of spellings: arrays by value and by reference
            import itertools
            tgt2 = [g for k, g in getters.items() if g.arg_count == 2]
            if not (gname and gname.rstrip("es") and tgt2):
                r.note("builder %s: parameter type %s is not evaluated" % (sname, aty))
                continue
            target, mode, argvals = tgt2[0], "list", []
            gname = [k for k, g in getters.items() if g is target][0]
            for k in range(0, len(ks) + 1):
                for sub in itertools.combinations(ks, k):
                    argvals.append(("[%s]" % ", ".join(s.vname for s in sub), Tup(list(sub)), list(sub)))
                    argvals.append(("&[%s]" % ", ".join(s.vname for s in sub), Ref([Tup(list(sub))], 0, ()), list(sub)))
        if target is None:
            r.note("builder %s has no accessor named %s: not evaluated" % (sname, gname))
            continue
        pairs += 1
        for pname, prior in priors:
            before = observe(prior)
            for aname, aval, members in argvals:
                n += 1
                res = ev(sf, fresh(prior.fields), aval)
                if not (isinstance(res, Adt) and res.adt == OPT and key(res) is not None and None not in key(res)):
                    und += 1
                    r.note("undecided: %s(%s) on %s" % (sname, aname, pname))
                    continue
                after = observe(res)
                want = dict(before)
                if mode == "set":
                    want[gname] = key(aval)
                else:
                    for s in ks:
                        on = s.vname in [m.vname for m in members]
                        want[(gname, s.vname)] = 1 if on else (before[(gname, s.vname)] if mode == "add" else 0)
                if None in after.values() or None in before.values():
                    und += 1
                    r.note("undecided: accessors after %s(%s) on %s" % (sname, aname, pname))
                    continue
                diff = sorted((str(k) for k in want if after.get(k) != want[k]))
                if not diff:
                    r.ok("%s(%s) on %s" % (sname, aname, pname), sf)
                else:
                    r.violation(sf.path, "setter:%s:%s" % (aname, "+".join(diff)),
                                "Options::%s(%s) applied to options with %s: the accessor(s) %s do not answer as documented "
                                "afterwards (%s)" % (sname, aname, pname, ", ".join(diff),
                                                     "; ".join("%s: %s, documented %s" % (k, after.get(k), want[k])
                                                               for k in want if after.get(k) != want[k])[:300]),
                                sf.loc())
    r.floor("builder-accessor-pairs", pairs)
    r.floor("setter-cases", n)
    r.floor("setter-decided", n - und)
