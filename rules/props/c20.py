"""C20  Value and Number accessors, conversions and comparisons are coherent.

  R-ISAS     for every is_x/as_x pair on Value and Number: {cases where is_x is true} = {cases where
             as_x is Some}, over all 11 Value kinds and the integer boundary cases of Number; as_i64 /
             as_u64 return the stored integer exactly when it is in range; as_name is Some exactly for
             String, Symbol, Keyword
  R-FROM-INT From<i8..i64> stores n >= 0 as PosInt(n) and n < 0 as NegInt(n); From<u8..u64> as PosInt;
             From<f32/f64> as Float (so a non-negative integer is never a NegInt)
  R-EQ-SYM   every PartialEq impl between Value and a primitive (both operand orders, through references) is
             evaluated abstractly on the stored integer cases x the boundary values of the primitive type,
             booleans, strings of each name kind and the non-matching kinds: integers compare by
             mathematical value, every other pairing is unequal
Not decided: payload preservation for strings/bytes/chars as values.
"""
from .. import common, facts as F, sim
from ..sim import Adt, Opq, Ref, UNK

I64_MAX = (1 << 63) - 1
U64_MAX = (1 << 64) - 1
PAIRS_SPECIAL = {"is_boolean": "as_bool", "is_vector": "as_slice"}


def _cell(v):
    return Ref([v], 0, ())


def _opt(p):
    r = p.ret
    if isinstance(r, Adt) and r.adt.endswith("Option"):
        return ("some", r.fields[0]) if r.variant == 1 else ("none", None)
    return ("?", None)


def run(ctx):
    db = ctx.facts(["poly"])
    lexpr = db.crate("lexpr")
    ctx.explanation = (
        "The accessor and predicate functions are small matches on the Value / Number discriminants; the rule extracts "
        "their complete outcome maps by constant propagation of every Value kind (11) and of the integer boundary "
        "payloads (0, 1, i64::MAX, i64::MAX+1, u64::MAX, -1, i64::MIN) and compares each is_x map with the Some-set of "
        "as_x. The From<integer> impls are evaluated on the boundary values of each width to establish the "
        "representation invariant the accessors rely on. The 50 PartialEq impls between Value and primitives are "
        "evaluated abstractly on boundary cases (3298 in all): integers compare by mathematical value, other pairings are "
        "unequal, in both operand orders.")
    ctx.trusted = ["rustc nightly MIR construction", "integer From impls of std are lossless"]
    isas(ctx, lexpr)
    from_int(ctx, lexpr)
    eq_sym(ctx, lexpr)


def value_cases(lexpr):
    v = lexpr.adts["value::Value"]["variants"]
    cases = []
    for var in v:
        if var["name"] == "Number":
            for label, n in number_cases(lexpr):
                cases.append(("Number(%s)" % label, Adt("value::Value", var["idx"], [n], "Number")))
        else:
            cases.append((var["name"], Adt("value::Value", var["idx"], [Opq("payload")] * len(var["fields"]), var["name"])))
    return cases


def number_cases(lexpr):
    nv = {x["name"]: x["idx"] for x in lexpr.adts["number::N"]["variants"]}
    out = []
    for n in (0, 1, I64_MAX, I64_MAX + 1, U64_MAX):
        out.append(("PosInt %d" % n, Adt("number::Number", 0, [Adt("number::N", nv["PosInt"], [n], "PosInt")])))
    for n in (-1, -(1 << 63)):
        out.append(("NegInt %d" % n, Adt("number::Number", 0, [Adt("number::N", nv["NegInt"], [n], "NegInt")])))
    out.append(("Float", Adt("number::Number", 0, [Adt("number::N", nv["Float"], [Opq("f")], "Float")])))
    return out


def isas(ctx, lexpr):
    r = ctx.rule("R-ISAS", "is_x agrees with as_x().is_some() on every Value kind / Number case; integer accessors exact")
    inl = lambda a, b: b.crate == "lexpr" and (b.file.endswith("value/mod.rs") or b.file.endswith("number.rs"))
    S = sim.Sim([lexpr], inline=inl, max_depth=6)

    def outcome(fn, val):
        ps = [p for p in S.run(fn, args={1: _cell(val)}) if p.end == "return"]
        return ps

    for ty, cases in (("value::Value", value_cases(lexpr)), ("number::Number", number_cases(lexpr))):
        fns = {f.path.rsplit("::", 1)[1]: f for f in lexpr.fns if f.self_ty == ty and f.kind == "assoc" and not f.impl_trait}
        pairs = []
        for name, f in sorted(fns.items()):
            if name.startswith("is_"):
                partner = PAIRS_SPECIAL.get(name, "as_" + name[3:])
                if partner in fns:
                    pairs.append((f, fns[partner]))
                elif name in ("is_list", "is_dotted_list"):
                    continue
                elif name == "is_string" and "as_str" in fns:
                    pairs.append((f, fns["as_str"]))
                else:
                    # a predicate without an accessor of the same name makes no is/as promise
                    r.note("%s has no as_* partner: nothing to compare" % f.path)
        r.floor("pairs:" + ty, len(pairs))
        for isf, asf in pairs:
            if isf.path.endswith("::is_f64"):
                # documented asymmetry: as_f64 also converts integers; is_f64 is true for floats only
                bad = []
                for label, val in cases:
                    iv = {repr(p.ret) for p in outcome(isf, val)}
                    av = {_opt(p)[0] for p in outcome(asf, val)}
                    is_float = "Float" in label
                    is_num = label.startswith(("Number(", "PosInt", "NegInt", "Float"))
                    if iv != ({"1"} if is_float else {"0"}) or av != ({"some"} if is_num else {"none"}):
                        bad.append("%s: is_f64=%s as_f64=%s" % (label, sorted(iv), sorted(av)))
                if bad:
                    r.violation(isf.path, "f64-accessors", "is_f64 must hold exactly for floats and as_f64 be Some exactly "
                                                            "for numbers: %s" % "; ".join(bad[:4]), isf.loc())
                else:
                    r.ok("%s holds exactly for Float; %s is Some exactly for numbers (documented integer->double "
                         "conversion)" % (isf.path, asf.path.rsplit("::", 1)[1]), isf)
                continue
            bad = []
            for label, val in cases:
                iv = {repr(p.ret) for p in outcome(isf, val)}
                av = {_opt(p)[0] for p in outcome(asf, val)}
                if iv == {"1"} and av == {"some"} or iv == {"0"} and av == {"none"}:
                    continue
                bad.append("%s: %s=%s, %s=%s" % (label, isf.path.rsplit("::", 1)[1], sorted(iv), asf.path.rsplit("::", 1)[1], sorted(av)))
            if bad:
                r.violation(isf.path, "is-as-disagree",
                            "%s and %s disagree: %s" % (isf.path, asf.path, "; ".join(bad[:4])), isf.loc())
            else:
                r.ok("%s <=> %s().is_some() on all %d cases" % (isf.path, asf.path.rsplit("::", 1)[1], len(cases)), isf)
    # exact integer accessors
    vf = {f.path.rsplit("::", 1)[1]: f for f in lexpr.fns if f.self_ty == "value::Value" and f.kind == "assoc" and not f.impl_trait}
    for label, val in value_cases(lexpr):
        want_i = want_u = None
        if label.startswith("Number(PosInt") or label.startswith("Number(NegInt"):
            n = val.fields[0].fields[0].fields[0]
            want_i = n if -(1 << 63) <= n <= I64_MAX else None
            want_u = n if 0 <= n <= U64_MAX and label.startswith("Number(PosInt") else None
        for acc, want in (("as_i64", want_i), ("as_u64", want_u)):
            f = vf.get(acc)
            if f is None:
                r.anchor_missing("value::Value::" + acc)
                continue
            got = {(_opt(p)[0], _opt(p)[1] if isinstance(_opt(p)[1], int) else None) for p in outcome(f, val)}
            exp = {("some", want)} if want is not None else {("none", None)}
            if got == exp:
                r.ok("%s(%s) = %s" % (acc, label, "Some(%d)" % want if want is not None else "None"), f)
            else:
                r.violation(f.path, "%s:%s" % (acc, label),
                            "%s on %s yields %s, expected %s" % (acc, label, sorted(got, key=repr), sorted(exp, key=repr)), f.loc())
        f = vf.get("as_name")
        if f is not None:
            got = {_opt(p)[0] for p in outcome(f, val)}
            want = "some" if label in ("String", "Symbol", "Keyword") else "none"
            if got == {want}:
                r.ok("as_name(%s) is %s" % (label, want), f)
            else:
                r.violation(f.path, "as_name:%s" % label, "as_name on %s is %s, expected %s" % (label, sorted(got), want), f.loc())
        f = vf.get("as_f64")
        if f is not None and label.startswith("Number("):
            got = {_opt(p)[0] for p in outcome(f, val)}
            if got == {"some"}:
                r.ok("as_f64(%s) is Some" % label, f)
            else:
                r.violation(f.path, "as_f64:%s" % label, "as_f64 on %s is %s" % (label, sorted(got)), f.loc())


def from_int(ctx, lexpr):
    r = ctx.rule("R-FROM-INT", "From<integer> for Number: n >= 0 -> PosInt(n), n < 0 -> NegInt(n); floats -> Float")
    nv = {x["name"]: x["idx"] for x in lexpr.adts["number::N"]["variants"]}
    # private constructors the conversions may share (from_signed / from_unsigned) are looked through
    S = sim.Sim([lexpr], inline=lambda a, b: b.crate == lexpr.name and b.file.endswith("number.rs"))
    n = 0
    for ty, bits, signed in (("i8", 8, True), ("i16", 16, True), ("i32", 32, True), ("i64", 64, True),
                             ("u8", 8, False), ("u16", 16, False), ("u32", 32, False), ("u64", 64, False)):
        f = lexpr.fn("<number::Number as std::convert::From<%s>>::from" % ty)
        if f is None:
            r.anchor_missing("From<%s> for Number" % ty)
            continue
        vals = [0, 1, (1 << (bits - 1)) - 1] + ([-1, -(1 << (bits - 1))] if signed else [(1 << bits) - 1])
        for v in vals:
            n += 1
            ps = [p for p in S.run(f, args={1: v}) if p.end == "return"]
            outs = set()
            for p in ps:
                x = p.ret
                if isinstance(x, Adt) and x.fields and isinstance(x.fields[0], Adt):
                    nn = x.fields[0]
                    outs.add((nn.variant, nn.fields[0] if nn.fields and isinstance(nn.fields[0], int) else None))
                else:
                    outs.add(("?", None))
            want = {(nv["PosInt"], v)} if v >= 0 else {(nv["NegInt"], v)}
            if outs == want:
                r.ok("Number::from(%d_%s) = %s(%d)" % (v, ty, "PosInt" if v >= 0 else "NegInt", v), f)
            else:
                r.violation(f.path, "from:%d" % v,
                            "Number::from(%d as %s) is stored as %s, expected %s: accessors that assume non-negative "
                            "integers are PosInt misreport it" % (v, ty, sorted(outs, key=repr), sorted(want, key=repr)), f.loc())
    for ty in ("f32", "f64"):
        f = lexpr.fn("<number::Number as std::convert::From<%s>>::from" % ty)
        if f is None:
            r.anchor_missing("From<%s> for Number" % ty)
            continue
        n += 1
        ps = [p for p in S.run(f) if p.end == "return"]
        kinds = {p.ret.fields[0].variant if isinstance(p.ret, Adt) and p.ret.fields and isinstance(p.ret.fields[0], Adt) else "?" for p in ps}
        if kinds == {nv["Float"]}:
            r.ok("Number::from(%s) is stored as Float" % ty, f)
        else:
            r.violation(f.path, "from-float", "Number::from(%s) is stored as variant %s" % (ty, sorted(kinds, key=repr)), f.loc())
        # the payload is the argument itself (an f32 widened exactly): evaluated on values whose decimal text, their
        # neighbours and their f32 / f64 forms all differ
        und = 0
        fvals = [0.1, 0.5, -0.3, 3.4028234663852886e38, 1e-40, 16777217.0] if ty == "f32" else \
            [0.1, -0.3, 1e300, 5e-324, 9007199254740993.0, 2.0]
        for x in fvals:
            n += 1
            arg = sim.Flt(x, ty)
            want = sim.Flt(arg.v, "f64")
            try:
                ps = [p for p in S.run(f, args={1: arg}) if p.end == "return"]
            except sim.Limit:
                ps = []
            outs = set()
            for p in ps:
                xr = p.ret
                nn = xr.fields[0] if isinstance(xr, Adt) and xr.fields and isinstance(xr.fields[0], Adt) else None
                pay = nn.fields[0] if nn is not None and nn.fields else None
                outs.add((nn.variant, pay) if nn is not None and isinstance(pay, sim.Flt) else ("?", None))
            if outs == {(nv["Float"], want)}:
                r.ok("Number::from(%r_%s) stores exactly %r" % (arg.v, ty, want.v), f)
            elif not outs or ("?", None) in outs:
                und += 1
                r.note("undecided: Number::from(%r_%s) gives %s" % (arg.v, ty, sorted(outs, key=repr)))
            else:
                r.violation(f.path, "from-float:%r" % arg.v,
                            "Number::from(%r as %s) stores %s, the exact value is %r: as_f64 and comparisons with the "
                            "original float disagree" % (arg.v, ty, sorted(outs, key=repr), want.v), f.loc())
        r.floor("float-payload-decided:%s" % ty, len(fvals) - und)
    r.floor("conversion-cases", n)


INT_RANGE = {"i8": (-(1 << 7), (1 << 7) - 1), "i16": (-(1 << 15), (1 << 15) - 1), "i32": (-(1 << 31), (1 << 31) - 1),
             "i64": (-(1 << 63), I64_MAX), "u8": (0, 255), "u16": (0, 65535), "u32": (0, (1 << 32) - 1), "u64": (0, U64_MAX)}


def eq_sym(ctx, lexpr):
    """Comparisons between a Value and a primitive, evaluated abstractly for every impl in value/partial_eq.rs:
    integers - every stored integer case against the boundary values of the primitive's type: equal exactly when
    the mathematical values are equal (so no `as` cast can make -1 equal u64::MAX, and a value above i64::MAX is
    not lost); non-number kinds are never equal to a number; bool / string prims compare with the matching kind
    only; both operand orders give the same answer."""
    from .. import alist
    r = ctx.rule("R-EQ-SYM", "Value == primitive: integers compare by mathematical value over all stored integer cases and "
                             "the boundary values of the primitive type, other kinds are unequal; bool and string "
                             "primitives match only their own kind; both operand orders agree")
    impls = [f for f in lexpr.fns if f.file.endswith("value/partial_eq.rs") and f.impl_trait == "std::cmp::PartialEq"
             and f.path.endswith("::eq")]
    r.floor("impls", len(impls))
    inl = lambda a, b: b.crate == lexpr.name and (b.file.endswith("value/partial_eq.rs") or b.file.endswith("value/mod.rs")
                                                  or b.file.endswith("number.rs"))
    nv = {x["name"]: x["idx"] for x in lexpr.adts["number::N"]["variants"]}
    vidx = {x["name"]: x["idx"] for x in lexpr.adts["value::Value"]["variants"]}

    def num(kind, n):
        return Adt("value::Value", vidx["Number"], [Adt("number::Number", 0, [Adt("number::N", nv[kind], [n], kind)])], "Number")

    stored = [("PosInt %d" % n, num("PosInt", n), n) for n in (0, 1, 127, 128, 255, 65535, (1 << 31) - 1, I64_MAX, I64_MAX + 1, U64_MAX)]
    stored += [("NegInt %d" % n, num("NegInt", n), n) for n in (-1, -128, -(1 << 31), -(1 << 63))]
    # 0.1 and 16777217.0 are doubles that are not single-precision numbers: they differ from the f32 nearest to them
    floats = [("Float %r" % x, num("Float", sim.Flt(x)), x) for x in (2.0, 0.0, -1.0, 0.5, 9223372036854775808.0, 1.8446744073709552e19,
                                                                        0.1, 16777217.0)]
    others = [(k, Adt("value::Value", vidx[k], [Opq("payload")] * len(lexpr.adts["value::Value"]["variants"][vidx[k]]["fields"]), k))
              for k in ("Nil", "Null", "Char", "Bytes", "Vector")]
    results = {}
    n_cases = 0
    for f in impls:
        full = f.d.get("impl_trait_full", "")
        k = full.find("PartialEq<")
        rhs = "?"
        if k >= 0:
            inner = full[k + len("PartialEq<"):]
            depth, out = 1, []
            for ch in inner:
                if ch == "<":
                    depth += 1
                elif ch == ">":
                    depth -= 1
                    if depth == 0:
                        break
                out.append(ch)
            rhs = "".join(out)
        lhs = f.self_ty or "?"
        value_left = "Value" in lhs
        prim = (rhs if value_left else lhs).replace("&'a ", "&").strip()
        pbase = prim.lstrip("&")
        vref = (lhs if value_left else rhs).replace("&'a ", "&").replace("&mut ", "&").strip()
        depth_v = 2 if vref.startswith("&") else 1       # &Value / &mut Value operands are references to references

        def wrap_value(v):
            x = _cell(v)
            for _ in range(depth_v - 1):
                x = Ref([x], 0, ())
            return x

        def run_case(v, p):
            pv = _cell(p)
            if prim.startswith("&"):
                pv = Ref([pv], 0, ())
            args = {1: wrap_value(v), 2: pv} if value_left else {1: pv, 2: wrap_value(v)}
            S = sim.Sim([lexpr], hooks={"call": alist.hook}, inline=inl, max_depth=8, max_paths=3000)
            outs = set()
            try:
                for pth in S.run(f, args=args):
                    if pth.end == "return":
                        outs.add(pth.ret if isinstance(pth.ret, int) else "?")
                    elif pth.end == "panic":
                        outs.add("panic")
            except sim.Limit:
                outs = {"?"}
            return outs

        cases = []       # (description, value, primitive operand, expected bool)
        if pbase in INT_RANGE:
            lo, hi = INT_RANGE[pbase]
            pvals = sorted({lo, hi, 0, 1, min(hi, 127), max(lo, -1)})
            for pvv in pvals:
                for lab, v, n in stored:
                    cases.append(("%s == %d_%s" % (lab, pvv, pbase), v, pvv, n == pvv))
                for lab, v in others + [("Bool", Adt("value::Value", vidx["Bool"], [1], "Bool"))]:
                    cases.append(("%s == %d_%s" % (lab, pvv, pbase), v, pvv, False))
                # a float is never an integer: as_i64 / as_u64 are None for it, so the comparison is false
                for lab, v, x in floats:
                    cases.append(("%s == %d_%s" % (lab, pvv, pbase), v, pvv, False))
        elif pbase == "bool":
            for b in (0, 1):
                for bv in (0, 1):
                    cases.append(("Bool(%d) == %d" % (bv, b), Adt("value::Value", vidx["Bool"], [bv], "Bool"), b, bv == b))
                for lab, v in others + [stored[1][:2]]:
                    cases.append(("%s == bool" % lab, v, b, False))
        elif pbase in ("str", "std::string::String"):
            for kind in ("String", "Symbol", "Keyword"):
                for txt in (b"k", b"other"):
                    cases.append(("%s(%s) == \"k\"" % (kind, txt.decode()), alist.name_value(lexpr, kind, txt), alist.Str(b"k"),
                                  kind == "String" and txt == b"k"))
            for lab, v in others:
                cases.append(("%s == \"k\"" % lab, v, alist.Str(b"k"), False))
        elif pbase == "char":
            for cv in (0x61, 0x3BB):
                for pv2 in (0x61, 0x3BB):
                    cases.append(("Char(%#x) == %#x" % (cv, pv2), Adt("value::Value", vidx["Char"], [cv], "Char"), pv2, cv == pv2))
            for lab, v in [o for o in others if o[0] != "Char"] + [stored[1][:2]]:
                cases.append(("%s == char" % lab, v, 0x61, False))
        elif pbase in ("f32", "f64"):
            for lab, v in others + [("Bool", Adt("value::Value", vidx["Bool"], [1], "Bool"))]:
                cases.append(("%s == float" % lab, v, Opq("float"), False))
            # as_f64: a float unchanged, an integer converted to the nearest double
            import struct
            f32 = lambda x: struct.unpack("<f", struct.pack("<f", x))[0]
            for pf in (2.0, 0.5, -1.0, 9223372036854775808.0) + ((f32(0.1), 16777216.0) if pbase == "f32" else (0.1, 16777217.0)):
                pfv = sim.Flt(pf, pbase)
                for lab, v, x in floats:
                    cases.append(("%s == %r_%s" % (lab, pf, pbase), v, pfv, x == pfv.v))
                for lab, v, nn in stored:
                    cases.append(("%s == %r_%s" % (lab, pf, pbase), v, pfv, float(nn) == pfv.v))
        else:
            r.violation(f.path, "unknown-primitive", "%s compares Value with %s, for which no expectation is recorded" % (f.path, prim), f.loc())
            continue
        bad, undec = [], 0
        for desc, v, pvv, want in cases:
            n_cases += 1
            got = run_case(v, pvv)
            if got == {int(want)}:
                continue
            if "?" in got or len(got) != 1:
                undec += 1
                continue
            bad.append((desc, got, want))
        results.setdefault((pbase, "value-lhs" if value_left else "prim-lhs"), []).append((len(cases), undec, len(bad)))
        if bad:
            desc, got, want = bad[0]
            r.violation(f.path, "eq:%s" % ("value==%s" % prim if value_left else "%s==value" % prim),
                        "%s: %d of %d cases are decided wrongly, e.g. %s gives %s (expected %s): the comparison does not "
                        "follow the mathematical value / the kind" % (f.path, len(bad), len(cases), desc, sorted(got, key=repr), want), f.loc())
        elif undec > len(cases) // 2:
            r.violation(f.path, "inexact", "%s: %d of %d cases could not be evaluated" % (f.path, undec, len(cases)), f.loc())
        else:
            r.ok("%s: %d cases agree with the mathematical value / kind%s" % (f.path, len(cases) - undec,
                                                                           " (%d undecided)" % undec if undec else ""), f)
    sides = {}
    for (pb, side), _v in results.items():
        sides.setdefault(pb, set()).add(side)
    for pb, sd in sorted(sides.items()):
        if sd == {"value-lhs", "prim-lhs"}:
            r.ok("Value == %s and %s == Value are both implemented and evaluated" % (pb, pb))
        else:
            r.violation("value::partial_eq", "one-sided:%s" % pb, "only one operand order is implemented for %s" % pb)
    r.floor("cases", n_cases)
