"""C06  String, slice and stream input give the same result; read errors surface.

  R-BYTES-ONLY    the only io::Read method lexpr calls is Read::bytes (in IoRead::new); the resulting
                  io::Bytes is advanced only through LineColIterator::next.  Independence from chunking
                  and Interrupted is then std's documented contract for io::Bytes.
  R-IOREAD-MAP    IoRead::next/peek and LineColIterator::next map Some(Err(e)) to an error carrying e,
                  None to end of input and Some(Ok(b)) to the byte (variant-map extraction).
  R-ERRDROP       no parse/io error value is dropped or discarded on a normal path in lexpr's parser.
  R-SIBLING-SCAN  the hand-specialised Io and Slice scanners use identical byte classes.
Not decided: equality of results as values.
"""
import re
from .. import classes, common, facts as F, lex, sim
from ..report import load_table
from ..sim import Adt, Opq, UNK

IOREAD = "std::io::Read"


def run(ctx):
    db = ctx.facts(["poly"])
    lexpr = db.crate("lexpr")
    serde = db.crate("serde_lexpr")
    ctx.explanation = (
        "Structural clauses over the MIR. A read failure can only be lost if an error-typed value is dropped or fed to "
        "a discarding adaptor: R-ERRDROP inventories every non-cleanup Drop terminator and discarding call on a type "
        "that can hold parse::Error / io::Error in the parser (`?` moves the error into the return place and leaves no "
        "drop). R-IOREAD-MAP extracts the complete outcome map of the three functions between io::Bytes and the parser. "
        "R-BYTES-ONLY shows io::Bytes is the only consumer of the user's reader, so chunking and Interrupted are handled "
        "by std. R-SIBLING-SCAN compares byte classes extracted from the Io and Slice variants of each scanner over all "
        "256 bytes. Equality of parse results across sources is not decided.")
    ctx.trusted = ["std::io::Bytes reads one byte per call and retries Interrupted (documented)", "rustc nightly MIR"]

    # ------------------------------------------------------------ R-BYTES-ONLY
    r = ctx.rule("R-BYTES-ONLY", "lexpr touches the user's io::Read only through Read::bytes in IoRead::new")
    n = 0
    for crate in (lexpr, serde):
        for fn, bi, t in common.iter_calls(crate):
            c = t["callee"]
            if c.get("trait") == IOREAD or c.get("impl_of_trait") == IOREAD:
                n += 1
                where = "%s::%s" % (crate.name, fn.path)
                if c.get("method") == "bytes" and fn.path == "parse::read::IoRead::<R>::new" and crate is lexpr:
                    r.ok("%s: Read::bytes" % where, fn, t.get("line"))
                else:
                    r.violation(where, "%s::%s" % (IOREAD, c.get("method")),
                                "%s calls io::Read::%s directly: chunking / Interrupted / error handling is no longer "
                                "delegated to io::Bytes" % (where, c.get("method")), fn.loc(t.get("line")))
    r.floor("io-read-calls", n)
    a = lexpr.adts.get("parse::read::IoRead")
    tys = [f["ty"] for f in a["variants"][0]["fields"]] if a else []
    if not a:
        r.anchor_missing("parse::read::IoRead")
    else:
        # the only field that mentions the user's reader is io::Bytes<R>, bare or inside the counting wrapper
        of_r = [ty for ty in tys if re.search(r"\bR\b", ty)]
        if of_r and all(ty in ("std::io::Bytes<R>", "parse::iter::LineColIterator<std::io::Bytes<R>>") for ty in of_r) \
                and len(of_r) == 1:
            r.ok("IoRead reaches its source only through its %s field" % of_r[0])
        else:
            r.violation("parse::read::IoRead", "iter-type", "IoRead's fields are %s: the source is not held as "
                        "io::Bytes<R> (inside LineColIterator) only" % tys)

    ioread_map(ctx, lexpr)
    # "a read failure is ... never treated as end of input", "an error of the same category": the category and kind
    # maps of the error type (shared with C19)
    from . import c19
    c19.category(ctx, lexpr, serde)

    # ------------------------------------------------------------ R-ERRDROP
    r3 = ctx.rule("R-ERRDROP", "no parse::Error / io::Error value is dropped or discarded on a normal path of the parser")
    exc = load_table("errdrop.json").get("C06", {})
    n = common.errdrop_scan(
        r3, lexpr,
        lambda f: common.in_file(f, "lexpr/src/parse/mod.rs", "lexpr/src/parse/read.rs", "lexpr/src/parse/iter.rs",
                                 "lexpr/src/datum.rs"),
        ("parse::error::Error", "std::io::Error"), exc, "a read failure")
    n += common.errdrop_scan(r3, serde, lambda f: common.in_file(f, "serde-lexpr/src/de.rs"),
                             ("error::Error", "std::io::Error"), exc, "a read failure", scope_gone=False)
    r3.floor("propagation-sites", n)

    sibling(ctx, lexpr)
    content_error_first(ctx, lexpr)
    if ctx.tier == "thorough":
        from .. import selftest
        selftest.check_errdrop(ctx, ctx.rule("CONTROLS", "positive controls: the detectors fire on the seeded fixtures crate"))


def ioread_map(ctx, lexpr):
    r = ctx.rule("R-IOREAD-MAP", "between io::Bytes and the parser: Some(Err(e)) -> Err carrying e, None -> end of "
                                 "input, Some(Ok(b)) -> b")
    OPT, RES = "std::option::Option", "std::result::Result"
    e = Opq("io_error")
    la_fields = common.fields_of_type(lexpr, "parse::read::IoRead", lambda ty: ty == "std::option::Option<u8>" or ty.startswith("std::option::Option<(u8,"))
    if not la_fields:
        r.anchor_missing("the Option<u8> lookahead field of IoRead")
        return
    cases = {
        "None": Adt(OPT, 0, []),
        "Some(Ok(b))": Adt(OPT, 1, [Adt(RES, 0, [77])]),
        "Some(Err(e))": Adt(OPT, 1, [Adt(RES, 1, [e])]),
    }
    step = common.stream_stepper(lexpr)
    if step is None:
        r.anchor_missing("the one function that pulls from io::Bytes and counts lines and columns (LineColIterator::next)")
    for fp in ("<parse::read::IoRead<R> as parse::read::Read<'de>>::next",
               "<parse::read::IoRead<R> as parse::read::Read<'de>>::peek",
               step.path if step is not None else None):
        if fp is None:
            continue
        f = lexpr.fn(fp)
        if f is None:
            r.anchor_missing(fp)
            continue
        for cname, cval in cases.items():
            def hook(S, fn, bb, t, args, path, cval=cval):
                nm = F.callee_names(t)
                if "std::iter::Iterator::next" in nm:
                    return ("value", cval)
                if "std::option::Option::<T>::take" in nm:
                    return ("value", Adt(OPT, 0, []))
                return None

            def opaque(o):
                if o.path and o.path[-1] in la_fields:
                    return Adt(OPT, 0, [])
                return None

            # the reader's own inherent helpers (`next_byte()`, `iter_position()`) are looked through
            S = sim.Sim([lexpr], hooks={"call": hook, "opaque": opaque},
                        inline=lambda a, b: b.crate == lexpr.name and (b.file.endswith("parse/error.rs") or (
                            b.file.endswith("parse/read.rs") and b.kind != "closure" and not b.impl_trait
                            and (b.self_ty or "").startswith("parse::read::IoRead"))))
            ps = [p for p in S.run(f) if p.end == "return"]
            outs = set()
            for p in ps:
                outs.add(_shape(p, e))
            lcit = step is not None and fp == step.path
            want = {
                "None": "None" if lcit else "Ok(None)",
                "Some(Ok(b))": "Some(Ok(77))" if lcit else "Ok(Some(77))",
                "Some(Err(e))": "Some(Err(e))" if lcit else "Err(io:e)",
            }[cname]
            if outs == {want}:
                r.ok("%s: %s -> %s" % (fp, cname, want), f)
            else:
                r.violation(fp, "outcome:%s" % cname,
                            "%s maps the underlying %s to %s instead of %s: a read failure / end of input is "
                            "misreported" % (fp, cname, sorted(outs), want), f.loc())


def _shape(p, e):
    v = p.ret
    def sh(v):
        if isinstance(v, Adt):
            if v.adt.endswith("Option"):
                return "None" if v.variant == 0 else "Some(%s)" % sh(v.fields[0])
            if v.adt.endswith("Result"):
                return ("Ok(%s)" if v.variant == 0 else "Err(%s)") % sh(v.fields[0])
            if v.adt.endswith("error::Error"):
                return "io:e" if _carries(v, e) else "error-without-e"
            return v.adt.rsplit("::", 1)[-1]
        if isinstance(v, Opq):
            return "e" if v == e else repr(v)
        if isinstance(v, int):
            return str(v)
        return "?"
    return sh(v)


def _carries(v, e):
    if v == e:
        return True
    if isinstance(v, Adt):
        return any(_carries(x, e) for x in v.fields)
    return False


def _io_string_classes(lexpr, fp):
    """Io string scanner: per byte -> 'end' | 'escape' | 'copy'."""
    f = lexpr.fn(fp)
    if f is None:
        return None
    out = {}
    inl = lex.worker_inline(lexpr, f)
    for d in range(256):
        # the trait method may be a thin wrapper around the scanning loop (a private method, or one generic over the
        # string syntax): it is looked through, with the wrapper's type arguments bound
        S = sim.Sim([lexpr], hooks={"call": lex.reader_hook(d)}, inline=inl, max_depth=6)
        kinds = set()
        for p in S.run(f):
            names = set()
            for ev in p.events:
                if ev[0] == "call":
                    names |= set(ev[1])
                elif ev[0] == "enter":
                    names.add(ev[1])       # a helper that was looked through
            if any(n.endswith("parse_r6rs_escape") or n.endswith("parse_elisp_escape") for n in names):
                kinds.add("escape")
            elif "std::vec::Vec::<T, A>::push" in names:
                kinds.add("copy")
            elif p.end in ("return",) or any("FnOnce" in n or "as_str" in n for n in names) or p.end == "stop:next-read":
                kinds.add("end")
            else:
                kinds.add("end")
        if len(kinds) != 1:
            raise classes.Inexact("%s: byte %s -> %s" % (fp, lex.fmt_bytes([d]), kinds))
        out[d] = kinds.pop()
    return out


def sibling(ctx, lexpr):
    r = ctx.rule("R-SIBLING-SCAN", "the Io and Slice variants of each scanner agree on their byte classes")
    try:
        a = classes.scanner_classes(lexpr, classes.IO_SYMBOL)
        b = classes.scanner_classes(lexpr, classes.SLICE_SYMBOL)
        if a is None or b is None:
            r.anchor_missing("symbol scanners")
        elif a[0] == b[0]:
            r.ok("symbol terminators agree: %s" % lex.fmt_bytes(a[0]))
        else:
            diff = a[0] ^ b[0]
            r.violation("parse::read::parse_symbol_bytes", "symbol-terminators-differ",
                        "the stream and slice symbol scanners disagree on %s (stream: %s, slice: %s): the same bytes "
                        "parse differently from a reader and from a slice" % (lex.fmt_bytes(diff), lex.fmt_bytes(a[0]), lex.fmt_bytes(b[0])))
        stop = classes.predicate_class(lexpr, "parse::read::needs_escape")
        for io_fp, label in (("<parse::read::IoRead<R> as parse::read::Read<'de>>::parse_r6rs_str", "R6RS string"),
                             ("<parse::read::IoRead<R> as parse::read::Read<'de>>::parse_elisp_str", "Elisp string")):
            m = _io_string_classes(lexpr, io_fp)
            if m is None or stop is None:
                r.anchor_missing(io_fp)
                continue
            io_stop = {d for d, k in m.items() if k != "copy"}
            if io_stop == stop:
                r.ok("%s scanners stop at the same bytes %s (stream: match arms, slice: needs_escape)" % (label, lex.fmt_bytes(stop)))
            else:
                r.violation(io_fp, "string-stop-differ",
                            "%s: the stream scanner treats %s specially but the slice scanner stops at %s"
                            % (label, lex.fmt_bytes(io_stop), lex.fmt_bytes(stop)))
            esc = {d for d, k in m.items() if k == "escape"}
            end = {d for d, k in m.items() if k == "end"}
            if esc == {0x5C} and end == {0x22}:
                r.ok("%s (stream): `\\` starts an escape, `\"` ends the string" % label)
            else:
                r.violation(io_fp, "string-arms", "%s (stream): escape bytes %s, end bytes %s" % (label, lex.fmt_bytes(esc), lex.fmt_bytes(end)))
    except classes.Inexact as e:
        r.violation("<classes>", "inexact", "cannot extract a scanner class: %s" % e)


def content_error_first(ctx, lexpr):
    """A list / vector whose contents fail to parse is closed before the failure is reported (end_seq gives the depth
    level back), and the contents' error - which may carry the stream's I/O error - is the one returned, whatever
    the closing step answers.  Both APIs, every token that opens a sequence; the content parser answers a marked
    error, the closing step succeeds or fails with another one."""
    from .. import facts as F, lex, sim
    from ..sim import Adt, Opq, UNK
    r = ctx.rule("R-CONTENT-ERR-FIRST", "when the contents of a list or vector fail, next_value / next_datum return that very "
                                        "error, also if closing the sequence fails too (a read failure inside is not replaced)")
    P = "parse::Parser::<R>::"
    tok = lexpr.adts.get("parse::Token")
    if not tok:
        r.anchor_missing("parse::Token")
        return
    RES, OPT = "std::result::Result", "std::option::Option"
    sub = {P + "parse_list", P + "parse_list_meta", P + "parse_vector", P + "parse_vector_meta", P + "parse_byte_list"}
    n = 0
    for fp in (P + "next_value", P + "next_datum"):
        f = lexpr.fn(fp)
        if f is None:
            r.anchor_missing(fp)
            continue
        for v in tok["variants"]:
            if v["name"] not in ("ListOpen", "VecOpen"):
                continue
            pay = [0x29 if fl["ty"] == "u8" else Opq("payload") for fl in v["fields"]]
            tv = Adt("parse::Token", v["idx"], pay, v["name"])
            marker = Opq("content-error")

            def hook(S, fn, bb, t, args, path, tv=tv, marker=marker):
                nm = F.callee_names(t)
                if P + "parse_whitespace" in nm:
                    return ("value", Adt(RES, 0, [Adt(OPT, 1, [65])]))
                if P + "parse_token" in nm:
                    return ("value", Adt(RES, 0, [tv]))
                if nm & sub or any(x.startswith(P + "parse_list_with") or x.startswith(P + "parse_vector_with") for x in nm):
                    return ("value", Adt(RES, 1, [marker]))
                if P + "end_seq" in nm:
                    return ("fork", [Adt(RES, 0, [sim.Tup([])]), Adt(RES, 1, [Opq("end-error")])])
                return None

            S = sim.Sim([lexpr], hooks={"call": hook}, inline=lex.helper_inline(lexpr), max_depth=5, max_paths=6000)
            outs = set()
            used = False
            try:
                for p in S.run(f):
                    if p.end != "return":
                        outs.add("?" + str(p.end)) if p.end != "panic" else outs.add("panic")
                        continue
                    if not any(e[0] == "call" and (e[1] & sub) for e in p.events) and \
                            not any(e[0] == "call" and any(x.startswith(P + "parse_list_with") or x.startswith(P + "parse_vector_with") for x in e[1]) for e in p.events):
                        continue        # a path that never got to the contents (recursion limit)
                    used = True
                    rr = p.ret
                    if isinstance(rr, Adt) and rr.adt.endswith("Result") and rr.variant == 1:
                        e0 = S._deref(rr.fields[0], p)
                        outs.add("content-error" if isinstance(e0, Opq) and e0.root == "content-error" else
                                 ("end-error" if isinstance(e0, Opq) and e0.root == "end-error" else "other-error"))
                    else:
                        outs.add("no-error")
            except sim.Limit:
                outs = {"?limit"}
            n += 1
            desc = "%s after %s" % (fp.rsplit("::", 1)[1], v["name"])
            if used and outs == {"content-error"}:
                r.ok("%s: the contents' error is returned whether or not closing succeeds" % desc, f)
            elif not used or any(o.startswith("?") for o in outs):
                r.violation(fp, "inexact:%s" % v["name"], "%s could not be evaluated (%s)" % (desc, sorted(outs)), f.loc())
            else:
                r.violation(fp, "content-error:%s" % v["name"],
                            "%s: with failing contents the call ends in %s; the contents' error (which may be the stream's "
                            "I/O error) must be the one reported" % (desc, sorted(outs)), f.loc())
    r.floor("sequence-openers", n)
