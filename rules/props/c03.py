"""C03  Parsing is total: any bytes, any options -> value or error, bounded recursion.

Decided:
  R-DEPTH-CYCLE    every cycle of the parser's call graph passes a call site that is
                   charged to remaining_depth (delta -1, after the == 0 test): every
                   nesting construct, including ones no test nests, is bounded.
  R-DEPTH-BALANCE  the counter is restored on every exit (Ok and Err), never leaves
                   [-1,0] relative to entry, and starts at a constant >= 101.
  R-PANIC-INV      every potentially panicking construct reachable from the parse entry
                   points is auto-discharged or in the reviewed inventory.
  R-RADIX-CONST    radix arguments are the constants 2/8/10/16 (divisors are non-zero).
  R-PROGRESS       every lexer loop consumes input / advances an index / steps a finite
                   iterator on each cycle; next_value/next_datum/expect_*/parse_number
                   consume input whenever they succeed (all 257 first-byte cases).
  R-DISCARD-AFTER-PEEK  Read::discard (which moves SliceRead's index unconditionally) is only reached
                   when the most recent reader operation was a peek that returned a byte; functions that
                   start by discarding require that state from every caller (fixpoint over call sites)
  R-ARITH (thorough) arithmetic overflow asserts are discharged or reviewed.
Not decided: which error is returned; aborts inside std (allocation failure).
"""
from .. import common, depth, panics, progress, reach
from ..report import load_table

PARSE_FILES = ("lexpr/src/parse/mod.rs", "lexpr/src/parse/read.rs", "lexpr/src/parse/iter.rs",
               "lexpr/src/parse/error.rs")


def parse_surface(lexpr):
    g = reach.build_graph(lexpr)
    roots = [f.path for f in lexpr.fns
             if (f.is_pub and common.in_file(f, "lexpr/src/parse/mod.rs", "lexpr/src/datum.rs") and
                 ("from_" in f.path or "Parser" in (f.self_ty or "")))
             or (f.impl_trait == "std::iter::Iterator" and common.in_file(f, "lexpr/src/parse/mod.rs"))
             or f.path == "<value::Value as std::str::FromStr>::from_str"]
    return roots, reach.reachable(g, roots)


def run(ctx):
    db = ctx.facts(["poly"])
    lexpr = db.crate("lexpr")
    ctx.explanation = (
        "Static rules over lexpr's type-checked MIR. Bounded recursion: the call graph of the crate is built from "
        "resolved callees (closures as nodes), its recursive SCCs inside the parser are found, and every cycle must "
        "contain a call site whose abstract depth delta is exactly -1 and which is dominated by the non-zero edge of a "
        "`remaining_depth == 0` test; a forward dataflow over the counter's stores proves it is restored on every "
        "return. No panic: every panic!/unreachable!/unwrap/expect/slice-index/bounds/division construct in the "
        "functions reachable from the parse entry points is either discharged automatically (constant or range-bounded "
        "index; `if i < s.len() { s[i] }` on the same places with no intervening store) or listed in the reviewed "
        "inventory tables/panics.json with its reason. Returns: every natural loop of the lexer must make progress on "
        "every cycle, and sparse conditional constant propagation over the 257 possible first bytes shows that each "
        "successful parse step consumed input. The rule set holds for every input, option set and source kind because "
        "it is a property of the program text, not of sampled executions.")
    ctx.trusted = ["rustc nightly MIR construction", "std collections do not panic except on allocation failure",
                   "reviewed reasons in tables/panics.json"]
    ctx.assumptions = ["inputs shorter than 2^31 bytes (i32 digit-count exponent)", "no allocation failure"]

    r1 = ctx.rule("R-DEPTH-CYCLE", "every cycle of the parser's call graph is charged to the depth limit")
    r2 = ctx.rule("R-DEPTH-BALANCE", "the depth counter is restored on every exit, stays in [-1,0], starts >= 101")
    depth.check_depth(ctx, lexpr, r1, r2)

    # ------------------------------------------------------------ R-PANIC-INV
    r3 = ctx.rule("R-PANIC-INV", "every potentially panicking construct reachable from the parse entry points is "
                                 "discharged or in the reviewed inventory")
    roots, surf = parse_surface(lexpr)
    r3.note("parse entry points: %d; functions reachable in the polymorphic call graph: %d" % (len(roots), len(surf)))
    r3.floor("roots", len(roots))
    r3.floor("surface", len(surf))
    table = load_table("panics.json")["lexpr"]
    kinds = ("panic", "unwrap", "index", "bounds", "div", "std-panicky", "assert")
    nf, ni = panics.scan(r3, lexpr, lambda f: f.path in surf, table, kinds,
                         "a new panic site on the parse path must be reviewed (add a guarded form or a table entry)")
    r3.note("functions scanned: %d, panicking constructs examined: %d" % (nf, ni))

    # ------------------------------------------------------------ R-RADIX-CONST
    r4 = ctx.rule("R-RADIX-CONST", "radix arguments are the constants 2, 8, 10, 16 or the caller's own radix parameter")
    n = 0
    for fn, bi, t in common.iter_calls(lexpr):
        c = t["callee"]
        tgt = lexpr.fn(c.get("resolved") or c.get("path") or "")
        if tgt is None:
            continue
        ri = tgt.param_index("radix")
        if ri is None:
            continue
        n += 1
        a = t["args"][ri - 1]
        v = common.const_int(a)
        own = fn.param_index("radix")
        if v in (2, 8, 10, 16):
            r4.ok("%s -> %s(radix = %d)" % (fn.path, tgt.path, v), fn, t.get("line"))
        elif own is not None and common.place_local(a) is not None and common.copy_of_param(fn, common.place_local(a), own):
            r4.ok("%s -> %s(radix = own parameter)" % (fn.path, tgt.path), fn, t.get("line"))
        elif _radix_from_table_fn(lexpr, fn, a):
            r4.ok("%s -> %s(radix = result of a local function that only returns 2, 8, 10 or 16)" % (fn.path, tgt.path), fn, t.get("line"))
        else:
            r4.violation(fn.path, "radix-arg->%s" % tgt.path,
                         "%s passes a radix to %s that is neither one of the constants 2/8/10/16 nor its own radix "
                         "parameter (divisions by the radix assume it is non-zero)" % (fn.path, tgt.path),
                         fn.loc(t.get("line")))
    r4.floor("radix-call-sites", n)

    # ------------------------------------------------------------ R-PROGRESS
    r5 = ctx.rule("R-PROGRESS", "every lexer loop makes progress on each cycle; successful parse steps consume input")
    derived = ["parse::Parser::<R>::expect_value", "parse::Parser::<R>::expect_datum",
               "parse::Parser::<R>::parse_number"]
    ptab = load_table("progress.json")
    exc = {k: dict(v) for k, v in ptab["loop_exceptions"].items()}
    n = progress.loops_check(r5, lexpr, lambda f: common.in_file(f, *PARSE_FILES),
                             list(progress.PRIMS) + derived, exc)
    r5.floor("loops", n)
    for fnp, mode in (("parse::Parser::<R>::next_value", "some"), ("parse::Parser::<R>::next_datum", "some"),
                      ("parse::Parser::<R>::expect_value", "ok"), ("parse::Parser::<R>::expect_datum", "ok"),
                      ("parse::Parser::<R>::parse_number", "ok")):
        progress.ok_consuming(r5, lexpr, fnp, mode,
                              "callers' loops rely on a successful step having consumed input; an iterator over the "
                              "parser would yield items forever")

    from .. import peekstate
    r6 = ctx.rule("R-DISCARD-AFTER-PEEK", "the lookahead byte is discarded only right after a peek that returned a byte "
                                          "(typestate of the reader over all abstract paths of the parser)")
    n = peekstate.check(r6, lexpr)
    r6.floor("functions", n)

    if ctx.tier == "thorough":
        thorough(ctx, db, lexpr, surf)


def _radix_from_table_fn(lexpr, fn, a):
    """`match radix_of_prefix(c) { Some(radix) => parse(radix), .. }`: the argument is the Some-payload of a call to
    a local function over scalars whose every `Some(..)` / plain return is one of the constants 2, 8, 10, 16."""
    from .. import lex
    defs = common.defs_of(fn)
    o = common.origin(fn, defs, a)
    src = None
    if o["k"] == "place" and any(isinstance(e, dict) and e.get("n") == "Some" for e in o["pl"]["p"]):
        ds = defs.get(o["pl"]["l"], [])
        if len(ds) == 1 and ds[0][1] == "term":
            src = ds[0][2]
    elif o["k"] == "call":
        src = o["t"]
    if src is None:
        return False
    g = lexpr.fn(src["callee"].get("resolved") or src["callee"].get("path") or "")
    if g is None or not lex.scalar_fn(g):
        return False
    consts = []
    for b in g.blocks:
        if b.get("cleanup"):
            continue
        for st in b["stmts"]:
            if st["k"] != "assign" or st["place"]["p"] or st["place"]["l"] != 0:
                continue
            rv = st["rv"]
            if rv["k"] == "agg" and rv.get("adt", "").endswith("Option"):
                if rv.get("variant") == 1:
                    consts.append(common.const_int(rv["fields"][0]))
            elif rv["k"] == "use":
                consts.append(common.const_int(rv["op"]))
            else:
                return False
    return bool(consts) and all(c in (2, 8, 10, 16) for c in consts)


def thorough(ctx, db, lexpr, surf):
    from .. import arith, selftest
    rs = ctx.rule("CONTROLS", "positive controls: the detectors fire on the seeded fixtures crate")
    selftest.check_panics(ctx, rs)
    selftest.check_arith(ctx, rs)
    r = ctx.rule("R-ARITH", "every arithmetic overflow assert on the parse path is discharged by range reasoning or "
                            "listed in the reviewed table")
    arith.scan(r, lexpr, lambda f: f.path in surf, load_table("arith.json")["lexpr"])
    # the same inventory for the build without fast-float-parsing
    db2 = ctx.facts(["nofast"])
    nf = db2.crate("lexpr", "nofast")
    r2 = ctx.rule("R-PANIC-INV/nofast", "panic inventory of the parse path in the build without fast-float-parsing")
    roots, surf2 = parse_surface(nf)
    table = load_table("panics.json")["lexpr"]
    kinds = ("panic", "unwrap", "index", "bounds", "div", "std-panicky", "assert")
    panics.scan(r2, nf, lambda f: f.path in surf2, table, kinds, "(--no-default-features build)")
    r3 = ctx.rule("R-DEPTH/nofast", "depth rules in the build without fast-float-parsing")
    r4 = ctx.rule("R-DEPTH-BALANCE/nofast", "depth balance in the build without fast-float-parsing")
    r3.id, r4.id = "R-DEPTH-CYCLE", "R-DEPTH-BALANCE"
    depth.check_depth(ctx, nf, r3, r4)
