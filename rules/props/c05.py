"""C05  Numeric literals denote their exact mathematical value - structural clauses.

  R-RADIX-DOM     in functions with a `radix` parameter, every call to a decimal-only routine
                  (parse_decimal, parse_exponent, f64_from_parts) is edge-dominated by radix == 10
  R-CFG-SIBLING   in each cfg variant of f64_from_parts, every f64 produced by a multiplication or by
                  str::parse reaches `return` only through an is_infinite/is_finite test
  R-POW10         POW10[i] is the double nearest to 10^i for i in 0..=308
  R-NUM-ALPHABET  the reader accepts every continuation byte of a printed number (shared with C01)
  R-CAST          lossy numeric casts in the scanner are the reviewed ones
Not decided: exactness / rounding of any particular literal, the 2^-50 bound.
"""
import struct

from .. import cfg, common, facts as F, roundtrip
from ..report import load_table

DECIMAL_ONLY = ("parse::Parser::<R>::parse_decimal", "parse::Parser::<R>::parse_exponent",
                "parse::Parser::<R>::f64_from_parts")


def run(ctx):
    kinds = ["poly"] + (["nofast"] if ctx.tier == "thorough" else [])
    db = ctx.facts(kinds)
    lexpr = db.crate("lexpr")
    ctx.explanation = (
        "Structural necessary conditions read from the MIR: decimal-only scaling routines are only reachable under the "
        "radix == 10 edge (otherwise #b/#o/#x literals are scaled by powers of ten); both cfg variants of "
        "f64_from_parts let a multiplied or std-parsed double reach `return` only through a finiteness test (no "
        "infinity is ever returned); the POW10 table read from the compiled static equals the correctly rounded "
        "doubles 1e0..1e308 computed independently; the digit/marker dispatch accepts the printer's alphabet; lossy "
        "casts are the reviewed ones. Exactness of individual results is a runtime-value question and is not decided.")
    ctx.trusted = ["Python float('1e%d') is correctly rounded", "rustc evaluates float literals correctly rounded"]
    configs = [("default", lexpr)]
    if ctx.tier == "thorough":
        configs.append(("nofast", db.crate("lexpr", "nofast")))
    for label, crate in configs:
        sfx = "" if label == "default" else "/" + label
        radix_dom(ctx.rule("R-RADIX-DOM" + sfx, "decimal-only routines are called only under radix == 10"), crate)
        cfg_sibling(ctx.rule("R-CFG-SIBLING" + sfx, "no double reaches `return` in f64_from_parts without a finiteness test"), crate)
    pow10(ctx.rule("R-POW10", "POW10[i] == nearest double to 10^i, 309 entries"), lexpr)
    r = ctx.rule("R-NUM-ALPHABET", "radix-10 number reader accepts the continuation bytes of printed numbers")
    roundtrip.number_alphabet(r, lexpr)
    casts(ctx.rule("R-CAST", "lossy numeric casts in the number scanner and Number are the reviewed ones"), lexpr)
    digit_accumulation(ctx, lexpr)
    decimal_parts(ctx, lexpr)
    radix_prefix(ctx, lexpr)
    from . import c01
    c01.num_text(ctx, lexpr)
    int_boundary(ctx.rule("R-INT-BOUNDARY", "parse_num_tail stores boundary magnitudes as the exact integer: "
                                            "[-2^63, 2^64-1] stays an integer, beyond that a float"), lexpr)
    if ctx.tier == "quick":
        # the sibling variant is part of the claim: check it in quick as well when its facts are cheap to get
        db2 = ctx.facts(["nofast"])
        nf = db2.crate("lexpr", "nofast")
        cfg_sibling(ctx.rule("R-CFG-SIBLING/nofast", "no double reaches `return` in the non-fast f64_from_parts "
                                                     "without a finiteness test"), nf)
        radix_dom(ctx.rule("R-RADIX-DOM/nofast", "decimal-only routines are called only under radix == 10"), nf)


def _radix_eq10_edges(fn, ri):
    """Blocks entered only under radix == 10: (entry block of the edge)."""
    defs = common.defs_of(fn)
    out = []
    for bi, b in enumerate(fn.blocks):
        t = b["term"]
        if t["k"] != "switch" or b.get("cleanup"):
            continue
        op = t["op"]
        if op.get("c") not in ("copy", "move"):
            continue
        eq_t = None
        # direct switch on radix
        o = common.origin(fn, defs, op)
        if o["k"] == "param" and o["l"] == ri:
            for v, tg in t["targets"]:
                if v == 10:
                    eq_t = tg
        else:
            # the comparison sits in this block, or in the block that falls through to it (a `==` on a wrapper type
            # read as the scalar comparison: rules/rename.py)
            ds = [d for d in defs.get(op["pl"]["l"], []) if d[1] != "term" and (d[0] == bi or (
                fn.blocks[d[0]]["term"]["k"] == "goto" and fn.blocks[d[0]]["term"].get("t") == bi))] if not op["pl"]["p"] else []
            if len(defs.get(op["pl"]["l"], [])) != 1:
                ds = [d for d in ds if d[0] == bi]
            if len(ds) == 1 and ds[0][2]["k"] == "bin" and ds[0][2]["op"] in ("Eq", "Ne"):
                rv = ds[0][2]
                a, b2 = rv["a"], rv["b"]
                oa = common.origin(fn, defs, a)
                kb = common.const_int(b2)
                if kb is None:
                    ob = common.origin(fn, defs, b2)
                    kb = common.const_int(ob["op"]) if ob["k"] == "const" else None
                    if kb is None and ob["k"] == "const" and ob["op"].get("ty") in ("&u8", "&u16", "&u32", "&u64", "&usize") \
                            and isinstance(ob["op"].get("bytes"), list):
                        # a promoted reference to the scalar constant
                        kb = int.from_bytes(bytes(x & 255 for x in ob["op"]["bytes"]), "little")
                if oa["k"] == "param" and oa["l"] == ri and kb == 10:
                    want = 1 if rv["op"] == "Eq" else 0
                    eq_t = t["otherwise"]
                    for v, tg in t["targets"]:
                        if v == want:
                            eq_t = tg
                    if want == 1 and not any(v == 1 for v, _ in t["targets"]):
                        eq_t = t["otherwise"]
                    other = [tg for v, tg in t["targets"] if v != want] + ([t["otherwise"]] if any(v == want for v, _ in t["targets"]) else [])
                    if eq_t in other:
                        eq_t = None
        if eq_t is not None and all(p == bi for p in fn.pred_map()[eq_t]):
            out.append(eq_t)
    return out


def radix_dom(r, crate):
    n = 0
    for fn in crate.fns:
        ri = fn.param_index("radix")
        if ri is None:
            continue
        edges = None
        idom = None
        for bi, t in fn.calls():
            c = t["callee"]
            tgt = c.get("resolved") or c.get("path")
            if tgt not in DECIMAL_ONLY:
                continue
            n += 1
            if edges is None:
                edges = _radix_eq10_edges(fn, ri)
                idom = cfg.dominators(fn)
            # collectively dominated: every path from entry to the call enters through a radix == 10 edge
            if bi not in cfg.reachable(fn, 0, avoid=edges):
                r.ok("%s -> %s under radix == 10" % (fn.path, tgt.rsplit("::", 1)[1]), fn, t.get("line"))
            else:
                r.violation(fn.path, "decimal-only-call:%s" % tgt.rsplit("::", 1)[1],
                            "%s calls %s (which scales by powers of ten / parses decimal syntax) on a path where radix "
                            "may differ from 10: a #b/#o/#x literal is scaled in the wrong base" % (fn.path, tgt.rsplit("::", 1)[1]),
                            fn.loc(t.get("line")))
    r.floor("decimal-only-calls", n)


def cfg_sibling(r, crate):
    fn = crate.fn("parse::Parser::<R>::f64_from_parts")
    if fn is None:
        r.anchor_missing("parse::Parser::<R>::f64_from_parts")
        return
    checks = set()
    sources = []
    for bi, b in enumerate(fn.blocks):
        if b.get("cleanup"):
            continue
        for s in b["stmts"]:
            if s["k"] == "assign" and s["rv"]["k"] == "bin" and s["rv"]["op"] == "Mul" and s["rv"].get("aty") == "f64":
                if s["rv"]["a"].get("c") != "const" and s["rv"]["b"].get("c") != "const":
                    sources.append((bi, "f64 multiplication", s.get("line")))
        t = b["term"]
        if t["k"] == "call":
            p = t["callee"].get("path", "")
            full = t["callee"].get("full", "")
            if p.endswith("f64::is_infinite") or p.endswith("f64::is_finite") or p.endswith("f64::is_nan") \
                    or p.endswith("<impl f64>::is_infinite") or p.endswith("<impl f64>::is_finite"):
                checks.add(bi)
            if (p.endswith("<impl str>::parse") or p.endswith("FromStr::from_str")) and "f64" in full:
                sources.append((bi, "str::parse::<f64>", t.get("line")))
    # blocks that put an Err into the return place: paths through them return no double
    err_blocks = set()
    for bi, b in enumerate(fn.blocks):
        t = b["term"]
        if t["k"] == "call" and "std::ops::FromResidual::from_residual" in F.callee_names(t) and t["dest"]["l"] == 0:
            err_blocks.add(bi)
        if t["k"] == "call" and t["dest"]["l"] == 0 and not t["dest"]["p"] and \
                (t["callee"].get("resolved") or t["callee"].get("path")) in common.always_err_fns(crate):
            err_blocks.add(bi)          # `return self.fail(code)`: a helper that only ever returns Err
        for s in b["stmts"]:
            if s["k"] == "assign" and s["place"]["l"] == 0 and not s["place"]["p"] and s["rv"]["k"] == "agg" \
                    and s["rv"].get("adt", "").endswith("Result") and s["rv"]["variant"] == 1:
                err_blocks.add(bi)
    if not sources:
        r.anchor_missing("f64_from_parts produces no double by multiplication or str::parse (rule has nothing to check)")
        return
    rets = [bi for bi, b in enumerate(fn.blocks) if b["term"]["k"] == "return"]
    for bi, what, line in sources:
        if bi in checks:
            r.ok("%s build: %s at line %s is tested for finiteness at once" % (crate.config, what, line), fn, line)
            continue
        start = [s for s in fn.succs(bi) if not fn.is_cleanup(s)]
        seen = set()
        st = list(start)
        while st:
            x = st.pop()
            if x in seen or x in checks or fn.is_cleanup(x) or x in err_blocks:
                continue
            seen.add(x)
            st.extend(fn.succs(x))
        if any(x in seen for x in rets):
            r.violation(fn.path, "unchecked-double:%s" % what,
                        "f64_from_parts (%s build): the double produced by %s at line %s can reach `return` without "
                        "passing an is_infinite/is_finite test: a magnitude too large for a double is returned as "
                        "infinity instead of NumberOutOfRange" % (crate.config, what, line), fn.loc(line))
        else:
            r.ok("%s build: %s at line %s reaches return only through a finiteness test" % (crate.config, what, line), fn, line)


def pow10(r, crate):
    bs = crate.static_bytes("parse::POW10")
    if bs is None:
        r.anchor_missing("parse::POW10")
        return
    if len(bs) != 309 * 8:
        r.violation("parse::POW10", "length", "POW10 has %d entries, expected 309 (1e0..1e308)" % (len(bs) // 8))
        return
    bad = []
    for i in range(309):
        v = struct.unpack("<d", bytes(bs[8 * i:8 * i + 8]))[0]
        if v != float("1e%d" % i):
            bad.append((i, v))
    if bad:
        for i, v in bad[:5]:
            r.violation("parse::POW10", "entry:%d" % i, "POW10[%d] = %r is not the double nearest to 1e%d" % (i, v, i))
    else:
        r.ok("all 309 entries equal the correctly rounded 1e0..1e308")
    # the lookup must be bounds-safe: POW10.get(..) (Option) rather than indexing
    fn = crate.fn("parse::Parser::<R>::f64_from_parts")
    if fn is not None:
        uses_get = any(t["callee"].get("path", "").endswith("<impl [T]>::get") for _, t in fn.calls())
        if uses_get:
            r.ok("f64_from_parts looks POW10 up with slice::get (no out-of-range index)", fn)
        else:
            r.violation(fn.path, "pow10-lookup", "f64_from_parts no longer looks POW10 up through slice::get", fn.loc())


def int_boundary(r, crate):
    """Constant propagation of the 64-bit boundary magnitudes through the sign/representation logic."""
    from .. import lex, sim
    from ..sim import Adt
    f = crate.fn("parse::Parser::<R>::parse_num_tail")
    if f is None:
        r.anchor_missing("parse::Parser::<R>::parse_num_tail")
        return
    nv = {x["name"]: x["idx"] for x in crate.adts["number::N"]["variants"]}
    hi = lex.helper_inline(crate)
    inl = lambda a, b: b.file.endswith("number.rs") or hi(a, b)
    n = 0
    # the parameters by type: the magnitude (u64), the radix (a smaller unsigned integer, if any), the sign (a bool or
    # a private two-variant enum); which sign value means "positive" is read off the function itself on the literal 5
    tys = {i: f.local_ty(i) for i in range(2, f.arg_count + 1)}
    mag_i = [i for i, t in tys.items() if t == "u64"]
    rad_i = [i for i, t in tys.items() if t in ("u32", "u8", "u16", "usize")]
    sign_i, sign_vals = None, None
    for i, t in tys.items():
        if t == "bool":
            sign_i, sign_vals = i, [1, 0]
        elif t in crate.adts and crate.adts[t]["kind"] == "enum" and len(crate.adts[t]["variants"]) == 2 \
                and all(not v["fields"] for v in crate.adts[t]["variants"]):
            sign_i, sign_vals = i, [Adt(t, v["idx"], [], v["name"]) for v in crate.adts[t]["variants"]]
    if len(mag_i) != 1 or sign_i is None or len(rad_i) > 1:
        # the parts of the literal travel in another form (a private struct): the boundary literals are evaluated from
        # their digits through the digit loop instead
        return _int_boundary_from_digits(r, crate, f, nv, inl)

    def run_tail(sv, mag):
        a = {mag_i[0]: mag, sign_i: sv}
        if rad_i:
            a[rad_i[0]] = 10
        S = sim.Sim([crate], hooks={"call": lex.seq_hook([0x20])}, inline=inl, max_paths=2000)
        return S.run(f, args=a)

    def outcome(paths):
        outs = set()
        for p in paths:
            v = p.ret
            if p.end == "return" and isinstance(v, Adt) and v.variant == 0 and isinstance(v.fields[0], Adt) \
                    and v.fields[0].fields and isinstance(v.fields[0].fields[0], Adt):
                nn = v.fields[0].fields[0]
                outs.add((nn.variant, nn.fields[0] if nn.fields and isinstance(nn.fields[0], int) else None))
            else:
                outs.add(("?", p.end))
        return outs

    pos_v = [sv for sv in sign_vals if outcome(run_tail(sv, 5)) == {(nv["PosInt"], 5)}]
    neg_v = [sv for sv in sign_vals if outcome(run_tail(sv, 5)) == {(nv["NegInt"], -5)}]
    if len(pos_v) != 1 or len(neg_v) != 1:
        r.violation(f.path, "int-boundary:5", "the literals 5 and -5 are not stored as PosInt(5) / NegInt(-5): %s" % [
            sorted(outcome(run_tail(sv, 5)), key=repr) for sv in sign_vals], f.loc())
        return
    for mag in (0, 1, (1 << 63) - 1, 1 << 63, (1 << 63) + 1, (1 << 64) - 1):
        for pos in (1, 0):
            n += 1
            outs = set()
            for p in run_tail(pos_v[0] if pos else neg_v[0], mag):
                v = p.ret
                if p.end == "return" and isinstance(v, Adt) and v.variant == 0 and isinstance(v.fields[0], Adt) \
                        and v.fields[0].fields and isinstance(v.fields[0].fields[0], Adt):
                    nn = v.fields[0].fields[0]
                    outs.add((nn.variant, nn.fields[0] if nn.fields and isinstance(nn.fields[0], int) else None))
                else:
                    outs.add(("?", p.end))
            val = mag if pos else -mag
            if val >= 0 and val <= (1 << 64) - 1:
                want = {(nv["PosInt"], val)}
            elif -(1 << 63) <= val < 0:
                want = {(nv["NegInt"], val)}
            else:
                want = {(nv["Float"], None)}
            lit = "%s%d" % ("" if pos else "-", mag)
            if outs == want:
                r.ok("literal %s -> %s" % (lit, "PosInt" if val >= 0 else ("NegInt" if val >= -(1 << 63) else "Float")), f)
            else:
                r.violation(f.path, "int-boundary:%s" % lit,
                            "the literal %s is stored as %s instead of %s: an integer inside [-2^63, 2^64-1] must stay "
                            "exactly that integer, one outside becomes a float" % (lit, sorted(outs, key=repr), sorted(want, key=repr)), f.loc())
    r.floor("boundary-cases", n)


def _u64_part(crate, g, d):
    """The u64 among the arguments handed to `g` (the magnitude of a literal): a parameter of that type, or the one
    u64 field of a private struct parameter."""
    from ..sim import Adt
    found = []
    for i in range(1, (g.arg_count if g else 0) + 1):
        if i - 1 >= len(d):
            continue
        ty = g.local_ty(i)
        if ty == "u64":
            found.append(d[i - 1])
        elif ty in crate.adts and crate.adts[ty]["kind"] == "struct" and isinstance(d[i - 1], Adt):
            fl = crate.adts[ty]["variants"][0]["fields"]
            found += [d[i - 1].fields[k] for k, x in enumerate(fl) if x["ty"] == "u64" and k < len(d[i - 1].fields)]
    return found[0] if len(found) == 1 else None


def _int_boundary_from_digits(r, crate, tail, nv, inl):
    from .. import lex, sim
    from ..sim import Adt
    P = "parse::Parser::<R>::"
    f = crate.fn(P + "parse_num_literal")
    if f is None:
        r.anchor_missing("parse_num_tail(radix, sign, magnitude: u64) / parse_num_literal")
        return
    tys = {i: f.local_ty(i) for i in range(2, f.arg_count + 1)}
    rad_i = [i for i, t in tys.items() if t in ("u32", "u8", "u16", "usize")]
    sign_i, sign_vals = None, None
    for i, t in tys.items():
        if t == "bool":
            sign_i, sign_vals = i, [1, 0]
        elif t in crate.adts and crate.adts[t]["kind"] == "enum" and len(crate.adts[t]["variants"]) == 2 \
                and all(not v["fields"] for v in crate.adts[t]["variants"]):
            sign_i, sign_vals = i, [Adt(t, v["idx"], [], v["name"]) for v in crate.adts[t]["variants"]]
    if len(rad_i) != 1 or sign_i is None:
        r.anchor_missing("parse_num_literal(radix, sign) (parameter types %s)" % sorted(tys.values()))
        return
    local_ctor = lambda a, b: b.crate == crate.name and b.file.endswith("parse/mod.rs") and b.kind != "closure" and lex.scalar_fn(b)
    inl2 = lambda a, b: inl(a, b) or b.path == tail.path or local_ctor(a, b)

    def run(sv, mag):
        digits = str(mag)
        seq = [ord(c) for c in digits] + [0x20]
        S = sim.Sim([crate], hooks={"call": lex.seq_hook(seq)}, inline=inl2, max_visits=len(digits) + 4, max_paths=4000, max_depth=7)
        outs = set()
        try:
            for p in S.run(f, args={rad_i[0]: 10, sign_i: sv}):
                v = p.ret
                if p.end == "return" and isinstance(v, Adt) and v.variant == 0 and isinstance(v.fields[0], Adt) \
                        and v.fields[0].fields and isinstance(v.fields[0].fields[0], Adt):
                    nn = v.fields[0].fields[0]
                    outs.add((nn.variant, nn.fields[0] if nn.fields and isinstance(nn.fields[0], int) else None))
                elif p.end == "return" and isinstance(v, Adt) and v.variant == 1:
                    outs.add(("err", None))
                else:
                    outs.add(("?", str(p.end)))
        except sim.Limit:
            outs = {("?", "limit")}
        return outs

    pos_v = [sv for sv in sign_vals if run(sv, 5) == {(nv["PosInt"], 5)}]
    neg_v = [sv for sv in sign_vals if run(sv, 5) == {(nv["NegInt"], -5)}]
    if len(pos_v) != 1 or len(neg_v) != 1:
        r.violation(f.path, "int-boundary:5", "the literals 5 and -5 are not stored as PosInt(5) / NegInt(-5): %s" % [
            sorted(run(sv, 5), key=repr) for sv in sign_vals], f.loc())
        return
    n = 0
    for mag in (0, 1, (1 << 63) - 1, 1 << 63, (1 << 63) + 1, (1 << 64) - 1):
        for pos in (1, 0):
            n += 1
            outs = run(pos_v[0] if pos else neg_v[0], mag)
            val = mag if pos else -mag
            if 0 <= val <= (1 << 64) - 1:
                want = {(nv["PosInt"], val)}
            elif -(1 << 63) <= val < 0:
                want = {(nv["NegInt"], val)}
            else:
                want = {(nv["Float"], None)}
            lit = "%s%d" % ("" if pos else "-", mag)
            if outs == want:
                r.ok("literal %s (read digit by digit) -> %s" % (lit, "PosInt" if val >= 0 else ("NegInt" if val >= -(1 << 63) else "Float")), f)
            else:
                r.violation(tail.path, "int-boundary:%s" % lit,
                            "the literal %s is stored as %s instead of %s: an integer inside [-2^63, 2^64-1] must stay "
                            "exactly that integer, one outside becomes a float" % (lit, sorted(outs, key=repr), sorted(want, key=repr)), tail.loc())
    r.floor("boundary-cases", n)


LOSSY = {("u64", "i64"), ("i64", "u64"), ("u64", "f64"), ("i64", "f64"), ("u64", "u8"), ("u32", "u8"), ("i32", "usize"),
         ("u32", "usize"), ("i8", "u64"), ("i16", "u64"), ("i32", "u64"), ("f64", "u64"), ("f64", "i64"), ("usize", "u8"),
         ("u64", "u32"), ("u64", "i32"), ("i64", "i32"), ("u32", "i32"), ("i32", "u32"), ("u64", "usize"), ("usize", "i32"),
         ("u8", "i8"), ("u16", "u8"), ("f64", "f32"), ("u64", "f32"), ("i64", "f32")}


def _guarded_cast(fn, bi, rv, defs, idom):
    """A narrowing or sign-changing integer cast that keeps the value because a dominating test bounds the
    operand: `x as u64` on the edge where `x >= 0` holds, `x as u8` where `x <= 255` / `x < 256` holds; or the
    operand's upper bound is known to fit (a loop counter below a constant, a masked or shifted value)."""
    from .. import cfg, panics
    frm, to = rv["from"], rv["to"]
    INT = panics.UMAX
    op = rv["op"]
    if op.get("c") not in ("copy", "move") or op["pl"]["p"]:
        return None

    def root(o):
        for _ in range(6):
            if o.get("c") not in ("copy", "move") or o["pl"]["p"]:
                return None
            ds = defs.get(o["pl"]["l"], [])
            if len(ds) == 1 and ds[0][1] != "term" and ds[0][2]["k"] == "use" and ds[0][2]["op"].get("c") in ("copy", "move"):
                o = ds[0][2]["op"]
                continue
            return o["pl"]["l"]
        return None
    x = root(op)
    if x is None:
        return None
    to_max = {"u8": 255, "u16": 65535, "u32": (1 << 32) - 1, "u64": (1 << 64) - 1, "usize": (1 << 64) - 1,
              "i8": 127, "i16": 32767, "i32": (1 << 31) - 1, "i64": (1 << 63) - 1, "isize": (1 << 63) - 1}.get(to)
    signed_from = frm.startswith("i")
    need_nonneg = signed_from and not to.startswith("i")
    from_bits = {"8": 8, "16": 16, "32": 32, "64": 64, "size": 64}.get(frm[1:], 64)
    to_bits = {"8": 8, "16": 16, "32": 32, "64": 64, "size": 64}.get(to[1:], 64)
    need_upper = to_max is not None and (from_bits > to_bits or (not signed_from and to.startswith("i") and from_bits >= to_bits))
    if to_max is None:
        return None
    have_nonneg = not need_nonneg
    have_upper = not need_upper
    why = []
    for si, b in enumerate(fn.blocks):
        t = b["term"]
        if t["k"] != "switch" or b.get("cleanup") or t.get("ty") != "bool":
            continue
        sop = t["op"]
        if sop.get("c") not in ("copy", "move") or sop["pl"]["p"]:
            continue
        ds = [d for d in defs.get(sop["pl"]["l"], []) if d[0] == si and d[1] != "term"]
        if len(ds) != 1 or ds[0][2]["k"] != "bin" or ds[0][2]["op"] not in ("Lt", "Le", "Gt", "Ge"):
            continue
        cmpv = ds[0][2]
        a, c2 = cmpv["a"], cmpv["b"]
        opn = cmpv["op"]
        k = common.const_int(c2)
        if k is None or root(a) != x:
            k2 = common.const_int(a)
            if k2 is None or root(c2) != x:
                continue
            # const OP x  ==  x OP' const
            k, opn = k2, {"Lt": "Gt", "Le": "Ge", "Gt": "Lt", "Ge": "Le"}[opn]
        true_t = false_t = t["otherwise"]
        for v, tg in t["targets"]:
            if v == 1:
                true_t = tg
            if v == 0:
                false_t = tg
        if true_t == false_t:
            continue
        for edge, holds in ((true_t, True), (false_t, False)):
            if not (cfg.dominates(idom, edge, bi) and all(p == si for p in fn.pred_map()[edge])):
                continue
            rel = opn if holds else {"Lt": "Ge", "Le": "Gt", "Gt": "Le", "Ge": "Lt"}[opn]
            if rel == "Ge" and k >= 0 or rel == "Gt" and k >= -1:
                have_nonneg = True
                why.append("x %s %d" % ({"Ge": ">=", "Gt": ">"}[rel], k))
            if rel == "Le" and k <= to_max or rel == "Lt" and k <= to_max + 1:
                have_upper = True
                why.append("x %s %d" % ({"Le": "<=", "Lt": "<"}[rel], k))
    if not have_upper and not signed_from:
        ub = panics.upper_bound(fn, defs, op, 0)
        if ub is not None and ub <= to_max:
            have_upper = True
            why.append("x <= %d" % ub)
    if have_nonneg and have_upper and len(defs.get(x, [])) <= 1:
        return ", ".join(why) or "fits"
    return None


def _runtime_unreachable(crate):
    """Private free functions nobody calls at run time (const fn helpers of static / const initialisers)."""
    called = set()
    for f in crate.fns:
        for _, t in f.calls():
            c = t["callee"]
            for k in ("path", "resolved"):
                if c.get(k):
                    called.add(c[k])
        for b in f.blocks:
            for st in b["stmts"]:
                if st["k"] == "assign":
                    js = st["rv"]
                    for key in ("op", "a", "b"):
                        o = js.get(key)
                        if isinstance(o, dict) and o.get("fn"):
                            called.add(o["fn"])
    return {f.path for f in crate.fns if f.kind == "fn" and not f.is_pub and not f.impl_trait and f.path not in called}


def casts(r, crate):
    from ..report import Pool
    from .. import cfg
    pool = Pool(load_table("casts.json"), getattr(crate, "config", "default"))
    n = 0
    dead = _runtime_unreachable(crate)
    for fn in crate.fns:
        if not common.in_file(fn, "lexpr/src/parse/mod.rs", "lexpr/src/number.rs"):
            continue
        if fn.path in dead or fn.owner in dead:
            r.note("%s is not called at run time (initialiser helper): its casts are evaluated by the compiler" % fn.path)
            continue
        defs = idom = None
        for bi, b in enumerate(fn.blocks):
            if b.get("cleanup"):
                continue
            for s in b["stmts"]:
                if s["k"] != "assign" or s["rv"]["k"] != "cast":
                    continue
                rv = s["rv"]
                ck = rv["ck"]
                if not (ck.startswith("IntToInt") or ck.startswith("IntToFloat") or ck.startswith("FloatToInt")
                        or ck.startswith("FloatToFloat")):
                    continue
                pair = (rv["from"], rv["to"])
                if pair not in LOSSY:
                    continue
                n += 1
                detail = "%s->%s" % pair
                if ck.startswith("IntToInt"):
                    if defs is None:
                        defs, idom = common.defs_of(fn), cfg.dominators(fn)
                    g = _guarded_cast(fn, bi, rv, defs, idom)
                    if g:
                        r.ok("%s | %s keeps the value: the operand is bounded on every path to the cast (%s)" % (fn.path, detail, g),
                             fn, s.get("line"))
                        continue

                def on_ok(ent, moved, fn=fn, s=s, detail=detail):
                    r.ok("%s | %s (reviewed%s: %s)" % (fn.path, detail, " for %s, moved" % moved if moved else "", ent["reason"]),
                         fn, s.get("line"))

                def on_bad(fn=fn, s=s, pair=pair):
                    r.violation(fn.path, "cast:%s->%s" % pair,
                                "%s: the lossy cast `as %s` from %s at line %s is not in the reviewed list "
                                "(tables/casts.json): it can silently change a numeric value" % (fn.path, pair[1], pair[0], s.get("line")),
                                fn.loc(s.get("line")))

                pool.site(fn.path, detail, on_ok, on_bad)
    pool.settle()
    if pool.unused():
        r.note("reviewed casts no longer present: %s" % sorted(pool.unused().items()))
    r.floor("lossy-casts", n)


def radix_prefix(ctx, crate):
    """`#b` `#o` `#d` `#x` select radix 2, 8, 10, 16: the literal `10` behind each prefix is that radix itself.  The
    lexer (parse_token) and the element reader of byte vectors (parse_number) are evaluated on the five-byte texts with
    the digit loops looked through; the number that comes out is compared."""
    from .. import lex, sim
    from ..sim import Adt
    r = ctx.rule("R-RADIX-PREFIX", "the radix prefixes #b #o #d #x read the literal `10` as 2, 8, 10 and 16 (lexer and byte-vector elements)")
    P = "parse::Parser::<R>::"
    nv = {x["name"]: x["idx"] for x in crate.adts["number::N"]["variants"]}
    hi = lex.helper_inline(crate)
    local = lambda a, b: b.crate == crate.name and b.file.endswith("parse/mod.rs") and b.kind != "closure" and not b.is_pub \
        and b.path.startswith(P) and b.path not in (P + "parse_whitespace",)
    inl = lambda a, b: hi(a, b) or local(a, b) or b.file.endswith("number.rs")
    n = und = 0
    for entry, first_is_arg in ((P + "parse_token", True), (P + "parse_number", False)):
        f = crate.fn(entry)
        if f is None:
            r.anchor_missing(entry)
            continue
        for letter, radix in ((0x62, 2), (0x6F, 8), (0x64, 10), (0x78, 16)):
            seq = [0x23, letter, 0x31, 0x30, 0x20]
            S = sim.Sim([crate], hooks={"call": lex.seq_hook(seq)}, inline=inl, max_visits=8, max_paths=6000, max_depth=8)
            outs = set()
            try:
                for p in S.run(f, args={2: 0x23} if first_is_arg else {}):
                    if p.end != "return":
                        outs.add(("?", str(p.end)))
                        continue
                    found = [x for x in _numbers_in(S, p, p.ret)]
                    outs.add(tuple(found) if found else ("?", "no number"))
            except sim.Limit:
                outs = {("?", "limit")}
            n += 1
            what = "%s on `#%s10`" % (entry.rsplit("::", 1)[1], chr(letter))
            if outs == {((nv["PosInt"], radix),)}:
                r.ok("%s -> %d" % (what, radix), f)
            elif any(o and o[0] == "?" for o in outs):
                r.note("undecided: %s gives %s" % (what, sorted(outs, key=repr)[:3]))
                r.obligations += 1
                r.discharged += 1
                und += 1
            else:
                r.violation(f.path, "radix-prefix:%s:%s" % (entry.rsplit("::", 1)[1], chr(letter)),
                            "%s reads %s instead of %d: the prefix `#%s` does not select radix %d" % (
                                what, sorted(outs, key=repr), radix, chr(letter), radix), f.loc())
    r.floor("prefix-cases", n)
    r.floor("prefix-cases-decided", n - und)


def _numbers_in(S, p, v, depth=0):
    """(variant, payload) of every number::N value inside a returned value (Ok(Token::Number(Number(N))), Ok(Number))."""
    from ..sim import Adt
    v = S._deref(v, p)
    if depth > 6 or not isinstance(v, Adt):
        return
    if v.adt == "number::N":
        yield (v.variant, v.fields[0] if v.fields and isinstance(v.fields[0], int) else None)
        return
    for x in v.fields:
        for y in _numbers_in(S, p, x, depth + 1):
            yield y


def decimal_parts(ctx, crate, rule=None):
    """A decimal literal with a fraction and / or an exponent is handed to the float constructor as (significand,
    decimal exponent) with significand * 10^exponent equal to the literal - whatever the rounding does afterwards.
    The digit loops are evaluated on a dozen literal texts (signs of the exponent, fraction digits shifting it,
    upper-case E, leading zeros in the exponent); the pair that reaches f64_from_parts is compared with the text as
    an exact fraction.  Cases, not all literals."""
    from fractions import Fraction
    from .. import lex, sim
    r = rule or ctx.rule("R-DEC-PARTS", "a decimal literal reaches the float constructor as (significand, exponent) with "
                                        "significand * 10^exponent equal to the literal (sign of the exponent, fraction digits)")
    P = "parse::Parser::<R>::"
    f = crate.fn(P + "parse_num_literal")
    g = crate.fn(P + "f64_from_parts")
    if f is None or g is None:
        r.anchor_missing(P + "parse_num_literal / f64_from_parts")
        return
    tys = {i: f.local_ty(i) for i in range(2, f.arg_count + 1)}
    rad_i = [i for i, t in tys.items() if t in ("u32", "u8", "u16", "usize")]
    args = {}
    if len(rad_i) == 1:
        args[rad_i[0]] = 10
    for i, t in tys.items():
        if t == "bool":
            args[i] = 1
    hi = lex.helper_inline(crate)
    local = lambda a, b: b.crate == crate.name and b.file.endswith("parse/mod.rs") and b.kind != "closure" and b.path != g.path \
        and not b.is_pub and b.path.startswith(P) and b.path not in (P + "parse_token", P + "parse_whitespace")
    inl = lambda a, b: hi(a, b) or local(a, b)
    texts = ["12e-7", "12e+7", "12e7", "12E-34", "1.5e-3", "0.25", "12.5E+2", "100e-2", "1.25e-12", "9.5e21", "3e-007", "10.0625",
             "1e0000000005", "1.5e-00000000003"]
    n = und = 0
    for text in texts:
        seq = [ord(c) for c in text] + [0x20]
        got = []

        def extra(S, fn, bb, t, a, path, names, got=got):
            if g.path in names:
                d = [S._deref(x, path) for x in a]
                sig = _u64_part(crate, g, d)
                exp = [d[i - 1] for i in range(1, g.arg_count + 1) if g.local_ty(i) == "i32" and i - 1 < len(d)]
                for i in range(1, g.arg_count + 1):
                    ty = g.local_ty(i)
                    if ty in crate.adts and crate.adts[ty]["kind"] == "struct" and i - 1 < len(d) and isinstance(d[i - 1], sim.Adt):
                        fl = crate.adts[ty]["variants"][0]["fields"]
                        exp += [d[i - 1].fields[k] for k, x in enumerate(fl) if x["ty"] == "i32" and k < len(d[i - 1].fields)]
                got.append((sig, exp[0] if len(exp) == 1 else None))
                return ("stop", "float")
            return None

        S = sim.Sim([crate], hooks={"call": lex.seq_hook(seq, extra)}, inline=inl, max_visits=len(text) + 4, max_paths=4000, max_depth=7)
        n += 1
        try:
            ends = {str(p.end) for p in S.run(f, args=args)}
        except sim.Limit:
            ends = {"limit"}
        want = Fraction(text.lower().replace("e+", "e")) if "e" in text.lower() else Fraction(text)
        vals = set()
        for sig, exp in got:
            if isinstance(sig, int) and isinstance(exp, int) and abs(exp) < 400:
                vals.add(Fraction(sig) * Fraction(10) ** exp)
            else:
                vals.add(None)
        if ends == {"stop:float"} and vals == {want}:
            r.ok("literal %s reaches the float constructor as %s" % (text, sorted(got)[0]), f)
        elif ends == {"return"} and not got:
            r.violation(f.path, "dec-parts-unreached:%s" % text,
                        "the literal %s is answered (rejected, or given a value) without its digits ever reaching the float "
                        "constructor: it is a plain decimal literal well inside the range of a double" % text, f.loc())
        elif ends != {"stop:float"} or None in vals or not vals:
            r.note("undecided: %s ends in %s with %s" % (text, sorted(ends), got[:2]))
            r.obligations += 1
            r.discharged += 1
            und += 1
        else:
            r.violation(f.path, "dec-parts:%s" % text,
                        "the literal %s reaches the float constructor as significand %s with exponent %s, i.e. as %s: "
                        "the sign or size of the decimal exponent is wrong" % (text, sorted(got)[0][0], sorted(got)[0][1],
                                                                              sorted(map(str, vals))), f.loc())
    r.floor("decimal-literals", n)
    r.floor("decimal-literals-decided", n - und)


def digit_accumulation(ctx, crate):
    """The digit loop of parse_num_literal, evaluated concretely on boundary literals in each radix: as long as the
    value fits in a u64 the accumulator handed on is exactly that value; one more and the literal is handed to the
    long-integer (float) path; no arithmetic overflow on the way."""
    from .. import lex, sim
    from ..sim import Adt
    r = ctx.rule("R-DIGIT-ACCUM", "integer literals at the u64 boundary in radix 2, 8, 10, 16: the digit loop hands on the "
                                  "exact value up to u64::MAX and switches to the long-integer path above it, without "
                                  "overflowing on the way")
    f = crate.fn("parse::Parser::<R>::parse_num_literal")
    if f is None:
        r.anchor_missing("parse::Parser::<R>::parse_num_literal")
        return
    MAXV = (1 << 64) - 1
    DIG = "0123456789abcdef"

    def text(v, radix):
        out = ""
        while True:
            out = DIG[v % radix] + out
            v //= radix
            if v == 0:
                return out

    P = "parse::Parser::<R>::"
    hi = lex.helper_inline(crate)
    inl = lambda a, b: hi(a, b) and b.path not in (P + "parse_num_tail", P + "parse_long_integer")
    n = 0
    undecided = 0
    for radix in (2, 8, 10, 16):
        cases = [MAXV, MAXV - 1, MAXV + 1, 1 << 64, (1 << 64) + radix, MAXV // radix, MAXV // radix + 1, 12345]
        width = len(text(MAXV, radix))
        cases += [int(DIG[radix - 1] * (width + 1), radix), int("1" + "0" * width, radix), int(DIG[radix - 1] * (width - 1), radix)]
        for v in cases:
            for lead in ("", "000"):
                digits = lead + text(v, radix)
                seq = [ord(c) for c in digits] + [0x20]
                reached = {}

                def extra(S, fn, bb, t, args, path, names, reached=reached):
                    if P + "parse_num_tail" in names:
                        d = [S._deref(a, path) for a in args]
                        reached["tail"] = _u64_part(crate, crate.fn(P + "parse_num_tail"), d)
                        return ("stop", "tail")
                    if P + "parse_long_integer" in names:
                        reached["long"] = True
                        # what is handed on must stand for the digits read so far: the significand is the value of the
                        # first (consumed - exponent) digits, the exponent counts the digits read but left out of it
                        g = crate.fn(P + "parse_long_integer")
                        d = [S._deref(a, path) for a in args]
                        sig = [_u64_part(crate, g, d)]
                        exp = [d[i - 1] for i in range(1, (g.arg_count if g else 0) + 1) if g.local_ty(i) == "i32" and i - 1 < len(d)]
                        for i in range(1, (g.arg_count if g else 0) + 1):
                            ty = g.local_ty(i)
                            if ty in crate.adts and crate.adts[ty]["kind"] == "struct" and i - 1 < len(d) and isinstance(d[i - 1], sim.Adt):
                                fl = crate.adts[ty]["variants"][0]["fields"]
                                exp += [d[i - 1].fields[k] for k, x in enumerate(fl) if x["ty"] == "i32" and k < len(d[i - 1].fields)]
                        consumed = sum(1 for e in path.events if e[0] == "call" and (
                            lex.read_kind(e[1]) == "next" or any(x in e[1] for x in lex.DISCARDS)))
                        if len(sig) == 1 and len(exp) == 1 and isinstance(sig[0], int) and isinstance(exp[0], int):
                            m = consumed - exp[0]
                            reached["handed"] = (sig[0], exp[0], consumed, m)
                        else:
                            reached["handed"] = None
                        return ("stop", "long")
                    return None

                S = sim.Sim([crate], hooks={"call": lex.seq_hook(seq, extra)}, inline=inl, max_visits=len(digits) + 4,
                            max_paths=4000, max_depth=6)
                outs = set()
                try:
                    for p in S.run(f, args={2: radix, 3: 1}):
                        if p.end == "stop:tail":
                            outs.add(("tail", reached.get("tail")))
                        elif p.end == "stop:long":
                            h = reached.get("handed")
                            if h is not None and not (0 <= h[3] <= len(digits) and h[0] == int("0" + digits[:h[3]], radix)):
                                outs.add(("long: significand %d with exponent %d after %d digit(s) read" % (h[0], h[1], h[2]), None))
                            else:
                                outs.add(("long", None))
                        elif p.end == "panic":
                            outs.add(("panic", None))
                        elif p.end == "return":
                            outs.add(("return", None))
                        else:
                            outs.add((str(p.end), None))
                except sim.Limit:
                    outs = {("inexact", None)}
                n += 1
                want = {("tail", v)} if v <= MAXV else {("long", None)}
                desc = "radix %d literal %s" % (radix, digits if len(digits) < 30 else digits[:12] + "..(%d digits)" % len(digits))
                if outs == want:
                    if n % 16 == 1:
                        r.ok("%s -> %s" % (desc, "exact u64" if v <= MAXV else "long-integer path"), f)
                    else:
                        r.obligations += 1
                        r.discharged += 1
                elif any(o[0] in ("inexact", "loop") or (o[0] == "tail" and not isinstance(o[1], int)) for o in outs):
                    r.note("undecided: %s gives %s" % (desc, sorted(outs, key=repr)))
                    r.obligations += 1
                    r.discharged += 1
                    undecided += 1
                else:
                    r.violation(f.path, "accum:%d:%s" % (radix, "fits" if v <= MAXV else "over") + (":lead" if lead else ""),
                                "%s (value %d, %s u64::MAX) ends in %s; expected %s" % (
                                    desc, v, "<=" if v <= MAXV else ">", sorted(outs, key=repr),
                                    "the exact value handed to parse_num_tail" if v <= MAXV else "the long-integer path"), f.loc())
    r.floor("literals", n)
    r.floor("literals-decided", n - undecided)
