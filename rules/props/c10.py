"""C10  The location-tracking parse API agrees with the plain value API - twin cross-check.

  R-TWIN        the hand-duplicated twins (next_value/next_datum, parse_list/parse_list_meta,
                parse_vector/parse_vector_meta, parse::from_trait/datum::from_trait,
                expect_value/expect_datum) agree on: the multiset of error codes they raise, the byte
                constants they branch on, and the multiset of parser-internal callees after removing
                location-only callees and renaming *_meta / *_datum
  R-TOKEN-MAP   both APIs turn each atom token into the same Value variant
  R-CLOSE-PARAM both twins compare the closing delimiter of a list with their `terminator` parameter
Not decided: item-for-item equality of results, Ref accessor equivalence.
"""
from collections import Counter

from .. import common, facts as F, lex, sim
from ..sim import Adt, Opq, UNK

P = "parse::Parser::<R>::"
TWINS = [
    (P + "next_value", P + "next_datum"),
    (P + "parse_list", P + "parse_list_meta"),
    (P + "parse_vector", P + "parse_vector_meta"),
    (P + "expect_value", P + "expect_datum"),
    ("parse::from_trait", "datum::from_trait"),
]
META_MARKERS = ("Span", "SpanInfo", "Datum", "Position", "position", "datum::")


def norm_callee(p):
    p = p.replace("parse::Parser::<R>::", "Parser::").replace("parse::Parser::<R>", "Parser")
    p = p.replace("_meta", "").replace("next_datum", "next_value").replace("expect_datum", "expect_value")
    return p


def features(crate, fn_path):
    root = crate.fn(fn_path)
    if root is None:
        return None
    # the function, its closures and the loop-free helpers it is split into (looked through transitively; the
    # other members of the twin table and the scanners stay callees)
    light = lex.light_fns(crate)
    twin_members = {x for pair in TWINS for x in pair}
    fns, seen, work = [], set(), [root]
    while work:
        f = work.pop()
        if f.path in seen:
            continue
        seen.add(f.path)
        fns.append(f)
        fns.extend(crate.closures_of(f.path))
        for _bi, t in f.calls():
            c = t["callee"]
            p = c.get("resolved") or c.get("path") or ""
            g = crate.fn(p) if c.get("resolved_crate", c.get("crate")) == crate.name else None
            if g is not None and p in light and p not in twin_members and p not in lex.WRAPPERS and p not in lex.thin_wrappers(crate) \
                    and p.startswith("parse::Parser::<R>::") and not g.is_pub:
                work.append(g)
    helper_paths = seen - {root.path}
    codes = set()
    consts = set()
    callees = set()
    names = crate.variant_names("parse::error::ErrorCode") or []
    for f in fns:
        for b in f.blocks:
            if b.get("cleanup"):
                continue
            for s in b["stmts"]:
                if s["k"] != "assign":
                    continue
                rv = s["rv"]
                if rv["k"] == "agg" and rv.get("adt") == "parse::error::ErrorCode":
                    codes.add(rv.get("vname"))
                if rv["k"] == "bin" and rv["op"] in ("Eq", "Ne") and rv.get("aty") == "u8":
                    for o in (rv["a"], rv["b"]):
                        c = common.const_int(o)
                        if c is not None:
                            consts.add(c)
            t = b["term"]
            if t["k"] == "switch" and t.get("ty") == "u8":
                for v, _ in t["targets"]:
                    consts.add(v)
            if t["k"] == "call":
                c = t["callee"]
                p = c.get("resolved") or c.get("path") or ""
                if c.get("resolved_crate", c.get("crate")) != crate.name:
                    continue
                if "{closure" in p:
                    continue
                if p.startswith("parse::Parser::<R>::") and not any(m in p for m in ("Span", "Datum")):
                    tgt = crate.fn(p)
                    # location-only helpers: anything whose signature mentions span/position types
                    if tgt is not None and any(any(m in tgt.local_ty(i) for m in ("Span", "Position", "SpanInfo"))
                                               for i in range(0, tgt.arg_count + 1)) and "_meta" not in p \
                            and not p.endswith(("next_datum", "expect_datum")):
                        continue
                    if p in helper_paths:
                        continue
                    callees.add(norm_callee(p))
    return {"codes": codes, "consts": consts, "callees": callees}


def run(ctx):
    db = ctx.facts(["poly"])
    lexpr = db.crate("lexpr")
    ctx.explanation = (
        "The datum API is a hand-made copy of the value API with span bookkeeping added. Agreement of the two cannot be "
        "decided as behaviour statically, but the copies must stay copies: for each twin pair the rule extracts from the "
        "MIR the set of ErrorCode constructions, the set of byte constants compared or switched on, and the "
        "set of parser routines called (loop-free private helpers looked through, location-only callees removed, "
        "*_meta/*_datum renamed) and requires them "
        "to be equal; the token -> Value variant maps of next_value and next_datum are extracted by abstract evaluation "
        "and compared; the close-delimiter comparison must use the terminator parameter in both. A change applied to "
        "one twin only is reported; a change applied to both is not (that is the behaviour's business).")
    ctx.trusted = ["rustc nightly MIR"]
    r = ctx.rule("R-TWIN", "twin functions agree on error codes, byte constants and parser-internal callees")
    n = 0
    workers = lex.seq_workers(lexpr)
    role = {P + "parse_list": ("value", "list"), P + "parse_list_meta": ("datum", "list"),
            P + "parse_vector": ("value", "vector"), P + "parse_vector_meta": ("datum", "vector")}
    for a, b in TWINS:
        fa, fb = features(lexpr, a), features(lexpr, b)
        if (fa is None or fb is None) and a in role and b in role:
            # the twins may have been merged into one function generic over what is recorded besides the value: both
            # APIs then run the same code, instantiated differently
            wa, wb = workers.get(role[a]), workers.get(role[b])
            if wa is not None and wb is not None and wa[0].path == wb[0].path:
                n += 1
                r.ok("%s and its location-tracking twin are one generic function (%s), instantiated with %s / %s" % (
                    a.rsplit("::", 1)[1], wa[0].path.rsplit("::", 1)[1], wa[1] or "-", wb[1] or "-"), wa[0])
                continue
            if wa is not None and wb is not None:
                a, b = wa[0].path, wb[0].path
                fa, fb = features(lexpr, a), features(lexpr, b)
        if (fa is None) != (fb is None) or (fa is None and fb is None and a.rsplit("::", 1)[1] == b.rsplit("::", 1)[1]):
            # one of two free-function twins is gone and what is left is generic over the kind of item
            # (`from_trait::<T: ParseItem>`): both APIs run the same code
            left = lexpr.fn(a) or lexpr.fn(b)
            if left is None:
                cands = [g for g in lexpr.fns if g.kind == "fn" and g.path.rsplit("::", 1)[1] == a.rsplit("::", 1)[1]]
                left = cands[0] if len(cands) == 1 else None
            gens = [g for g in ((left.d.get("generics") or []) if left is not None else []) if not g.startswith("'")]
            insts = lex.type_instances(lexpr, left) if left is not None and hasattr(lex, "type_instances") else []
            if left is not None and len(gens) >= 2:
                n += 1
                r.ok("%s and its location-tracking twin are one generic function (%s<%s>)" % (a, left.path, ", ".join(gens)), left)
                continue
        if fa is None or fb is None:
            r.anchor_missing("%s / %s" % (a, b))
            continue
        n += 1
        for what in ("codes", "consts", "callees"):
            x, y = fa[what], fb[what]
            if x == y:
                r.ok("%s ~ %s: same %s (%d)" % (a.rsplit("::", 1)[1], b.rsplit("::", 1)[1], what, len(x)), lexpr.fn(a))
            else:
                d = "only in %s: %s; only in %s: %s" % (a, sorted(x - y), b, sorted(y - x))
                r.violation(a, "twin-%s" % what,
                            "%s and its location-tracking twin %s differ in %s (%s): one copy was changed without the "
                            "other" % (a, b, {"codes": "the error codes they raise", "consts": "the byte constants they test",
                                              "callees": "the parser routines they call"}[what], d), lexpr.fn(a).loc())
    r.floor("twin-pairs", n)
    token_map(ctx, lexpr)
    nested_outcomes(ctx, lexpr)
    close_param(ctx, lexpr)
    dot_class(ctx, lexpr)
    from .. import tailmap
    rt = ctx.rule("R-TAIL-MAP", "the datum list iterator classifies the cdr of a cell exactly like the value's own "
                                "list iterator (Cons continues, Null ends, anything else is a dotted tail)")
    n = tailmap.check(rt, lexpr, which=("cons", "datum"))
    rt.floor("cdr-kinds", n)
    # the two stream iterators stop at the same point: both are fused by the same sticky flag on every error (shared with C12)
    from . import c12
    c12.fuse(ctx, lexpr)
    from .. import cloneid
    rc = ctx.rule("R-CLONE-ID", "the hand-written, iterative SpanInfo::clone gives back the chain, terminator kinds and "
                                "spans it was given (an owned copy of a datum walks like the original)")
    cloneid.check_spaninfo(rc, lexpr, ctx.tier == "thorough")


def token_map(ctx, lexpr):
    r = ctx.rule("R-TOKEN-MAP", "next_value and next_datum map each atom token to the same Value variant")
    tok = lexpr.adts.get("parse::Token")
    vnames = lexpr.variant_names("value::Value")
    if not tok or not vnames:
        r.anchor_missing("parse::Token / value::Value")
        return
    maps = {}
    for fp in (P + "next_value", P + "next_datum"):
        f = lexpr.fn(fp)
        if f is None:
            r.anchor_missing(fp)
            return
        m = {}
        tm = lex.TokenModel(lexpr)
        for kind in tm.kinds():
            if kind in ("ListOpen", "VecOpen", "ByteVecOpen", "Quotation"):
                continue
            tv = tm.make(kind)
            if tv is None:
                continue
            v = {"name": kind}

            def hook(S, fn, bb, t, args, path, tv=tv):
                nm = F.callee_names(t)
                if P + "parse_whitespace" in nm:
                    return ("value", Adt("std::result::Result", 0, [Adt("std::option::Option", 1, [65])]))
                if P + "parse_token" in nm:
                    return ("value", Adt("std::result::Result", 0, [tv]))
                if any(n.endswith("Datum::primitive") for n in nm):
                    path.events.append(("datum-value", args[0]))
                return None

            S = sim.Sim([lexpr], hooks={"call": hook}, inline=lambda a, b: b.kind == "closure" and b.owner == fp, max_depth=3)
            outs = set()
            for p in S.run(f):
                if p.end != "return":
                    continue
                dv = [e[1] for e in p.events if e[0] == "datum-value"]
                val = None
                if dv:
                    val = dv[-1]
                else:
                    rr = p.ret
                    if isinstance(rr, Adt) and rr.variant == 0 and isinstance(rr.fields[0], Adt) and rr.fields[0].variant == 1:
                        val = rr.fields[0].fields[0]
                if isinstance(val, Adt) and val.adt.endswith("Value"):
                    outs.add(val.vname or vnames[val.variant])
                else:
                    outs.add("?")
            m[v["name"]] = "/".join(sorted(outs))
        maps[fp] = m
    a, b = maps[P + "next_value"], maps[P + "next_datum"]
    r.floor("atom-tokens", len(a))
    for k in sorted(a):
        if a[k] == b.get(k) and "?" not in a[k]:
            r.ok("Token::%s -> Value::%s in both APIs" % (k, a[k]))
        else:
            r.violation(P + "next_datum", "token-map:%s" % k,
                        "Token::%s becomes Value::%s in next_value but Value::%s in next_datum" % (k, a[k], b.get(k)))


def nested_outcomes(ctx, lexpr):
    from .. import depth
    """For the tokens that open a nested construct (list, vector, byte vector, quote shorthand): with the nested
    parse answering "end of input" (Ok(None) from the recursive step) or succeeding, which error codes can each API
    raise?  The two must raise the same ones (e.g. EofWhileParsingList after a dangling quote in both)."""
    r = ctx.rule("R-NESTED-ERR", "next_value and next_datum raise the same error codes around each nested construct "
                                 "(recursion limit, end of input after a quote shorthand, closing delimiter)")
    tok = lexpr.adts.get("parse::Token")
    if not tok:
        r.anchor_missing("parse::Token")
        return
    RES, OPT = "std::result::Result", "std::option::Option"
    rec = {P + "next_value", P + "next_datum", P + "expect_value", P + "expect_datum"}
    sub = {P + "parse_list", P + "parse_list_meta", P + "parse_vector", P + "parse_vector_meta", P + "parse_byte_list"}
    maps = {}
    for fp in (P + "next_value", P + "next_datum"):
        f = lexpr.fn(fp)
        if f is None:
            r.anchor_missing(fp)
            return
        m = {}
        for v in tok["variants"]:
            if v["name"] not in ("ListOpen", "VecOpen", "ByteVecOpen", "Quotation"):
                continue
            pay = [0x29 if fl["ty"] == "u8" else Opq("payload") for fl in v["fields"]]
            tv = Adt("parse::Token", v["idx"], pay, v["name"])
            # ... and with the depth budget nearly used up: both APIs must give out at the same level
            for inner, budget in (("eof", None), ("ok", None), ("ok", 1), ("ok", 2)):
                def opaque(o, budget=budget):
                    if budget is not None and o.path and o.path[-1] == depth.FIELD:
                        return budget
                    return None

                def hook(S, fn, bb, t, args, path, tv=tv, inner=inner, fp=fp):
                    nm = F.callee_names(t)
                    if fn.path == fp or fn.path.startswith(fp + "::{closure"):
                        pass
                    if P + "parse_whitespace" in nm:
                        return ("value", Adt(RES, 0, [Adt(OPT, 1, [65])]))
                    if P + "parse_token" in nm:
                        return ("value", Adt(RES, 0, [tv]))
                    if nm & rec:
                        # the recursive step for the quoted datum
                        if any(x.endswith(("expect_value", "expect_datum")) for x in nm):
                            return ("value", Adt(RES, 0, [UNK]) if inner == "ok" else Adt(RES, 1, [Opq("inner-error")]))
                        return ("value", Adt(RES, 0, [Adt(OPT, 1, [UNK]) if inner == "ok" else Adt(OPT, 0, [])]))
                    if nm & sub:
                        return ("value", Adt(RES, 0, [UNK]))
                    if P + "end_seq" in nm:
                        return ("fork", [Adt(RES, 0, [sim.Tup([])]), Adt(RES, 1, [Opq("end-error")])])
                    if any(x.endswith("Datum::into_inner") for x in nm):
                        return ("value", sim.Tup([UNK, UNK]))
                    return None

                own_closures = lambda a, b, fp=fp: lex.helper_inline(lexpr)(a, b) or (b.kind == "closure" and b.owner == fp)
                S = sim.Sim([lexpr], hooks={"call": hook, "opaque": opaque}, inline=own_closures, max_depth=5, max_paths=6000)
                outs = set()
                try:
                    for p in S.run(f):
                        if p.end == "panic":
                            outs.add("panic")
                        if p.end != "return":
                            continue
                        codes = lex.error_codes(p, lexpr)
                        rr = p.ret
                        if codes:
                            outs.add("err:" + "+".join(codes))
                        elif isinstance(rr, Adt) and rr.adt.endswith("Result"):
                            outs.add("ok" if rr.variant == 0 else "err:propagated")
                        else:
                            outs.add("?")
                except sim.Limit:
                    outs = {"inexact"}
                m["%s, nested parse %s%s" % (v["name"], "succeeds" if inner == "ok" else "meets the end of input",
                                             "" if budget is None else ", %d level(s) of the depth budget left" % budget)] = outs
        maps[fp] = m
    a, b = maps[P + "next_value"], maps[P + "next_datum"]
    r.floor("cases", len(a))
    for k in sorted(a):
        if a[k] == b.get(k) and "inexact" not in a[k] and "?" not in a[k]:
            r.ok("%s: both APIs -> %s" % (k, sorted(a[k])))
        elif "inexact" in a[k] | b.get(k, set()):
            r.violation(P + "next_datum", "inexact:%s" % k, "path limit while evaluating %s" % k)
        else:
            r.violation(P + "next_datum", "nested-err:%s" % k.split(",")[0],
                        "%s: next_value can end in %s but next_datum in %s: the two APIs report different errors for the "
                        "same input" % (k, sorted(a[k]), sorted(b.get(k, set()))), lexpr.fn(P + "next_datum").loc())


def close_param(ctx, lexpr, rule=None):
    r = rule or ctx.rule("R-CLOSE-PARAM", "list/vector parsers accept exactly the closing byte given by their terminator "
                                          "parameter, in every position (after an element, after a dotted tail)")
    OPT, RES = "std::option::Option", "std::result::Result"
    n = 0
    workers = lex.seq_workers(lexpr)
    for api, what, fp in (("value", "list", P + "parse_list"), ("datum", "list", P + "parse_list_meta"),
                          ("value", "vector", P + "parse_vector"), ("datum", "vector", P + "parse_vector_meta")):
        # the function that parses the contents for that API, found by role (next_value / next_datum hand it the
        # closing delimiter); the historical name is the fallback
        f, tyenv = workers.get((api, what), (lexpr.fn(fp), {}))
        if f is None:
            r.anchor_missing(fp)
            continue
        ti = f.param_index("terminator")
        if ti is None:
            u8s = [i for i in range(1, f.arg_count + 1) if f.local_ty(i) == "u8"]
            ti = u8s[0] if len(u8s) == 1 else None
        if ti is None:
            r.violation(fp, "no-terminator-param", "%s has no `terminator` parameter any more" % fp, f.loc())
            continue
        is_list = what == "list"
        shapes = [("after an element", [0x61]), ("directly after the opener", [])]
        if is_list:
            shapes.append(("after a dotted tail", [0x61, 0x2E]))
        for term in (0x29, 0x5D):
            for close in (0x29, 0x5D):
                for label, prefix in shapes:
                    seq = prefix + [close]

                    def hook(S, fn, bb, t, args, path, seq=seq):
                        nm = F.callee_names(t)
                        if P + "parse_whitespace" in nm:
                            k = sum(1 for e in path.events if e[0] == "call" and P + "parse_whitespace" in e[1])
                            if k >= len(seq):
                                return ("stop", "past-close")
                            return ("value", Adt(RES, 0, [Adt(OPT, 1, [seq[k]])]))
                        if P + "peek_or_null" in nm:
                            return ("value", Adt(RES, 0, [0x20]))
                        # the byte after a `.` is looked at through the parser's or the reader's peek: a space
                        if P + "peek" in nm or "parse::read::Read::peek" in nm:
                            return ("value", Adt(RES, 0, [Adt(OPT, 1, [0x20])]))
                        if any(x in nm for x in (P + "expect_value", P + "expect_datum")):
                            return ("value", Adt(RES, 0, [UNK]))
                        if any(x.endswith("Datum::into_inner") for x in nm):
                            return ("value", sim.Tup([UNK, UNK]))
                        return None

                    S = sim.Sim([lexpr], hooks={"call": hook}, inline=lex.worker_inline(lexpr, f),
                                max_visits=4, max_paths=4000)
                    S._tyenv = [dict(tyenv)]
                    outs = set()
                    for p in S.run(f, args={ti: term}):
                        if p.end == "return" and isinstance(p.ret, Adt) and p.ret.adt.endswith("Result"):
                            outs.add("Ok" if p.ret.variant == 0 else "Err")
                        elif p.end == "stop:past-close":
                            outs.add("continues")
                        elif p.end in ("panic",):
                            outs.add("panic")
                    n += 1
                    want = "Ok" if close == term else "Err"
                    desc = "%s(terminator=%r): %r %s" % (fp.rsplit("::", 1)[1], chr(term), chr(close), label)
                    if outs == {want}:
                        r.ok("%s -> %s" % (desc, want), f)
                    else:
                        r.violation(fp, "close:%s:%s:%s" % (chr(term), chr(close), label.replace(" ", "-")),
                                    "%s gives %s, expected %s: %s" % (
                                        desc, sorted(outs), want,
                                        "the matching closing delimiter is rejected" if close == term else
                                        "a closing delimiter that does not match the opener is accepted"), f.loc())
    r.floor("close-cases", n)


def dot_class(ctx, lexpr):
    """After an element and a `.`, the byte that follows decides between "dotted tail" and "a symbol that starts
    with a dot".  Both list parsers must draw that line at the same bytes (256 values and end of input)."""
    r = ctx.rule("R-DOT-CLASS", "parse_list and parse_list_meta classify the byte after a `.` identically (dotted tail vs "
                                "symbol starting with a dot), for all 256 byte values and end of input")
    OPT, RES = "std::option::Option", "std::result::Result"
    maps = {}
    workers = lex.seq_workers(lexpr)
    for api, fp, elem in (("value", P + "parse_list", P + "expect_value"), ("datum", P + "parse_list_meta", P + "expect_datum")):
        f, tyenv = workers.get((api, "list"), (lexpr.fn(fp), {}))
        if f is None:
            r.anchor_missing(fp)
            return
        m = {}
        for b in list(range(256)) + [None]:
            def hook(S, fn, bb, t, args, path, b=b, elem=elem):
                nm = F.callee_names(t)
                if P + "parse_whitespace" in nm:
                    k = sum(1 for e in path.events if e[0] == "call" and P + "parse_whitespace" in e[1])
                    if k == 0:
                        return ("value", Adt(RES, 0, [Adt(OPT, 1, [0x61])]))
                    if k == 1:
                        return ("value", Adt(RES, 0, [Adt(OPT, 1, [0x2E])]))
                    return ("stop", "later")
                if P + "peek_or_null" in nm:
                    return ("value", Adt(RES, 0, [b if b is not None else 0]))
                if P + "peek" in nm or "parse::read::Read::peek" in nm:
                    return ("value", Adt(RES, 0, [Adt(OPT, 1, [b]) if b is not None else Adt(OPT, 0, [])]))
                if elem in nm:
                    k = sum(1 for e in path.events if e[0] == "call" and elem in e[1])
                    if k == 0:
                        return ("value", Adt(RES, 0, [UNK]))
                    return ("stop", "tail")
                if any(x.endswith("parse_symbol_suffix") or x.endswith("Parser::<R>::parse_symbol") for x in nm):
                    return ("stop", "symbol")
                if any(x.endswith("Datum::into_inner") for x in nm):
                    return ("value", sim.Tup([UNK, UNK]))
                return None

            S = sim.Sim([lexpr], hooks={"call": hook}, inline=lex.worker_inline(lexpr, f), max_visits=4, max_paths=4000)
            S._tyenv = [dict(tyenv)]
            outs = set()
            try:
                for p in S.run(f, args={f.param_index("terminator") or 2: 0x29}):
                    if p.end in ("stop:tail", "stop:symbol"):
                        outs.add(p.end[5:])
                    elif p.end == "return" and isinstance(p.ret, Adt) and p.ret.adt.endswith("Result"):
                        outs.add("ok" if p.ret.variant == 0 else "err")
                    elif p.end == "panic":
                        outs.add("panic")
            except sim.Limit:
                outs = {"inexact"}
            m[b] = "/".join(sorted(outs))
        maps[fp] = m
    a, b2 = maps[P + "parse_list"], maps[P + "parse_list_meta"]
    diff = [k for k in a if a[k] != b2[k]]
    mixed = [k for k in a if "/" in a[k] or a[k] in ("", "inexact")]
    r.floor("bytes", len(a))
    if mixed:
        r.violation(P + "parse_list", "inexact", "cannot classify the byte after a dot for %s: %s" % (
            lex.fmt_bytes([x for x in mixed if x is not None]), sorted({a[k] for k in mixed})))
    elif diff:
        ex = diff[0]
        r.violation(P + "parse_list_meta", "dot-class",
                    "after `.`, %d following byte value(s) are classified differently by the two list parsers, e.g. %s is "
                    "'%s' for parse_list but '%s' for parse_list_meta: `(a .(b))`-style input is read by one API and "
                    "rejected or read differently by the other (bytes: %s)" % (
                        len(diff), "end of input" if ex is None else lex.fmt_bytes([ex]), a[ex], b2[ex],
                        lex.fmt_bytes([x for x in diff if x is not None])), lexpr.fn(P + "parse_list_meta").loc())
    else:
        tails = sorted(k for k in a if a[k] == "tail" and k is not None)
        r.ok("both list parsers treat %s (and end of input: %s) after a dot as the start of a dotted tail and every other "
             "byte as part of a symbol" % (lex.fmt_bytes(tails), a[None]), lexpr.fn(P + "parse_list"))
