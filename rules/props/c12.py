"""C12  Datum sequences: concatenation, trivia insensitivity, terminating iteration.

  R-TRIVIA-SPEC   space, tab, CR, LF, FF are skipped by parse_whitespace; `;` starts a comment that is
                  skipped up to and including LF, or to end of input
  R-TRIVIA<=TERM  every trivia byte (and the comment starter) terminates every token kind: it is in the
                  terminator class of both symbol scanners and in both is_delimiter predicates
  R-FUSE          each iterator over a parser stops after an error (sticky flag tested on entry and set
                  on every Some(Err) return), or every error return consumed input
  R-PROGRESS      successful items consume input (shared with C03)
Not decided: the yielded values.
"""
from .. import classes, common, facts as F, lex, progress, sim
from ..sim import Adt, Opq, UNK

SPEC_WS = {0x20, 0x09, 0x0D, 0x0A, 0x0C}


def run(ctx):
    db = ctx.facts(["poly"])
    lexpr = db.crate("lexpr")
    ctx.explanation = (
        "Byte classes are extracted from the MIR by conditional constant propagation over all 256 byte values and "
        "end of input (no lexpr code runs): the set of bytes parse_whitespace skips, the byte that starts a comment and "
        "the bytes that end it, the terminator classes of the Io and Slice symbol scanners and the true-sets of the two "
        "is_delimiter predicates. Trivia insensitivity needs every trivia byte to end every token, i.e. trivia <= each "
        "terminator class; that inclusion is checked exactly. Termination of iteration is decided structurally: the "
        "iterators must be fused by a sticky flag (tested on entry, set on every Some(Err) path), or every Err return "
        "must have consumed input; and each successful item consumes input for all 257 first-byte cases.")
    ctx.trusted = ["rustc nightly MIR construction", "u8::is_ascii_whitespace = {09,0A,0C,0D,20} (std)"]

    r = ctx.rule("R-TRIVIA-SPEC", "space, tab, CR, LF, FF are skipped; `;` comments run to LF or end of input")
    try:
        skip, comment, ret = classes.whitespace_classes(lexpr)
    except classes.Inexact as e:
        r.violation("parse::Parser::<R>::parse_whitespace", "inexact", "cannot extract the trivia class: %s" % e)
        return
    if skip is None:
        r.anchor_missing("parse::Parser::<R>::parse_whitespace")
        return
    for b in sorted(SPEC_WS):
        if b in skip:
            r.ok("byte 0x%02X is skipped as whitespace" % b)
        else:
            r.violation("parse::Parser::<R>::parse_whitespace", "not-trivia:0x%02X" % b,
                        "byte 0x%02X is not skipped by parse_whitespace although the documented trivia set contains it" % b)
    if 0x3B in comment:
        r.ok("`;` starts a comment")
        try:
            ends, goes, eof = classes.comment_end_classes(lexpr, 0x3B)
            if ends == {0x0A}:
                r.ok("a comment ends at LF (and only there); all other %d bytes continue it" % len(goes))
            else:
                r.violation("parse::Parser::<R>::parse_whitespace", "comment-end",
                            "a `;` comment ends at %s instead of exactly LF" % lex.fmt_bytes(ends))
            if eof == {"return-none"}:
                r.ok("a comment that reaches end of input yields end of input (Ok(None))")
            else:
                r.violation("parse::Parser::<R>::parse_whitespace", "comment-eof",
                            "a final comment without newline does not end in Ok(None): %s" % sorted(eof or []))
        except classes.Inexact as e:
            r.violation("parse::Parser::<R>::parse_whitespace", "inexact", "cannot classify the comment body: %s" % e)
    else:
        r.violation("parse::Parser::<R>::parse_whitespace", "no-comment", "`;` does not start a comment")
    if None in skip or None in comment:
        r.violation("parse::Parser::<R>::parse_whitespace", "eof-not-returned", "end of input is not returned to the caller")

    # ------------------------------------------------------------ R-TRIVIA<=TERM
    r2 = ctx.rule("R-TRIVIA<=TERM", "every trivia byte ends every token: trivia is a subset of each terminator class")
    trivia = set(skip) | set(comment)
    terms = {}
    try:
        for name, fp in (("symbol scanner (stream)", classes.IO_SYMBOL), ("symbol scanner (slice)", classes.SLICE_SYMBOL)):
            tc = classes.scanner_classes(lexpr, fp)
            if tc is None:
                r2.anchor_missing(fp)
            else:
                terms[(name, fp)] = tc[0]
        terms.update(classes.delimiter_classes(lexpr, r2.note))
    except classes.Inexact as e:
        r2.violation("<classes>", "inexact", "cannot extract a terminator class: %s" % e)
    r2.floor("terminator-classes", len(terms))
    for (name, fp), tset in sorted(terms.items()):
        missing = trivia - tset
        if missing:
            for b in sorted(missing):
                r2.violation(fp, "trivia-not-terminator:0x%02X" % b,
                             "byte %s is trivia for parse_whitespace but does not terminate a token in %s (class %s): "
                             "replacing a separator by it merges or breaks adjacent tokens"
                             % (lex.fmt_bytes([b]), name, lex.fmt_bytes(tset)))
        else:
            r2.ok("trivia %s is a subset of %s = %s" % (lex.fmt_bytes(trivia), name, lex.fmt_bytes(tset)), lexpr.fn(fp))

    fuse(ctx, lexpr)

    r4 = ctx.rule("R-PROGRESS", "each successful item consumes input (all 257 first-byte cases, both reader kinds)")
    for fnp in ("parse::Parser::<R>::next_value", "parse::Parser::<R>::next_datum"):
        progress.ok_consuming(r4, lexpr, fnp, "some", "an iterator over the parser would yield items forever")


ITERS = (
    ("<parse::ValueIter<'a, R> as std::iter::Iterator>::next", "parse::Parser::<R>::next_value"),
    ("<parse::DatumIter<'a, R> as std::iter::Iterator>::next", "parse::Parser::<R>::next_datum"),
)


def fuse(ctx, lexpr):
    r = ctx.rule("R-FUSE", "iteration over a parser ends after an error: a sticky flag is tested on entry and set on "
                           "every Some(Err) return (or every error return consumes input)")
    flag_fields = set()
    for it_path, step in ITERS:
        f = lexpr.fn(it_path)
        if f is None:
            # the iterator type may live in a child module: found by the type's own name among the Iterator impls
            tname = it_path.split(" as ")[0].rsplit("::", 1)[-1].split("<")[0]
            cands = [g for g in lexpr.fns if g.impl_trait == "std::iter::Iterator" and g.path.endswith("::next")
                     and (g.self_ty or "").rsplit("::", 1)[-1].split("<")[0] == tname and g.kind != "closure"]
            f = cands[0] if len(cands) == 1 else None
        if f is None:
            r.anchor_missing(it_path)
            continue

        def hook_err(S, fn, bb, t, args, path, step=step):
            if step in F.callee_names(t):
                return ("value", Adt("std::result::Result", 1, [UNK]))
            return None

        S = sim.Sim([lexpr], hooks={"call": hook_err}, inline=lex.helper_inline(lexpr))
        paths = [p for p in S.run(f) if p.end == "return"]
        flags = None
        all_some_err = True
        for p in paths:
            if not p.calls(step):
                continue   # early return without stepping (already fused)
            rv = p.ret
            if not (isinstance(rv, Adt) and rv.variant == 1):
                all_some_err = False
            st = {e[1] for e in p.events if e[0] == "store" and e[2] == 1 and isinstance(e[1], Opq)}
            flags = st if flags is None else (flags & st)
        if flags:
            flag = sorted(flags, key=repr)[0]
            # with the flag set, next() must return None without stepping the parser
            S2 = sim.Sim([lexpr], hooks={"call": hook_err}, inline=lex.helper_inline(lexpr))
            ps2 = [p for p in S2.run(f, heap={flag: 1}) if p.end == "return"]
            bad = [p for p in ps2 if p.calls(step) or not (isinstance(p.ret, Adt) and p.ret.variant == 0)]
            if ps2 and not bad:
                r.ok("%s: sets %r on every error and returns None without stepping once it is set" % (it_path, flag), f)
                # the flag must live in the parser (reached through the iterator's reference), not in the iterator
                # object itself: value_iter()/datum_iter() and <Parser as Iterator>::next create a fresh iterator per call
                if len(flag.path) < 2:
                    r.violation(it_path, "flag-in-iterator",
                                "%s keeps its fused flag %r inside the iterator object; Parser::value_iter/datum_iter and "
                                "<Parser as Iterator>::next build a new iterator on every call, so iteration through "
                                "them is not fused and can yield the same error forever" % (it_path, flag), f.loc())
                else:
                    r.ok("%s: the flag %r lives in the parser and survives re-creating the iterator" % (it_path, flag), f)
                    flag_fields.add(flag.path[-1])
                continue
            r.violation(it_path, "flag-not-tested",
                        "%s stores %r on error but does not return None on entry when it is set" % (it_path, flag), f.loc())
            continue
        # alternative (C): every error return of the step function consumed input
        bad_bytes = err_without_consuming(lexpr, step)
        if bad_bytes is None:
            r.violation(it_path, "inexact", "could not analyse %s" % step, f.loc())
        elif not bad_bytes:
            r.ok("%s: not fused, but every error return of %s consumed input" % (it_path, step), f)
        else:
            r.violation(it_path, "unfused",
                        "%s is not fused (no sticky flag) and %s can return an error without consuming input when the "
                        "next byte is %s: iterating over such an input yields the same error forever"
                        % (it_path, step, lex.fmt_bytes(bad_bytes)), f.loc())
    # the flag is sticky: nothing reachable from the iterator entry points (including the constructors
    # value_iter()/datum_iter() that <Parser as Iterator>::next calls for every item) may clear it
    if flag_fields:
        from .. import reach
        g = reach.build_graph(lexpr, False)
        roots = [p for p in ("<parse::Parser<R> as std::iter::Iterator>::next",) + tuple(i[0] for i in ITERS) if lexpr.fn(p)]
        for fp in sorted(reach.reachable(g, roots)):
            fn = lexpr.fn(fp)
            if fn is None:
                continue
            for b in fn.blocks:
                for st in b["stmts"]:
                    if st["k"] != "assign" or not st["place"]["p"]:
                        continue
                    last = st["place"]["p"][-1]
                    if isinstance(last, dict) and last.get("n") in flag_fields and last.get("adt") == "parse::Parser":
                        v = common.const_int(st["rv"].get("op", {})) if st["rv"]["k"] == "use" else None
                        if v != 1:
                            r.violation(fp, "flag-cleared",
                                        "%s, which is reachable from the iterator entry points, resets the fused flag `%s` "
                                        "(line %s): <Parser as Iterator>::next builds a new iterator for every item, so an "
                                        "error that consumes no input is yielded forever" % (fp, last.get("n"), st.get("line")),
                                        fn.loc(st.get("line")))
        r.ok("no function reachable from the iterator entry points clears the fused flag %s" % sorted(flag_fields))
    # Iterator for Parser must go through one of the checked iterators
    pit = lexpr.fn("<parse::Parser<R> as std::iter::Iterator>::next")
    if pit is None:
        r.ok("Parser does not implement Iterator any more")
    else:
        callees = set()
        for bi, t in pit.calls():
            callees |= F.callee_names(t)
        if any(i[0] in callees for i in ITERS):
            r.ok("<Parser as Iterator>::next delegates to a checked iterator", pit)
        else:
            r.violation(pit.path, "parser-iterator-direct",
                        "<Parser as Iterator>::next no longer delegates to ValueIter/DatumIter; its termination is not "
                        "established", pit.loc())


def err_without_consuming(lexpr, step):
    fn = lexpr.fn(step)
    if fn is None:
        return None
    inl = lambda a, b: b.crate == "lexpr" and (b.file.endswith("parse/mod.rs") or b.file.endswith("parse/read.rs"))
    bad = set()
    for variant in ("io", "slice"):
        for d in range(256):
            S = sim.Sim([lexpr], hooks={"call": progress.sticky_reader_hook(d, lexpr, variant, True)}, inline=inl,
                        max_depth=9, max_paths=20000)
            try:
                paths = S.run(fn)
            except sim.Limit:
                return None
            for p in paths:
                if p.end == "return" and isinstance(p.ret, Adt) and p.ret.adt.endswith("Result") and p.ret.variant == 1:
                    if not lex.consumed(p):
                        bad.add(d)
    return bad
