"""C01  Print then parse returns the same value (default Scheme dialect) - table clauses only.

  R-ESC-R6RS       for all 256 bytes: the text the printer emits for the byte inside a string is
                   read back as exactly that byte by the R6RS string reader (table composition)
  R-FOLLOW<=TERM   the separator ' ' and the closer ')' end every token kind
  R-CHAR-R6RS      every printable ASCII character written as #\\c is read back as itself
  R-NUM-ALPHABET   in radix 10 the reader accepts every continuation byte of itoa/ryu output
Each clause is a necessary condition of the round trip; equality of values is not decided.
"""
from .. import roundtrip
from . import c07, c08


def run(ctx):
    db = ctx.facts(["poly"])
    lexpr = db.crate("lexpr")
    ctx.explanation = (
        "Writer and reader are two hand-maintained tables over bytes; the round trip needs them to agree. The rule "
        "composes, by constant propagation over the MIR, ESCAPE[b] -> CharEscape::from_escape_table -> "
        "write_r6rs_char_escape to obtain the exact text emitted for each of the 256 byte values, and the reader's "
        "escape switch (parse_r6rs_escape) to obtain what each escape letter pushes; for the \\xHH; form it checks that "
        "HEX inverts HEX_DIGITS and that the decoder accumulates n = (n << 4) + digit. Follow bytes emitted after an "
        "atom must be in every token-terminator class; the number reader must route '.', 'e', '-' and digits of "
        "radix-10 output to its fraction/exponent paths. Nesting, chars, floats' exactness and value equality are not "
        "decided.")
    ctx.trusted = ["itoa/ryu output alphabet: digits . e - (documented)", "char::encode_utf8 is the identity below 0x80"]
    r = ctx.rule("R-ESC-R6RS", "string escapes written by the default printer are read back as the same byte (256 bytes)")
    n = roundtrip.string_escapes(r, lexpr, "r6rs")
    if n is not None:
        r.floor("escaped-bytes", n)
    r2 = ctx.rule("R-FOLLOW<=TERM", "the bytes the default printer emits after an atom (' ' and ')') end every token kind")
    roundtrip.follow_bytes(r2, lexpr, {0x20, 0x29}, "default printer")
    r3 = ctx.rule("R-NUM-ALPHABET", "radix-10 number reader accepts the continuation bytes of printed numbers")
    roundtrip.number_alphabet(r3, lexpr)
    serde = db.crate("serde_lexpr")
    c07.writeall(ctx, lexpr, serde)
    peculiar(ctx, lexpr)
    # the whole u64 and i64 range round-trips: the integer boundary magnitudes keep their representation (shared with C05)
    from . import c05
    c05.int_boundary(ctx.rule("R-INT-BOUNDARY", "parse_num_tail stores boundary magnitudes as the exact integer: "
                                                "[-2^63, 2^64-1] stays an integer, beyond that a float"), lexpr)
    r4 = ctx.rule("R-CHAR-R6RS", "printable characters in #\\c syntax are read back as themselves (95 characters)")
    n = roundtrip.printable_chars(r4, lexpr, "r6rs")
    if n is not None:
        r4.floor("printable", n)


SIGN_SUBSEQUENT = sorted(set(range(ord("a"), ord("z") + 1)) | set(range(ord("A"), ord("Z") + 1)) |
                         {ord(c) for c in "!$%&*/:<=>?^_~+-@"})


def peculiar(ctx, lexpr):
    """R7RS <peculiar identifier>: an explicit sign followed by a <sign subsequent> (<initial>, a sign, or @) starts
    a symbol, not a number.  The printer writes such names verbatim, so the reader must take them as symbols."""
    r = ctx.rule("R-PECULIAR", "a token `+c` / `-c` with c a <sign subsequent> character is read as a symbol")
    pt = lexpr.fn("parse::Parser::<R>::parse_token")
    if pt is None:
        r.anchor_missing("parse_token")
        return
    n = 0
    for sign in (0x2D, 0x2B):
        for c in SIGN_SUBSEQUENT:
            kinds, _ = c08._token_kinds(lexpr, pt, [sign, c, 0x20], {"keyword_syntaxes": 4, "racket_hash_percent_symbols": 0,
                                                                     "leading_digit_symbols": 0})
            n += 1
            if kinds == {"Symbol"}:
                r.ok("`%s%s` is a symbol" % (chr(sign), chr(c)), pt)
            else:
                r.violation("lexpr::parse::is_sign_subsequent", "peculiar:%s%s" % (chr(sign), chr(c)),
                            "the name `%s%s...` is printed verbatim but a token starting with `%s%s` is read as %s"
                            % (chr(sign), chr(c), chr(sign), chr(c), sorted(kinds)), pt.loc())
    r.floor("cases", n)
