"""C01  Print then parse returns the same value (default Scheme dialect) - table clauses only.

  R-ESC-R6RS       for all 256 bytes: the text the printer emits for the byte inside a string is
                   read back as exactly that byte by the R6RS string reader (table composition)
  R-FOLLOW<=TERM   the separator ' ' and the closer ')' end every token kind
  R-CHAR-R6RS      every printable ASCII character written as #\\c is read back as itself
  R-NUM-ALPHABET   in radix 10 the reader accepts every continuation byte of itoa/ryu output
  R-NUM-TEXT       the number printer writes exactly the text itoa / ryu produced, once, on every path
Each clause is a necessary condition of the round trip; equality of values is not decided.
"""
from .. import roundtrip
from . import c07, c08


def run(ctx):
    db = ctx.facts(["poly"])
    lexpr = db.crate("lexpr")
    ctx.explanation = (
        "Writer and reader are two hand-maintained tables over bytes; the round trip needs them to agree. The rule "
        "composes, by constant propagation over the MIR, ESCAPE[b] -> CharEscape::from_escape_table -> "
        "write_r6rs_char_escape to obtain the exact text emitted for each of the 256 byte values, and the reader's "
        "escape switch (parse_r6rs_escape) to obtain what each escape letter pushes; for the \\xHH; form it checks that "
        "HEX inverts HEX_DIGITS and that the decoder accumulates n = (n << 4) + digit. Follow bytes emitted after an "
        "atom must be in every token-terminator class; the number reader must route '.', 'e', '-' and digits of "
        "radix-10 output to its fraction/exponent paths. Nesting, chars, floats' exactness and value equality are not "
        "decided.")
    ctx.trusted = ["itoa/ryu output alphabet: digits . e - (documented)", "char::encode_utf8 is the identity below 0x80"]
    r = ctx.rule("R-ESC-R6RS", "string escapes written by the default printer are read back as the same byte (256 bytes)")
    n = roundtrip.string_escapes(r, lexpr, "r6rs")
    if n is not None:
        r.floor("escaped-bytes", n)
    r2 = ctx.rule("R-FOLLOW<=TERM", "the bytes the default printer emits after an atom (' ' and ')') end every token kind")
    roundtrip.follow_bytes(r2, lexpr, {0x20, 0x29}, "default printer")
    r3 = ctx.rule("R-NUM-ALPHABET", "radix-10 number reader accepts the continuation bytes of printed numbers")
    roundtrip.number_alphabet(r3, lexpr)
    serde = db.crate("serde_lexpr")
    c07.writeall(ctx, lexpr, serde)
    peculiar(ctx, lexpr)
    num_text(ctx, lexpr)
    octet_range(ctx, lexpr)
    # the whole u64 and i64 range round-trips: the integer boundary magnitudes keep their representation (shared with C05)
    from . import c05
    c05.int_boundary(ctx.rule("R-INT-BOUNDARY", "parse_num_tail stores boundary magnitudes as the exact integer: "
                                                "[-2^63, 2^64-1] stays an integer, beyond that a float"), lexpr)
    # a printed float such as 1e-7 or 2.5e21 reaches the float constructor with the exponent it was written with (shared with C05)
    c05.decimal_parts(ctx, lexpr)
    r4 = ctx.rule("R-CHAR-R6RS", "printable characters in #\\c syntax are read back as themselves (95 characters)")
    n = roundtrip.printable_chars(r4, lexpr, "r6rs")
    if n is not None:
        r4.floor("printable", n)


SIGN_SUBSEQUENT = sorted(set(range(ord("a"), ord("z") + 1)) | set(range(ord("A"), ord("Z") + 1)) |
                         {ord(c) for c in "!$%&*/:<=>?^_~+-@"})


def peculiar(ctx, lexpr):
    """R7RS <peculiar identifier>: an explicit sign followed by a <sign subsequent> (<initial>, a sign, or @) starts
    a symbol, not a number.  The printer writes such names verbatim, so the reader must take them as symbols."""
    r = ctx.rule("R-PECULIAR", "a token `+c` / `-c` with c a <sign subsequent> character is read as a symbol")
    pt = lexpr.fn("parse::Parser::<R>::parse_token")
    if pt is None:
        r.anchor_missing("parse_token")
        return
    n = 0
    for sign in (0x2D, 0x2B):
        for c in SIGN_SUBSEQUENT:
            kinds, _ = c08._token_kinds(lexpr, pt, [sign, c, 0x20], {"keyword_syntaxes": 4, "racket_hash_percent_symbols": 0,
                                                                     "leading_digit_symbols": 0})
            n += 1
            if kinds == {"Symbol"}:
                r.ok("`%s%s` is a symbol" % (chr(sign), chr(c)), pt)
            else:
                r.violation("lexpr::parse::is_sign_subsequent", "peculiar:%s%s" % (chr(sign), chr(c)),
                            "the name `%s%s...` is printed verbatim but a token starting with `%s%s` is read as %s"
                            % (chr(sign), chr(c), chr(sign), chr(c), sorted(kinds)), pt.loc())
    r.floor("cases", n)


def num_text(ctx, lexpr):
    """The number printer hands the sink the text itoa / ryu produced - the shortest text that reads back as the
    same number - and nothing else: in every function that formats a number with itoa::Buffer / ryu::Buffer, on
    every path, the only bytes written to the sink are that buffer's text, written once."""
    from .. import facts as F, lex, sim
    from ..sim import Opq
    r = ctx.rule("R-NUM-TEXT", "the number printer writes exactly the text itoa / ryu produced for the number: no byte "
                               "before it, after it or in its place, on any path")
    FORMAT = ("itoa::Buffer::format", "ryu::Buffer::format", "ryu::Buffer::format_finite")
    sites = []
    for f in lexpr.fns:
        if not f.file.endswith("print.rs"):
            continue
        for bi, t in f.calls():
            if F.callee_names(t) & set(FORMAT) or any(t["callee"].get("path", "").startswith(x) for x in FORMAT):
                sites.append(f)
                break
    r.floor("formatting-functions", len(sites))
    inl = lex.print_inline(lexpr)
    for f in sites:
        def hook(S, fn, bb, t, args, path):
            p = t["callee"].get("path", "")
            nm = F.callee_names(t)
            if any(p.startswith(x) for x in FORMAT):
                return ("value", Opq("formatted-number"))
            d = [S._deref(a, path) for a in args]
            if d and isinstance(d[0], Opq) and d[0].root == "formatted-number" and (
                    p.endswith("str::<impl str>::as_bytes") or p.endswith("::as_str") or nm & {
                        "std::ops::Deref::deref", "std::convert::AsRef::as_ref", "std::borrow::Borrow::borrow"}):
                return ("value", d[0])
            return None

        S = sim.Sim([lexpr], hooks={"call": hook}, inline=inl, max_paths=2000, max_depth=6, max_visits=4)
        S.structural_vec = True
        try:
            # a function that prints the elements of a byte slice is evaluated on a slice of three elements
            args = {i: sim.Ref([sim.Bytes((7, 8, 9))], 0, ()) for i in range(1, f.arg_count + 1) if f.local_ty(i) == "&[u8]"}
            paths = S.run(f, args=args)
        except sim.Limit:
            r.violation(f.path, "inexact", "path limit while evaluating %s" % f.path, f.loc())
            continue
        bad = None
        npaths = 0
        from .. import cfg
        loop_blocks = set()
        for body in cfg.natural_loops(f).values():
            loop_blocks |= set(body)
        in_loop = any(bi in loop_blocks for bi, t in f.calls()
                      if any(t["callee"].get("path", "").startswith(x) for x in FORMAT) or F.callee_names(t) & set(FORMAT))
        for p in paths:
            if p.end == "panic":
                continue
            writes = []
            for e in p.events:
                if e[0] != "call":
                    continue
                if not any(n.startswith("std::io::Write::") or n.startswith("std::fmt::Write::") for n in e[1]):
                    continue
                if any(n.endswith("::flush") for n in e[1]):
                    continue
                a = [x for x in e[6][1:]]
                if len(a) == 1 and isinstance(a[0], Opq) and a[0].root == "formatted-number":
                    writes.append("number-text")
                elif len(a) == 1 and isinstance(a[0], sim.Bytes):
                    writes.append(bytes(x & 255 for x in a[0].b))
                elif len(a) == 1 and isinstance(a[0], int) and 0 <= a[0] < 256:
                    writes.append(bytes([a[0]]))
                else:
                    writes.append(repr(a)[:60])
            npaths += 1
            # a path that fails in the sink may stop early; a completed one wrote the text exactly once
            ok_ret = p.end == "return" and isinstance(p.ret, sim.Adt) and p.ret.adt.endswith("Result") and p.ret.variant == 0
            writes = [w for w in writes if w != b""]
            k = [i for i, w in enumerate(writes) if w == "number-text"]
            # one number per call, or one per turn of a loop over elements (the octets of a byte vector)
            if (len(k) > 1 or (ok_ret and len(k) != 1)) and not in_loop:
                bad = (writes, "the formatted text is written %d times" % len(k))
                break
            # what is written around the text in the same function (the delimiters of a byte vector, a separator) must
            # keep it a token of its own: the write before ends, the write after starts with a byte that ends a number
            for i in k:
                for w, pos, what in ((writes[i - 1] if i > 0 else None, -1, "before"),
                                     (writes[i + 1] if i + 1 < len(writes) else None, 0, "after")):
                    if w is None:
                        continue
                    if not isinstance(w, bytes):
                        bad = (writes, "%s is written directly %s the text" % (
                            "another number" if w == "number-text" else "something that is not a constant", what))
                        break
                    ends = _number_ends(lexpr)
                    if ends is None or w[pos] not in ends:
                        bad = (writes, "the byte %r written directly %s the text does not end a number token" % (bytes([w[pos]]), what))
                        break
                if bad:
                    break
            if bad:
                break
        if bad is None and npaths:
            r.ok("%s writes the formatted text exactly once on each of %d path(s), set off from anything else it writes" % (f.path, npaths), f)
        elif bad is None:
            r.violation(f.path, "inexact", "no path through %s could be evaluated" % f.path, f.loc())
        else:
            r.violation(f.path, "num-text", "%s can write %s to the sink (%s): the printed number is no longer the shortest text "
                                            "itoa / ryu produced and may not read back as the same number (e.g. `1e21.0`)"
                        % (f.path, [w if isinstance(w, str) else w.decode("latin1") for w in bad[0]], bad[1]), f.loc())


_ENDS = {}


def _number_ends(lexpr):
    """Bytes that end a decimal literal for the lexer (evaluated on its own code), plus the openers."""
    if id(lexpr) not in _ENDS:
        from .. import classes
        pt = lexpr.fn("parse::Parser::<R>::parse_token")
        try:
            ends = classes.number_end_class(lexpr, pt) if pt is not None else None
        except classes.Inexact:
            ends = None
        _ENDS[id(lexpr)] = None if ends is None else {b for b in ends if b is not None}
    return _ENDS[id(lexpr)]


def octet_range(ctx, lexpr):
    """A byte vector `#u8(n ...)` holds every octet 0..=255: the element reader accepts a number n exactly when
    n <= 255 and stores n itself.  parse_byte_list is evaluated with the number just read ranging over all of u64;
    the range test splits the paths."""
    from .. import facts as F, lex, sim
    from ..sim import Adt, Rng, Ref, Tup
    r = ctx.rule("R-OCTET-RANGE", "the byte-vector reader accepts an element n exactly for 0 <= n <= 255 and stores n")
    P = "parse::Parser::<R>::"
    f = lexpr.fn(P + "parse_byte_list")
    if f is None:
        r.anchor_missing(P + "parse_byte_list")
        return
    nv = {x["name"]: x["idx"] for x in lexpr.adts["number::N"]["variants"]}
    OPT, RES = "std::option::Option", "std::result::Result"
    n = Rng(0, (1 << 64) - 1)

    def hook(S, fn, bb, t, args, path):
        nm = F.callee_names(t)
        if P + "parse_whitespace" in nm:
            k = sum(1 for e in path.events if e[0] == "call" and P + "parse_whitespace" in e[1])
            seq = [0x28, 0x31, 0x29]
            if k >= len(seq):
                return ("stop", "past-close")
            return ("value", Adt(RES, 0, [Adt(OPT, 1, [seq[k]])]))
        if P + "parse_number" in nm:
            return ("value", Adt(RES, 0, [Adt("number::Number", 0, [Adt("number::N", nv["PosInt"], [n], "PosInt")])]))
        return None

    S = sim.Sim([lexpr], hooks={"call": hook}, inline=lambda a, b: lex.helper_inline(lexpr)(a, b) or
                (b.crate == lexpr.name and b.file.endswith("number.rs")), max_paths=2000, max_depth=6, max_visits=3)
    S.structural_vec = True
    try:
        paths = S.run(f, args={2: 0x29})
    except sim.Limit:
        r.violation(f.path, "inexact", "path limit in parse_byte_list", f.loc())
        return
    accepted, rejected, unknown = [], [], 0
    for p in paths:
        x = n
        for memo in p.memos:
            x = memo.get(id(x), x)
        pushed = [e[6][1] for e in p.events if e[0] == "call" and any(m.endswith("::push") for m in e[1]) and len(e[6]) > 1]
        if p.end == "return" and isinstance(p.ret, Adt) and p.ret.variant == 0 and p.ret.fields:
            rv = S._deref(p.ret.fields[0], p)
            if isinstance(rv, Adt) and rv.adt == "sim::Vec":
                pushed = list(rv.fields[0].fields)
        rng = (x.lo, x.hi) if isinstance(x, Rng) else None
        if p.end == "return" and isinstance(p.ret, Adt) and p.ret.adt.endswith("Result") and p.ret.variant == 1:
            rejected.append(rng)
        elif p.end in ("return", "stop:past-close") and pushed:
            v = pushed[0]
            same = isinstance(v, Rng) and rng is not None and (v.lo, v.hi) == rng or isinstance(v, int) and rng == (v, v)
            accepted.append((rng, same))
        elif p.end == "panic":
            unknown += 1
        else:
            unknown += 1
    acc = sorted({a for a, _ in accepted if a})
    if acc == [(0, 255)] and all(s for _, s in accepted) and rejected and all(x is not None and x[0] >= 256 for x in rejected) and not unknown:
        r.ok("elements 0..=255 are stored as they are, 256.. are rejected", f)
    else:
        r.violation(f.path, "octet-range",
                    "the byte-vector reader accepts elements in %s (stored unchanged: %s) and rejects %s; every octet 0..=255 "
                    "must be accepted and nothing else" % (acc, all(s for _, s in accepted), sorted(set(x for x in rejected if x))),
                    f.loc())
