"""C01  Print then parse returns the same value (default Scheme dialect) - table clauses only.

  R-ESC-R6RS       for all 256 bytes: the text the printer emits for the byte inside a string is
                   read back as exactly that byte by the R6RS string reader (table composition)
  R-FOLLOW<=TERM   the separator ' ' and the closer ')' end every token kind
  R-CHAR-R6RS      every printable ASCII character written as #\\c is read back as itself
  R-NUM-ALPHABET   in radix 10 the reader accepts every continuation byte of itoa/ryu output
Each clause is a necessary condition of the round trip; equality of values is not decided.
"""
from .. import roundtrip


def run(ctx):
    db = ctx.facts(["poly"])
    lexpr = db.crate("lexpr")
    ctx.explanation = (
        "Writer and reader are two hand-maintained tables over bytes; the round trip needs them to agree. The rule "
        "composes, by constant propagation over the MIR, ESCAPE[b] -> CharEscape::from_escape_table -> "
        "write_r6rs_char_escape to obtain the exact text emitted for each of the 256 byte values, and the reader's "
        "escape switch (parse_r6rs_escape) to obtain what each escape letter pushes; for the \\xHH; form it checks that "
        "HEX inverts HEX_DIGITS and that the decoder accumulates n = (n << 4) + digit. Follow bytes emitted after an "
        "atom must be in every token-terminator class; the number reader must route '.', 'e', '-' and digits of "
        "radix-10 output to its fraction/exponent paths. Nesting, chars, floats' exactness and value equality are not "
        "decided.")
    ctx.trusted = ["itoa/ryu output alphabet: digits . e - (documented)", "char::encode_utf8 is the identity below 0x80"]
    r = ctx.rule("R-ESC-R6RS", "string escapes written by the default printer are read back as the same byte (256 bytes)")
    n = roundtrip.string_escapes(r, lexpr, "r6rs")
    if n is not None:
        r.floor("escaped-bytes", n)
    r2 = ctx.rule("R-FOLLOW<=TERM", "the bytes the default printer emits after an atom (' ' and ')') end every token kind")
    roundtrip.follow_bytes(r2, lexpr, {0x20, 0x29}, "default printer")
    r3 = ctx.rule("R-NUM-ALPHABET", "radix-10 number reader accepts the continuation bytes of printed numbers")
    roundtrip.number_alphabet(r3, lexpr)
    r4 = ctx.rule("R-CHAR-R6RS", "printable characters in #\\c syntax are read back as themselves (95 characters)")
    n = roundtrip.printable_chars(r4, lexpr, "r6rs")
    if n is not None:
        r4.floor("printable", n)
