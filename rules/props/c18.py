"""C18  Deserializing any S-expression value is total - no panic, data-category errors.

  R-KIND-TOTAL  for every deserialize_* method and every Value kind the outcome is a visitor call or an
                error built by invalid_value; no path panics
  R-ACCESS      access objects answer improper tails / non-pair entries with an error
  R-PANIC-INV   panicking constructs in serde-lexpr's deserializer are discharged or reviewed
  R-DATA-ERR    every error constructed in value/de.rs goes through de::Error::custom / invalid_type, i.e.
                ErrorImpl::Message, which classify() maps to Category::Data (map checked in C19)
Not decided: the re-serialisation fixed point.
"""
from .. import common, facts as F, panics, serde_shapes as ss, sim
from ..report import load_table
from ..sim import Adt, Opq, Ref, UNK

KINDS = ("panic", "unwrap", "index", "bounds", "div", "std-panicky", "assert")


def run(ctx):
    db = ctx.facts(["poly"])
    serde = db.crate("serde_lexpr")
    lexpr = db.crate("lexpr")
    ctx.explanation = (
        "Totality of deserialization is decided structurally: the complete outcome map (29 deserialize_* methods x 15 "
        "input shapes) extracted by abstract evaluation shows every combination ends in a visitor call or in an error "
        "from invalid_value and never in a panic path; the access objects are evaluated on proper, improper and "
        "non-pair shapes; the inventory of panicking constructs in the deserializer is reviewed (one expect on visitor "
        "protocol misuse); every ErrorImpl built on this path is a Message, which classifies as Data.")
    ctx.trusted = ["rustc nightly MIR", "serde-derived and std Deserialize impls follow the MapAccess protocol "
                                        "(next_value only after next_key)"]
    r = ctx.rule("R-KIND-TOTAL", "every (deserialize method, value kind) pair ends in a visitor call or a data error")
    acc = ss.deserializer_accepts(serde, lexpr)
    r.floor("methods", len(acc))
    for m, res in sorted(acc.items()):
        bad = {k: v for k, v in res.items() if not (v == "err" or (v.startswith("visit_") and "/" not in v))}
        if bad:
            for k, v in sorted(bad.items()):
                r.violation("serde_lexpr::" + ss.DE + m, "outcome:%s" % k,
                            "%s on a %s value has outcome `%s` (expected a visitor call or an invalid_value error): "
                            "deserialization is not total" % (m, k, v), serde.fn(ss.DE + m).loc())
        else:
            r.ok("%s: %d input kinds -> visitor call or error" % (m, len(res)), serde.fn(ss.DE + m))
    access_objects(ctx.rule("R-ACCESS", "access objects reject improper tails and non-pair entries with an error"), serde, lexpr)

    r3 = ctx.rule("R-PANIC-INV", "panicking constructs in the deserializer are discharged or reviewed")
    table = load_table("panics.json")["serde_lexpr"]
    nf, ni = panics.scan(r3, serde, lambda f: common.in_file(f, "serde-lexpr/src/value/de.rs", "serde-lexpr/src/de.rs"),
                         table, KINDS, "a panic in the deserializer breaks totality")
    r3.floor("functions", nf)

    r4 = ctx.rule("R-DATA-ERR", "errors built by the value deserializer are ErrorImpl::Message (Category::Data)")
    n = 0
    for fn in serde.fns:
        for b in fn.blocks:
            for s in b["stmts"]:
                if s["k"] == "assign" and s["rv"]["k"] == "agg" and s["rv"].get("adt") == "error::ErrorImpl":
                    n += 1
                    vn = s["rv"].get("vname")
                    # Message: any constructor of the error module; Io / Parse: only from a function that is handed
                    # the io / parse error it wraps (the From conversions or helpers of them)
                    argtys = [fn.local_ty(i) for i in range(1, fn.arg_count + 1)]
                    in_mod = fn.file.endswith("serde-lexpr/src/error.rs")
                    okw = (vn == "Message" and in_mod) or \
                          (vn == "Io" and in_mod and any("std::io::Error" in a for a in argtys)) or \
                          (vn == "Parse" and in_mod and any("parse::Error" in a or "parse::error::Error" in a for a in argtys))
                    if okw:
                        r4.ok("%s builds ErrorImpl::%s" % (fn.path, vn), fn, s.get("line"))
                    else:
                        r4.violation("serde_lexpr::" + fn.path, "errorimpl:%s" % vn,
                                     "%s builds ErrorImpl::%s outside the error module's constructors (Message anywhere in it; Io / Parse only "
                                     "where the wrapped error is an argument)" % (fn.path, vn), fn.loc(s.get("line")))
    r4.floor("errorimpl-sites", n)
    for fn in serde.fns:
        if not common.in_file(fn, "serde-lexpr/src/value/de.rs"):
            continue
        for bi, t in fn.calls():
            full = t["callee"].get("full", "")
            if "error::Error as std::convert::From<" in full:
                r4.violation("serde_lexpr::" + fn.path, "non-data-error",
                             "%s converts an io/parse error into serde_lexpr::Error inside the value deserializer: the "
                             "result would not be a data-category error" % fn.path, fn.loc(t.get("line")))
    # "serializing x and deserializing again returns x": the numeric serializer methods store the number they are given
    # (shared with C04)
    from . import c04
    c04.widen(ctx.rule("R-WIDEN", "numeric serializer methods keep the value: only value-preserving widening on the way"), serde)
    helpers = ss.error_helpers(serde)
    if not helpers:
        # the constructor is found by what it does (a free function of value/de.rs whose result is an error built through
        # serde::de::Error); the historical name is `invalid_value`
        r4.violation("serde_lexpr::value::de::invalid_value", "invalid_value-ctor",
                     "the value deserializer has no constructor of data errors that goes through serde::de::Error any more "
                     "(historically value::de::invalid_value)")
    for hp in sorted(helpers):
        r4.ok("%s builds its error through serde::de::Error::{invalid_type, custom, ..}" % hp, serde.fn(hp))


def _map_access_through_visitor(r, serde, lexpr, inl, shape):
    """The same for association lists: deserialize_map on `((#t) . tail)` / `(sym . ())`; the object handed to
    `Visitor::visit_map` is asked for a key, then a value, then a key again through its own MapAccess methods."""
    de = serde.fn(ss.DE + "deserialize_map")
    if de is None:
        r.anchor_missing(ss.DE + "deserialize_map")
        return
    vidx = {v["name"]: v["idx"] for v in lexpr.adts["value::Value"]["variants"]}
    cases = [("a pair entry, proper tail (Cons)", "Cons", "Cons", [("key", "Ok(Some)"), ("value", "Ok")]),
             ("a pair entry, end of list (Null)", "Cons", "Null", [("key", "Ok(Some)"), ("value", "Ok"), ("key", "Ok(None)")]),
             ("a pair entry, improper tail (atom)", "Cons", "Symbol", [("key", "Ok(Some)"), ("value", "Err")]),
             ("a non-pair entry", "Symbol", "Null", [("key", "Err")])]
    for lab, car, cdr, steps in cases:
        cell = ss.SynCons(_cell(ss._mk(lexpr, car)), _cell(ss._mk(lexpr, cdr)))
        val = Adt("lexpr::Value", vidx["Cons"], [cell], "Cons")
        S = sim.Sim([serde, lexpr], hooks={"call": ss.de_hook}, inline=inl, max_depth=7, max_paths=3000)
        accs = []
        for p in S.run(de, args={1: _cell(Adt("value::de::Deserializer", 0, [_cell(val)]))}):
            for e in p.events:
                if e[0] == "visit" and e[1] == "visit_map" and len(e[2]) > 1:
                    accs.append(S._deref(e[2][1], p))
        accs = [a for a in accs if isinstance(a, Adt)]
        if len(accs) != 1:
            r.violation("serde_lexpr::" + ss.DE + "deserialize_map", "entry:%s" % lab,
                        "deserialize_map on %s does not hand exactly one access object to visit_map (%d found)" % (lab, len(accs)), de.loc())
            continue
        acc = accs[0]
        base = acc.adt.split("<")[0]
        fns = {}
        for m in ("next_key_seed", "next_value_seed"):
            c = [g for g in serde.fns if g.impl_trait == "serde::de::MapAccess" and g.path.endswith("::" + m)
                 and (g.self_ty or "").split("<")[0] == base and g.kind != "closure"]
            fns[m] = c[0] if len(c) == 1 else None
        if not all(fns.values()):
            r.anchor_missing("MapAccess methods for %s" % acc.adt)
            continue
        cellobj = [acc]
        bad = None
        for what, want in steps:
            nf = fns["next_key_seed" if what == "key" else "next_value_seed"]
            S2 = sim.Sim([serde, lexpr], hooks={"call": ss.de_hook}, inline=inl, max_depth=7, max_paths=3000)
            got = {shape(p) for p in S2.run(nf, args={1: sim.Ref(cellobj, 0, ())})}
            if not (got - {"Err"} == ({want} - {"Err"}) and ("Err" in got or want != "Err")):
                bad = (nf, what, want, got)
                break
        if bad is None:
            r.ok("the map access object %s on %s -> %s" % (base.rsplit("::", 1)[-1], lab, [w for _x, w in steps]), fns["next_key_seed"])
        else:
            nf, what, want, got = bad
            r.violation("serde_lexpr::" + nf.path, "entry:%s" % lab,
                        "%s on %s yields %s, expected %s" % (nf.path, lab, sorted(got), want), nf.loc())


def _seq_access_through_visitor(r, serde, lexpr, inl, shape):
    """deserialize_seq is evaluated on a pair whose cdr is a pair / the empty list / an atom; the object it hands to
    `Visitor::visit_seq` is then asked for elements through its own `SeqAccess::next_element_seed`: a first element
    where the list goes on or ends, an error for an improper tail, `Ok(None)` once a one-element list is used up."""
    de = serde.fn(ss.DE + "deserialize_seq")
    if de is None:
        r.anchor_missing(ss.DE + "deserialize_seq")
        return
    inputs = dict(ss.value_inputs(lexpr))
    for lab, first, second in (("Cons(cdr=Cons)", "Ok(Some)", None), ("Cons(cdr=Null)", "Ok(Some)", "Ok(None)"),
                               ("Cons(cdr=atom)", "Err", None)):
        val = inputs[lab]
        S = sim.Sim([serde, lexpr], hooks={"call": ss.de_hook}, inline=inl, max_depth=7, max_paths=3000)
        dobj = Adt("value::de::Deserializer", 0, [_cell(val)])
        accs = []
        for p in S.run(de, args={1: _cell(dobj)}):
            for e in p.events:
                if e[0] == "visit" and e[1] == "visit_seq" and len(e[2]) > 1:
                    accs.append(S._deref(e[2][1], p))
        accs = [a for a in accs if isinstance(a, Adt)]
        if len(accs) != 1:
            r.violation("serde_lexpr::" + ss.DE + "deserialize_seq", "tail:%s" % lab,
                        "deserialize_seq on %s does not hand exactly one access object to visit_seq (%d found)" % (lab, len(accs)), de.loc())
            continue
        acc = accs[0]
        base = acc.adt.split("<")[0]
        nxt = [g for g in serde.fns if g.impl_trait == "serde::de::SeqAccess" and g.path.endswith("::next_element_seed")
               and (g.self_ty or "").split("<")[0] == base and g.kind != "closure"]
        if len(nxt) != 1:
            r.anchor_missing("SeqAccess::next_element_seed for %s" % acc.adt)
            continue
        nf = nxt[0]
        # a generic wrapper (`Sequence<E>`): its type parameter is the type of the part it wraps
        tyenv = {}
        for gp in nf.d.get("generics") or []:
            if gp.startswith("'"):
                continue
            for fv in acc.fields:
                fvv = S._deref(fv, None) if isinstance(fv, sim.Ref) else fv
                if isinstance(fvv, Adt):
                    cands = {g.self_ty for g in serde.fns if g.self_ty and g.self_ty.split("<")[0] == fvv.adt.split("<")[0] and g.impl_trait}
                    if len(cands) == 1:
                        tyenv[gp] = cands.pop()
        cell = [acc]
        got_seq = []
        for want in (first, second):
            if want is None:
                break
            S2 = sim.Sim([serde, lexpr], hooks={"call": ss.de_hook}, inline=inl, max_depth=7, max_paths=3000)
            S2._tyenv = [dict(tyenv)]
            ps = S2.run(nf, args={1: sim.Ref(cell, 0, ())})
            got = {shape(p) for p in ps}
            got_seq.append((want, got))
        bad = [(w, g) for w, g in got_seq if not (g - {"Err"} == ({w} - {"Err"}) and ("Err" in g or w != "Err"))]
        if not bad:
            r.ok("next_element_seed of the access object %s on %s -> %s" % (base.rsplit("::", 1)[-1], lab, [w for w, _ in got_seq]), nf)
        else:
            w, g = bad[0]
            r.violation("serde_lexpr::" + nf.path, "tail:%s" % lab,
                        "%s on %s yields %s, expected %s" % (nf.path, lab, sorted(g), w), nf.loc())


def _cell(v):
    return Ref([v], 0, ())


def access_objects(r, serde, lexpr):
    OPT = "std::option::Option"
    inl = lambda a, b: (b.crate == serde.name and b.file.endswith("value/de.rs")) or \
                       (b.crate == "lexpr" and (b.file.endswith("value/mod.rs") or b.file.endswith("cons.rs")))
    cases = []
    for lab, cdr in (("proper tail (Cons)", "Cons"), ("end of list (Null)", "Null"), ("improper tail (atom)", "Symbol")):
        cases.append((lab, cdr))

    def run_one(fp, self_adt, field_vals):
        f = serde.fn(fp)
        if f is None:
            r.anchor_missing(fp)
            return None
        me = Adt(self_adt, 0, field_vals)
        S = sim.Sim([serde, lexpr], hooks={"call": ss.de_hook}, inline=inl, max_depth=6, max_paths=3000)
        return f, [p for p in S.run(f, args={1: _cell(me)})]

    def shape(p):
        if p.end in ("panic", "diverge"):
            return "panic"
        if p.end != "return":
            return "?" + str(p.end)
        v = p.ret
        if isinstance(v, Adt) and v.adt.endswith("Result"):
            if v.variant == 1:
                return "Err"
            x = v.fields[0]
            if isinstance(x, Adt) and x.adt.endswith("Option"):
                return "Ok(Some)" if x.variant == 1 else "Ok(None)"
            return "Ok"
        return "?"

    la = "<value::de::ListAccess<'de> as serde::de::SeqAccess<'de>>::next_element_seed"
    ma_k = "<value::de::MapAccess<'de> as serde::de::MapAccess<'de>>::next_key_seed"
    ma_v = "<value::de::MapAccess<'de> as serde::de::MapAccess<'de>>::next_value_seed"
    def reviewed_cursor(adt):
        a = serde.adts.get(adt)
        fl = a["variants"][0]["fields"] if a else []
        return len(fl) == 1 and fl[0]["ty"].startswith("std::option::Option<&") and "Cons" in fl[0]["ty"]

    if serde.fn(la) is not None and serde.fn(ma_k) is not None and not (reviewed_cursor("value::de::ListAccess") and reviewed_cursor("value::de::MapAccess")):
        # the access objects keep their place in the list differently (`rest: &Value` instead of `Option<&Cons>`): they
        # are not built by hand here but taken from where the deserializer hands them to the visitor
        _seq_access_through_visitor(r, serde, lexpr, inl, shape)
        _map_access_through_visitor(r, serde, lexpr, inl, shape)
        return
    if serde.fn(la) is None:
        # the sequence access object is not the reviewed `ListAccess` any more (merged behind a trait, made generic):
        # it is taken from where the deserializer hands it to the visitor, whatever type it has
        la = None
        _seq_access_through_visitor(r, serde, lexpr, inl, shape)
    for lab, cdr in cases:
        cell = ss.SynCons(_cell(ss._mk(lexpr, "Cons")), _cell(ss._mk(lexpr, cdr)))
        for fp, adt, want in ((la, "value::de::ListAccess", "Err" if cdr == "Symbol" else "Ok(Some)"),
                              (ma_v, "value::de::MapAccess", "Err" if cdr == "Symbol" else "Ok")):
            if fp is None:
                continue
            res = run_one(fp, adt, [Adt(OPT, 1, [_cell(cell)])])
            if res is None:
                continue
            f, ps = res
            got = {shape(p) for p in ps}
            # child deserialization may fail: Err is always a possible additional outcome
            if got - {"Err"} == ({want} - {"Err"}) and ("Err" in got or want != "Err"):
                r.ok("%s, %s -> %s" % (fp.split(">::")[-1] + "@" + adt.rsplit("::", 1)[1], lab, want), f)
            else:
                r.violation("serde_lexpr::" + fp, "tail:%s" % lab,
                            "%s on a cell with %s yields %s, expected %s" % (fp, lab, sorted(got), want), f.loc())
    # end of sequence
    for fp, adt in ((la, "value::de::ListAccess"), (ma_k, "value::de::MapAccess")):
        if fp is None:
            continue
        res = run_one(fp, adt, [Adt(OPT, 0, [])])
        if res is None:
            continue
        f, ps = res
        got = {shape(p) for p in ps}
        if got == {"Ok(None)"}:
            r.ok("%s with an exhausted cursor -> Ok(None)" % fp.split(">::")[-1], f)
        else:
            r.violation("serde_lexpr::" + fp, "end", "%s with an exhausted cursor yields %s" % (fp, sorted(got)), f.loc())
    # non-pair entry in an association list
    for entry, want in (("Cons", "Ok(Some)"), ("Symbol", "Err")):
        cell = ss.SynCons(_cell(ss._mk(lexpr, entry)), _cell(ss._mk(lexpr, "Null")))
        res = run_one(ma_k, "value::de::MapAccess", [Adt(OPT, 1, [_cell(cell)])])
        if res is None:
            continue
        f, ps = res
        got = {shape(p) for p in ps}
        if got - {"Err"} == ({want} - {"Err"}) and ("Err" in got or want != "Err"):
            r.ok("next_key_seed on a %s entry -> %s" % ("pair" if entry == "Cons" else "non-pair", want), f)
        else:
            r.violation("serde_lexpr::" + ma_k, "entry:%s" % entry,
                        "next_key_seed on a %s entry yields %s, expected %s" % (entry, sorted(got), want), f.loc())
