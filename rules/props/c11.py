"""C11  Source spans delimit exactly the text of each datum - one structural clause.

  R-LOOKAHEAD-POS  "the same spans from str, slice and stream" needs IoRead::position to account for the
                   byte its peek already pulled out of the line/column iterator: with a byte pending,
                   position() must return a position that peek() saved *before* advancing the iterator;
                   without one, the iterator's own line/column.  SliceRead::peek must not advance.
  R-QUOTE-SPAN     for a quote shorthand the head's span ends where the shorthand token ends: the end
                   position handed to Datum::quotation is read *before* the quoted datum is parsed, and
                   Datum::quotation uses the span it is given for the head
Not decided: span arithmetic, containment, re-parsing of the covered text.
"""
import re

from .. import common, facts as F, sim
from ..sim import Adt, Opq, Ref, UNK

IO = "<parse::read::IoRead<R> as parse::read::Read<'de>>::"
SL = "<parse::read::SliceRead<'a> as parse::read::Read<'a>>::"
OPT, RES = "std::option::Option", "std::result::Result"


def run(ctx):
    db = ctx.facts(["poly"])
    lexpr = db.crate("lexpr")
    ctx.explanation = (
        "next_datum takes read.position() right after parse_whitespace has left the first byte of the datum peeked, and "
        "again after a token whose terminator has been peeked. For a slice the index has not moved; for a stream the "
        "lookahead byte has already been pulled from the LineColIterator. The rule evaluates IoRead::position "
        "abstractly in both lookahead states and IoRead::peek on a fresh byte, with the iterator's line()/col() results "
        "replaced by tokens, and requires that position() with a pending byte returns exactly the tokens peek() "
        "obtained before calling the iterator. This is a necessary condition for stream spans to equal slice spans; the "
        "span arithmetic itself is not decided.")
    ctx.trusted = ["rustc nightly MIR"]
    quote_span(ctx, lexpr)
    span_order(ctx, lexpr)
    column_unit(ctx, lexpr)
    r = ctx.rule("R-LOOKAHEAD-POS", "IoRead::position accounts for the pending lookahead byte; SliceRead::peek does not advance")
    pos = lexpr.fn(IO + "position")
    peek = lexpr.fn(IO + "peek")
    if pos is None or peek is None:
        r.anchor_missing("IoRead::{position, peek}")
        return

    la = common.fields_of_type(lexpr, "parse::read::IoRead", lambda ty: ty == "std::option::Option<u8>" or ty.startswith("std::option::Option<(u8,"))
    if len(la) != 1:
        r.anchor_missing("the Option<u8> lookahead field of IoRead (found %s)" % la)
        return
    LA = la[0]
    accessors = set()
    # the pending byte may be kept together with the position in front of it: Option<(u8, Position)>
    la_ty = [f["ty"] for f in lexpr.adts["parse::read::IoRead"]["variants"][0]["fields"] if f["name"] == LA][0]
    pending = Adt(OPT, 1, [65]) if la_ty == "std::option::Option<u8>" else \
        Adt(OPT, 1, [sim.Tup([65, Opq("self", (LA, "saved-position"))])])

    def mk_hook(order):
        def hook(S, fn, bb, t, args, path):
            nm = F.callee_names(t)
            p = t["callee"].get("path", "")
            tys = t.get("arg_tys", [])
            # the line / column accessors of the iterator: `fn(&LineColIterator<I>) -> usize`
            # (whatever they return: a usize each for line and column, or one Position for both)
            if "LineColIterator::<I>::" in p and len(tys) == 1 and tys[0].startswith("&parse::iter::LineColIterator<"):
                had_next = any(e[0] == "call" and "std::iter::Iterator::next" in e[1] for e in path.events)
                accessors.add(p.rsplit("::", 1)[1])
                tok = Opq("iter.%s@%s" % (p.rsplit("::", 1)[1], "after-next" if had_next else "before-next"))
                return ("value", tok)
            if "std::iter::Iterator::next" in nm:
                return ("value", Adt(OPT, 1, [Adt(RES, 0, [65])]))
            return None
        return hook

    def opaque_with(ch):
        def opaque(o):
            if o.path and o.path[-1] == LA:
                return ch
            return None
        return opaque

    # the counters may be fields of IoRead itself (no wrapper around io::Bytes): a field read that nothing has
    # written yet on the path is the counter as it was before the pull
    own_counters = set(common.fields_of_type(lexpr, "parse::read::IoRead", lambda ty: ty == "usize"))

    def counter(x):
        if isinstance(x, Opq) and x.root == "self" and len(x.path) == 1 and x.path[0] in own_counters:
            accessors.add(x.path[0])
            return "<iter.%s@before-next>" % x.path[0]
        return repr(x)

    def fields(v):
        if isinstance(v, Adt) and v.adt.endswith("Position"):
            return tuple(counter(x) for x in v.fields)
        if isinstance(v, Opq) and v.root.startswith("iter."):
            return (repr(v),)         # one accessor that returns the whole position
        return None

    # the reader's own helpers (an extracted `iter_position()`, `Position::new`) are looked through
    own = lambda a, b: b.crate == lexpr.name and b.file.endswith("parse/read.rs") and b.kind != "closure" and not b.impl_trait
    # position() without a pending byte
    S = sim.Sim([lexpr], hooks={"call": mk_hook(None), "opaque": opaque_with(Adt(OPT, 0, []))}, inline=own)
    rets = {fields(p.ret) or repr(p.ret) for p in S.run(pos) if p.end == "return"}

    def line_col_before(pair):
        """(line accessor before next, column accessor before next): two different accessors of the iterator,
        the first named line*, the second col* when they carry those names."""
        if isinstance(pair, tuple) and len(pair) == 1:
            return re.match(r"<iter\.(\w+)@before-next>$", pair[0]) is not None
        if not (isinstance(pair, tuple) and len(pair) == 2):
            return False
        # one accessor that returns the pair `(line, column)`, taken apart in that order
        mt = [re.match(r"<iter\.(\w+)@before-next\.(\d)>$", x) for x in pair]
        if all(mt) and mt[0].group(1) == mt[1].group(1) and (mt[0].group(2), mt[1].group(2)) == ("0", "1"):
            return True
        m = [re.match(r"<iter\.(\w+)@before-next>$", x) for x in pair]
        if not all(m) or m[0].group(1) == m[1].group(1):
            return False
        a, b = m[0].group(1), m[1].group(1)
        if a.startswith("col") or b.startswith("line"):
            return False
        return True

    if len(rets) == 1 and line_col_before(next(iter(rets))):
        base = next(iter(rets))
        r.ok("position() without lookahead = the iterator's (line, column) accessors %s" % (base,), pos)
    else:
        r.violation(pos.path, "position-no-lookahead", "IoRead::position without a pending byte returns %s" % sorted(rets, key=repr), pos.loc())
        return
    # position() with a pending byte must come from saved state
    S = sim.Sim([lexpr], hooks={"call": mk_hook(None), "opaque": opaque_with(pending)}, inline=own)
    ps = [p for p in S.run(pos) if p.end == "return"]
    saved = set()
    computed = False
    for p in ps:
        if isinstance(p.ret, Opq) and p.ret.root == "self":
            saved.add(p.ret)
        else:
            computed = True
    if computed or len(saved) != 1:
        r.violation(pos.path, "position-ignores-lookahead",
                    "IoRead::position does not take the pending lookahead byte into account (it reports the iterator's "
                    "line/column although peek() has already advanced it): spans and positions read from a stream are "
                    "one byte further than the same input read from a slice", pos.loc())
        return
    field = saved.pop()
    r.ok("position() with a pending byte returns the saved field %r" % field, pos)
    # peek() must save (line, col) obtained before advancing the iterator into that field
    S = sim.Sim([lexpr], hooks={"call": mk_hook(None), "opaque": opaque_with(Adt(OPT, 0, []))}, inline=own)
    okp = False
    stores = []
    for p in S.run(peek):
        if p.end != "return":
            continue
        for e in p.events:
            if e[0] == "store" and e[1] == field:
                stores.append(fields(e[2]))
            elif e[0] == "store" and isinstance(e[1], Opq) and e[1].path and e[1].path[-1] == LA and isinstance(e[2], Adt) \
                    and e[2].variant == 1 and e[2].fields and isinstance(e[2].fields[0], sim.Tup) and len(e[2].fields[0].fields) == 2:
                # the byte and the position in front of it stored together: Some((byte, position))
                stores.append(fields(e[2].fields[0].fields[1]))
    if stores and all(s == base for s in stores):
        r.ok("peek() saves (iter.line(), iter.col()) taken before iter.next() into %r" % field, peek)
    else:
        r.violation(peek.path, "peek-saves-position",
                    "IoRead::peek does not store the position in front of the byte it pulls (stores to %r: %s)" % (field, stores), peek.loc())
    # SliceRead::peek must not move the index
    sp = lexpr.fn(SL + "peek")
    if sp is None:
        r.anchor_missing("SliceRead::peek")
    else:
        moved = False
        idx_fields = common.fields_of_type(lexpr, "parse::read::SliceRead", lambda ty: ty == "usize")
        if not idx_fields:
            r.anchor_missing("the usize index field of SliceRead")
        for b in sp.blocks:
            for s in b["stmts"]:
                if s["k"] == "assign" and any(isinstance(e, dict) and e.get("n") in idx_fields for e in s["place"]["p"]):
                    moved = True
        if moved:
            r.violation(sp.path, "slice-peek-advances", "SliceRead::peek writes self.index: position() would skip the peeked byte", sp.loc())
        else:
            r.ok("SliceRead::peek does not write self.index", sp)
    # byte_offset is the sibling that already compensated
    bo = lexpr.fn(IO + "byte_offset")
    if bo is not None:
        reads_ch = any(any(isinstance(e, dict) and e.get("n") == LA for e in (s["rv"].get("pl", {}) or {}).get("p", []))
                       for b in bo.blocks for s in b["stmts"] if s["k"] == "assign" and s["rv"]["k"] in ("discr", "use", "ref"))
        if reads_ch:
            r.ok("IoRead::byte_offset also compensates for the pending byte", bo)
        else:
            r.violation(bo.path, "byte-offset-ignores-lookahead", "IoRead::byte_offset no longer looks at the pending byte", bo.loc())


def quote_span(ctx, lexpr):
    from .. import cfg
    r = ctx.rule("R-QUOTE-SPAN", "the head span of a quote shorthand is closed before the quoted datum is parsed")
    f = lexpr.fn("parse::Parser::<R>::next_datum")
    q = lexpr.fn("datum::Datum::quotation")
    if f is None or q is None:
        r.anchor_missing("next_datum / Datum::quotation")
        return
    # the arm may live in a worker next_datum was split into: the part that calls Datum::quotation is the one examined
    for g in lexpr.parts_of(f.path):
        if g.kind != "closure" and any(t["callee"].get("path", "") == "datum::Datum::quotation" for _b, t in g.calls()):
            f = g
            break
    defs = common.defs_of(f)
    idom = cfg.dominators(f)
    qcalls = [(bi, t) for bi, t in f.calls() if t["callee"].get("path", "") == "datum::Datum::quotation"]
    rec = [bi for bi, t in f.calls() if t["callee"].get("path", "").endswith("Parser::<R>::next_datum")]
    # the recursive step may be wrapped: a closure of next_datum that makes the call, handed to a depth-charging helper
    for g in lexpr.closures_of(f.path):
        if any(t["callee"].get("path", "").endswith("Parser::<R>::next_datum") for _b, t in g.calls()):
            for bi, b in enumerate(f.blocks):
                if any(st["k"] == "assign" and st["rv"]["k"] == "agg" and st["rv"].get("closure") == g.path for st in b["stmts"]):
                    rec.append(bi)
    # ... or the function itself, handed over as a function value (`self.nested(Self::next_datum)`)
    for bi, t in f.calls():
        if any(a.get("c") == "const" and (a.get("fn") or "").endswith("Parser::<R>::next_datum") for a in t["args"]):
            rec.append(bi)
    if not qcalls or not rec:
        r.anchor_missing("Datum::quotation call / recursive next_datum call in next_datum")
        return
    for bi, t in qcalls:
        span_ty = [i for i, ty in enumerate(t.get("arg_tys", [])) if ty.endswith("Span")]
        if not span_ty:
            r.violation(f.path, "quotation-without-span",
                        "next_datum no longer hands Datum::quotation the span of the shorthand token", f.loc(t.get("line")))
            continue
        o = common.origin(f, defs, t["args"][span_ty[0]])
        okk = False
        why = "the span argument is not built by Span::new(start, end-of-token)"
        if o["k"] == "call" and o["t"]["callee"].get("path", "").endswith("Span::new"):
            e = common.origin(f, defs, o["t"]["args"][1])
            if e["k"] == "call" and "parse::read::Read::position" in F.callee_names(e["t"]):
                pb = e["block"]
                # the position is read before every recursive parse of the quoted datum
                if all(cfg.dominates(idom, pb, rb) and pb != rb for rb in rec if cfg.dominates(idom, f.blocks[pb]["term"].get("t", pb), rb) or True) \
                        and any(cfg.dominates(idom, pb, rb) for rb in rec):
                    okk = True
                else:
                    why = "the end position is read after the quoted datum has been parsed"
            else:
                why = "the end of the head span does not come from read.position()"
        if okk:
            r.ok("next_datum: the head span ends at a position read before the quoted datum is parsed", f, t.get("line"))
        else:
            r.violation(f.path, "quote-head-span", "quote shorthand: %s, so the head's span does not cover just the "
                                                   "shorthand characters" % why, f.loc(t.get("line")))
    # Datum::quotation must use the span parameter for the head (first element of the pair info)
    sp = None
    for i in range(1, q.arg_count + 1):
        if q.local_ty(i).endswith("Span"):
            sp = i
    if sp is None:
        r.violation(q.path, "quotation-signature", "Datum::quotation no longer takes the shorthand's span", q.loc())
        return
    qdefs = common.defs_of(q)
    used = False
    for b in q.blocks:
        for st in b["stmts"]:
            if st["k"] == "assign" and st["rv"]["k"] == "agg" and st["rv"].get("vname") == "Prim":
                o = common.origin(q, qdefs, st["rv"]["fields"][0])
                if o["k"] == "param" and o["l"] == sp:
                    used = True
    if used:
        r.ok("Datum::quotation stores the given span as SpanInfo::Prim for the head", q)
    else:
        r.violation(q.path, "head-span-not-from-parameter", "Datum::quotation does not use the shorthand's span for the head", q.loc())


def column_unit(ctx, lexpr):
    """Stream positions come from LineColIterator (one step per byte pulled), slice/str positions from
    SliceRead::position_of_index (a recount of the bytes before the index).  "The same spans from str, slice and
    stream" needs both to treat the same bytes specially (the line feed) and to advance the column for every
    other byte."""
    r = ctx.rule("R-COLUMN-UNIT", "the stream's and the slice's line/column counters treat the same bytes specially "
                                  "(only LF) and advance for every other byte value")
    it = common.stream_stepper(lexpr)
    sl = lexpr.fn("parse::read::SliceRead::<'a>::position_of_index")
    if it is None or sl is None:
        r.anchor_missing("LineColIterator::next / SliceRead::position_of_index")
        return
    eff = {}
    for b in range(256):
        def hook(S, fn, bb, t, args, path, b=b):
            if "std::iter::Iterator::next" in F.callee_names(t):
                return ("value", Adt(OPT, 1, [Adt(RES, 0, [b])]))
            return None

        S = sim.Sim([lexpr], hooks={"call": hook}, inline=lambda a, c: c.crate == lexpr.name and c.file == it.file
                    and c.kind != "closure" and not c.impl_trait and c.self_ty == it.self_ty)
        outs = set()
        for p in S.run(it):
            if p.end != "return":
                continue
            outs.add(frozenset(e[1].path[-1] for e in p.events if e[0] == "store" and isinstance(e[1], Opq) and e[1].path))
        eff[b] = frozenset(outs)
    base = eff[0x41]
    special_stream = {b for b in range(256) if eff[b] != base}
    if not base or not any(base):
        r.violation(it.path, "no-advance", "LineColIterator::next does not update its counters for an ordinary byte", it.loc())
        return
    # slice side: byte values the recount switches on
    special_slice = set()
    n_sw = 0
    # the recount and the closures it hands to iterator adaptors: byte values matched (`match *ch { b'\n' => ..`)
    # or compared (`|&b| b == b'\n'`)
    for g in [sl] + lexpr.closures_of(sl.path):
        for b in g.blocks:
            if b.get("cleanup"):
                continue
            t = b["term"]
            if t["k"] == "switch" and t.get("ty") == "u8":
                n_sw += 1
                special_slice |= {v for v, _ in t["targets"]}
            for st in b["stmts"]:
                if st["k"] == "assign" and st["rv"]["k"] == "bin" and st["rv"]["op"] in ("Eq", "Ne") \
                        and st["rv"].get("aty") == "u8":
                    for side in (st["rv"]["a"], st["rv"]["b"]):
                        v = common.const_int(side)
                        if v is not None:
                            n_sw += 1
                            special_slice.add(v)
    # the recount evaluated on the two-byte input `A b` for every b: a byte after which the position differs from the one
    # after an ordinary byte is special, however the recount singles it out (a range arm, a mask, a table).  Used only
    # when all 256 evaluations are exact; otherwise the bytes named in the code (above) stand.
    try:
        from .. import lex
        evald = {}
        for b in range(256):
            rd = lex.slice_reader(lexpr, [0x41, b])
            if rd is None:
                raise sim.Limit("shape")
            S = sim.Sim([lexpr], inline=lex.helper_inline(lexpr), max_paths=200, max_depth=6, max_visits=6)
            S.structural_vec = True
            outs = {(q.end, repr(q.ret)) for q in S.run(sl, args={1: sim.Ref([rd], 0, ()), 2: 2})}
            if len(outs) != 1 or next(iter(outs))[0] != "return" or "?" in next(iter(outs))[1] or "<" in next(iter(outs))[1]:
                raise sim.Limit("inexact")
            evald[b] = next(iter(outs))[1]
        special_slice = {b for b in range(256) if evald[b] != evald[0x41]}
        n_sw = max(n_sw, 1)
        r.note("slice recount evaluated on `A b` for all 256 byte values: %d special" % len(special_slice))
    except Exception:
        pass
    if n_sw == 0:
        r.anchor_missing("byte dispatch in SliceRead::position_of_index")
        return
    if special_stream == special_slice:
        r.ok("both counters special-case exactly %s and advance the column for each of the other %d byte values"
             % (sorted("0x%02X" % b for b in special_stream), 256 - len(special_stream)), it)
    else:
        only_s = sorted(special_stream - special_slice)
        only_l = sorted(special_slice - special_stream)
        r.violation(it.path, "column-unit",
                    "the stream's line/column counter treats %d byte value(s) differently from an ordinary byte that the "
                    "slice recount does not (%s) and vice versa (%s): the same text gets different columns from a stream "
                    "and from a str/slice" % (len(only_s), ", ".join("0x%02X" % b for b in only_s[:6]),
                                              ", ".join("0x%02X" % b for b in only_l[:6]) or "none"), it.loc())
    r.floor("byte-values", 256)


def span_order(ctx, lexpr):
    """For every kind of token: the start of the datum's span is the position read before the token is lexed, and
    its end is read after everything that belongs to the datum has been consumed (the element list of a byte
    vector, the closing delimiter of a list or vector).  The quote shorthand, whose overall span ends with the
    quoted datum, is covered by R-QUOTE-SPAN."""
    from .. import lex
    r = ctx.rule("R-SPAN-ORDER", "for each token kind the span handed to the Datum constructor starts before the token "
                                 "and ends after the last thing consumed for that datum")
    P = "parse::Parser::<R>::"
    f = lexpr.fn(P + "next_datum")
    tok = lexpr.adts.get("parse::Token")
    if f is None or not tok:
        r.anchor_missing("next_datum / parse::Token")
        return
    consuming = {P + "parse_byte_list", P + "parse_list_meta", P + "parse_vector_meta", P + "end_seq", P + "parse_token",
                 P + "parse_whitespace"}
    n = 0
    tm = lex.TokenModel(lexpr)
    for kind in tm.kinds():
        if kind == "Quotation":
            continue
        tv = tm.make(kind, lambda ty: 0x29 if ty == "u8" else Opq("payload"))
        if tv is None:
            continue
        v = {"name": kind}

        def hook(S, fn, bb, t, args, path, tv=tv):
            nm = F.callee_names(t)
            c = t["callee"]
            if "parse::read::Read::position" in nm:
                k = sum(1 for e in path.events if e[0] == "pos")
                path.events.append(("pos", k))
                return ("skip", Opq("pos#%d" % k))
            if nm & consuming or P + "parse_list_meta" in nm:
                path.events.append(("consume", sorted(nm)[0]))
                if P + "parse_whitespace" in nm:
                    return ("skip", Adt(RES, 0, [Adt(OPT, 1, [65])]))
                if P + "parse_token" in nm:
                    return ("skip", Adt(RES, 0, [tv]))
                if P + "end_seq" in nm:
                    return ("skip", Adt(RES, 0, [sim.Tup([])]))
                if P + "parse_list_meta" in nm:
                    return ("skip", Adt(RES, 0, [Adt(OPT, 1, [sim.Tup([UNK, UNK])])]))
                if P + "parse_vector_meta" in nm:
                    return ("skip", Adt(RES, 0, [sim.Tup([UNK, UNK])]))
                return ("skip", Adt(RES, 0, [UNK]))
            tg = lexpr.fn(c.get("resolved") or c.get("path") or "")
            if tg is not None and tg.file.endswith("datum.rs") and sum(1 for ty in t.get("arg_tys", []) if ty.endswith("read::Position")) >= 2:
                poss = [S._deref(a, path) for a, ty in zip(args, t.get("arg_tys", [])) if ty.endswith("read::Position")]
                path.events.append(("datum-ctor", tg.path, [repr(x) for x in poss]))
                return ("skip", UNK)
            return None

        S = sim.Sim([lexpr], hooks={"call": hook}, inline=lambda a, b: lex.helper_inline(lexpr)(a, b) or (b.kind == "closure" and b.owner == f.path),
                    max_paths=6000, max_depth=5)
        bad = None
        seen_ctor = False
        try:
            for p in S.run(f):
                if p.end != "return":
                    continue
                evs = [e for e in p.events if e[0] in ("pos", "consume", "datum-ctor")]
                for i, e in enumerate(evs):
                    if e[0] != "datum-ctor":
                        continue
                    seen_ctor = True
                    start, end = e[2][0], e[2][-1]
                    ms, me = re.match(r"<pos#(\d+)>$", start), re.match(r"<pos#(\d+)>$", end)
                    if not ms or not me:
                        bad = "the span of Token::%s is not built from two read positions (%s, %s)" % (v["name"], start, end)
                        continue
                    order = [x for x in evs[:i]]
                    idx_start = next(j for j, x in enumerate(order) if x == ("pos", int(ms.group(1))))
                    idx_end = next(j for j, x in enumerate(order) if x == ("pos", int(me.group(1))))
                    tok_idx = [j for j, x in enumerate(order) if x[0] == "consume" and x[1].endswith("parse_token")]
                    last_consume = max([j for j, x in enumerate(order) if x[0] == "consume"] or [-1])
                    if tok_idx and idx_start > tok_idx[0]:
                        bad = "the start of a Token::%s datum is read after the token has been lexed" % v["name"]
                    elif idx_end < last_consume:
                        bad = ("the end of a Token::%s datum is read before %s has consumed the rest of it: the span stops "
                               "short of the datum's text" % (v["name"], order[last_consume][1].rsplit("::", 1)[-1]))
        except sim.Limit:
            bad = "path limit"
        n += 1
        if bad:
            r.violation(f.path, "span-order:%s" % v["name"], "next_datum: %s" % bad, f.loc())
        elif not seen_ctor:
            r.violation(f.path, "span-order-undetermined:%s" % v["name"],
                        "next_datum: no Datum constructor taking two positions is reached for Token::%s" % v["name"], f.loc())
        else:
            r.ok("Token::%s: span = [position before the token, position after the last consumption]" % v["name"], f)
    r.floor("token-kinds", n)
