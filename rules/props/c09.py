"""C09  sexp! builds the value the parser reads from the same S-expression - alphabets only (thin).

  R-MACRO-ALPHABET  every punctuation character the macro accepts as the first character of a symbol can
                    start a symbol for the text parser, every character it accepts inside a punctuation
                    symbol continues a symbol for the text parser's scanners, and the macro's `#` identifiers
                    {t, f, nil} are `#` tokens of the text parser with the same meaning
  R-MACRO-SPACING   Alone ends a punctuation symbol, Joint continues it
  R-MACRO-DOT       inside a list only a `.` standing Alone is consumed as the dotted-tail marker
  R-MACRO-EXTENT    each documented token form is consumed exactly (16 forms x 11 kinds of following token)
Necessary: a character the macro turns into a symbol but the text parser rejects makes the two disagree on
that one-token S-expression.  Everything else (Spacing-driven joining, dotted-tail flattening, literal
typing, unquote) relates two parsers over a language and is not decided.
"""
from .. import classes, common, facts as F, lex, sim
from ..sim import Adt, UNK
from . import c08


def char_switch_groups(fn):
    """For each switch on a `char`: {target block: set(chars)}."""
    out = []
    for bi, b in enumerate(fn.blocks):
        t = b["term"]
        if t["k"] == "switch" and t.get("ty") == "char" and not b.get("cleanup"):
            g = {}
            for v, tg in t["targets"]:
                g.setdefault(tg, set()).add(v)
            out.append((bi, g, t["otherwise"]))
    return out


PUNCT = [c for c in range(33, 127) if not chr(c).isalnum()]


class MacroParser:
    """The macro's token parser over structural token vectors: `Parser::parse` (and the list parser) run as MIR on a
    Parser value whose token storage - a Vec<TokenTree> or a borrowed slice of them - holds the given tokens."""

    def __init__(self, mac):
        self.mac = mac
        self.ok = False
        self.pf = mac.fn("parser::Parser::parse")
        self.sp = mac.ext_adts.get("proc_macro2::Spacing")
        self.tt = mac.ext_adts.get("proc_macro2::TokenTree")
        pa = mac.adts.get("parser::Parser")
        if self.pf is None or not self.sp or not self.tt or not pa:
            self.why = "parser::Parser::parse / parser::Parser / proc_macro2 token types"
            return
        self.vidx = {v["name"]: v["idx"] for v in self.tt["variants"]}
        pfields = pa["variants"][0]["fields"]
        # the token bookkeeping may live in a type of its own (`Parser { cursor: Cursor { tokens, index } }`)
        self.holder = None
        if len(pfields) == 1 and pfields[0]["ty"] in mac.adts and mac.adts[pfields[0]["ty"]].get("kind") == "struct":
            self.holder = pfields[0]["ty"]
            pfields = mac.adts[self.holder]["variants"][0]["fields"]
        self.tok_field = [i for i, f in enumerate(pfields) if "proc_macro2::TokenTree" in f["ty"] and "Option<" not in f["ty"]]
        self.idx_field = [i for i, f in enumerate(pfields) if f["ty"] == "usize"]
        # the other shape: a token iterator plus one token of lookahead
        self.iter_field = [i for i, f in enumerate(pfields) if f["ty"].endswith("token_stream::IntoIter")]
        self.peek_field = [i for i, f in enumerate(pfields) if f["ty"].startswith("std::option::Option<proc_macro2::TokenTree")]
        self.shape = None
        if len(self.tok_field) == 1 and len(self.idx_field) == 1 and len(pfields) == 2:
            self.shape = "indexed"
            self.tok_is_vec = pfields[self.tok_field[0]]["ty"].startswith("std::vec::Vec<")
        elif len(self.iter_field) == 1 and len(self.peek_field) == 1 and len(pfields) == 2:
            self.shape = "lookahead"
        elif len(pfields) == 1 and pfields[0]["ty"].startswith("std::iter::Peekable<") and "token_stream::IntoIter" in pfields[0]["ty"]:
            self.shape = "peekable"
        if self.shape is None and len(pfields) == 1 and pfields[0]["ty"].lstrip("&").replace("'a ", "").replace("'_ ", "") == "[proc_macro2::TokenTree]":
            # the tokens still to be read, as a shrinking slice (`rest: &[TokenTree]`)
            self.shape = "rest"
        if self.shape is None:
            self.why = "parser::Parser { tokens, index } or { token iterator, lookahead } (fields %s)" % [f["ty"] for f in pfields]
            return
        self.spv = {v["name"]: Adt("proc_macro2::Spacing", v["idx"], [], v["name"]) for v in self.sp["variants"]}
        self.leaf = {"parser::string_literal"}
        self.ok = True

    def P(self, ch, s="Alone"):
        c = ch if isinstance(ch, int) else ord(ch)
        return Adt("proc_macro2::TokenTree", self.vidx["Punct"], [Adt("proc_macro2::Punct", 0, [c, self.spv[s]])], "Punct")

    def T(self, kind):
        return Adt("proc_macro2::TokenTree", self.vidx[kind], [sim.Opq(kind.lower())], kind)

    def parser_value(self, toks):
        v = self._holder_value(toks)
        if self.holder is not None:
            return Adt("parser::Parser", 0, [Adt(self.holder, 0, v.fields)])
        return v

    def _holder_value(self, toks):
        fs = [None, None]
        store = sim.Tup(list(toks))
        if self.shape == "rest":
            self._total = len(toks)
            return Adt("parser::Parser", 0, [sim.Ref([store], 0, ())])
        if self.shape == "peekable":
            # std's Peekable over the token iterator: a by-value iterator whose `peek` looks without advancing
            return Adt("parser::Parser", 0, [Adt("sim::SliceIter", 0, [store, 0, "by-value"])])
        if self.shape == "lookahead":
            # as Parser::new leaves it: the first token loaded into the lookahead slot
            fs[self.iter_field[0]] = Adt("sim::SliceIter", 0, [store, min(1, len(toks)), "by-value"])
            fs[self.peek_field[0]] = Adt("std::option::Option", 1, [toks[0]]) if toks else Adt("std::option::Option", 0, [])
            return Adt("parser::Parser", 0, fs)
        fs[self.tok_field[0]] = Adt("sim::Vec", 0, [store]) if self.tok_is_vec else sim.Ref([store], 0, ())
        fs[self.idx_field[0]] = 0
        return Adt("parser::Parser", 0, fs)

    def cursor(self, S, pvv, path):
        """How many tokens the parser has consumed."""
        if not (isinstance(pvv, Adt) and pvv.adt == "parser::Parser"):
            return None
        if self.holder is not None:
            pvv = S._deref(pvv.fields[0], path)
            if not isinstance(pvv, Adt):
                return None
        if self.shape == "rest":
            rest = S._deref(pvv.fields[0], path)
            if isinstance(rest, sim.Tup):
                return self._total - len(rest.fields)
            return None
        if self.shape == "indexed":
            at = pvv.fields[self.idx_field[0]]
            return at if isinstance(at, int) else None
        if self.shape == "peekable":
            it = S._deref(pvv.fields[0], path)
            return it.fields[1] if isinstance(it, Adt) and it.adt == "sim::SliceIter" else None
        it = S._deref(pvv.fields[self.iter_field[0]], path)
        pk = S._deref(pvv.fields[self.peek_field[0]], path)
        if isinstance(it, Adt) and it.adt == "sim::SliceIter" and isinstance(pk, Adt) and pk.adt.endswith("Option"):
            return it.fields[1] - (1 if pk.variant == 1 else 0)
        return None

    def hook(self, S, fn, bb, t, args, path):
        p = t["callee"].get("path", "")
        if p in ("proc_macro2::Punct::as_char", "proc_macro2::Punct::spacing"):
            pvv = S._deref(args[0], path)
            if isinstance(pvv, Adt) and pvv.adt == "proc_macro2::Punct":
                return ("value", pvv.fields[0 if p.endswith("as_char") else 1])
            return ("value", UNK)
        if p in ("parser::parse_list", "parser::parse_vector"):
            return ("value", Adt("std::result::Result", 0, [sim.Opq("nested")]))   # the group's own tokens
        if p in self.leaf:
            return ("fork", [Adt("std::result::Result", 0, [sim.Opq("text")]), Adt("std::result::Result", 1, [UNK])])
        return None

    def parse(self, toks):
        """Outcomes of Parser::parse on the token vector: set of (kind, cursor) with kind the Value variant name of
        an accepted reading, 'rejected', 'panic' or '?..'."""
        inline = lambda a, b: b.crate == self.mac.name and b.file.endswith("parser.rs") and b.path not in self.leaf
        cell = [self.parser_value(toks)]
        S = sim.Sim([self.mac], hooks={"call": self.hook}, inline=inline, max_paths=4000, max_depth=7, max_visits=8)
        outs = set()
        try:
            for pth in S.run(self.pf, args={1: sim.Ref(cell, 0, ())}):
                if pth.end == "return" and isinstance(pth.ret, Adt) and pth.ret.adt.endswith("Result"):
                    if pth.ret.variant != 0:
                        outs.add(("rejected", None))
                        continue
                    mine, _ = S._caller_env(cell, pth, 0)
                    at = self.cursor(S, mine[0], pth)
                    v = S._deref(pth.ret.fields[0], pth)
                    kind = (v.vname or str(v.variant)) if isinstance(v, Adt) else "?value"
                    outs.add((kind, at if isinstance(at, int) else "?index"))
                elif pth.end == "panic":
                    outs.add(("panic", None))
                else:
                    outs.add(("?" + str(pth.end), None))
        except sim.Limit:
            outs = {("?limit", None)}
        return outs


def macro_alphabets(mp):
    """The macro's symbol alphabets by evaluation on structural token vectors: `init` = punctuation characters that,
    standing alone, are read as a one-character symbol or, glued to a following character, start a longer one;
    `subs` = characters that are appended to a symbol begun by a glued first character."""
    init, subs = set(), set()
    for c in PUNCT:
        alone = mp.parse([mp.P(c)]) - {("rejected", None)}
        if alone and all(k == "Symbol" and at == 1 for k, at in alone):
            init.add(c)
    starter = None
    for c in sorted(init):
        two = mp.parse([mp.P(c, "Joint"), mp.P(c)]) - {("rejected", None)}
        if two == {("Symbol", 2)}:
            starter = c
            break
    if starter is None:
        return init, subs, None
    for c in PUNCT:
        two = mp.parse([mp.P(starter, "Joint"), mp.P(c)]) - {("rejected", None)}
        if two == {("Symbol", 2)}:
            subs.add(c)
    return init, subs, starter


def spacing(ctx, mp, init, subs, starter):
    """Rust reports for each punctuation character whether the next one follows immediately (Joint) or not
    (Alone).  A symbol of the text parser ends where white space begins, so the macro must end a punctuation
    symbol at a character that stands Alone and continue it at one that is Joint."""
    r = ctx.rule("R-MACRO-SPACING", "a punctuation character with Spacing::Alone ends the macro's symbol, one with "
                                    "Spacing::Joint continues it (start of a symbol and inside one)")
    pf = mp.pf
    n = 0
    follower = sorted(subs)[0] if subs else None
    if follower is None or starter is None:
        r.anchor_missing("a punctuation character the macro joins into symbols")
        return
    for sname in ("Alone", "Joint"):
        for c in sorted(subs):
            outs = mp.parse([mp.P(starter, "Joint"), mp.P(c, sname), mp.P(follower), mp.T("Ident")]) - {("rejected", None)}
            n += 1
            want = {("Symbol", 2)} if sname == "Alone" else {("Symbol", 3)}
            if outs == want:
                r.ok("inside a symbol, %r %s" % (chr(c), "standing Alone ends it" if sname == "Alone" else
                                                 "Joint with its successor continues it"), pf)
            elif not outs or any(k.startswith("?") for k, _ in outs):
                r.violation("lexpr_macros::" + pf.path, "inexact:%s:%s" % (sname, chr(c)),
                            "the reading of %r with Spacing::%s inside a symbol could not be evaluated (%s)" % (chr(c), sname, sorted(outs, key=repr)), pf.loc())
            else:
                r.violation("lexpr_macros::" + pf.path, "spacing:%s:%s" % (sname, chr(c)),
                            "after appending %r with Spacing::%s the macro's symbol covers %s token(s) instead of %d: "
                            "`(<= -1 x)` style input would be joined or split differently from the text parser" % (
                                chr(c), sname, "/".join(str(at) for _, at in sorted(outs, key=repr)), 2 if sname == "Alone" else 3), pf.loc())
        for c in sorted(init):
            outs = mp.parse([mp.P(c, sname), mp.P(follower), mp.T("Group")]) - {("rejected", None)}
            n += 1
            want = {("Symbol", 1)} if sname == "Alone" else {("Symbol", 2)}
            if outs == want:
                r.ok("at the start, %r with Spacing::%s %s" % (chr(c), sname, "stands alone" if sname == "Alone" else "starts a joined symbol"), pf)
            else:
                r.violation("lexpr_macros::" + pf.path, "initial-spacing:%s:%s" % (sname, chr(c)),
                            "at the start of a symbol %r with Spacing::%s is read as %s, expected a symbol of %d token(s)"
                            % (chr(c), sname, sorted(outs, key=repr), 1 if sname == "Alone" else 2), pf.loc())
    r.floor("spacing-cases", n)


def list_dot(ctx, mp):
    """Inside a list the text parser takes `.` for the dotted-tail marker only when a delimiter follows it; a `.`
    glued to more punctuation starts a symbol (`...`, `.+`).  Rust reports that as Spacing::Joint.  The macro's
    list parser is evaluated on token vectors [Punct(c, spacing), next] - every punctuation character, both
    spacings, each kind of following token - with the parser's own token bookkeeping (peek / eat_token / direct
    look-ahead into the vector) evaluated as written: it must take the tail branch (consume the token, then parse
    the tail) exactly for `.` standing Alone, and hand every other token to the element parser unconsumed."""
    r = ctx.rule("R-MACRO-DOT", "in a list, the macro takes a `.` for the dotted-tail marker exactly when it stands Alone; "
                                "a `.` Joint with following punctuation (`...`) and every other punctuation character "
                                "go to the element parser, whatever token follows")
    mac = mp.mac
    pl = mac.fn("parser::parse_list")
    if pl is None:
        r.anchor_missing("parser::parse_list")
        return
    leaf = {"parser::Parser::parse_octothorpe", "parser::Parser::parse_identifier", "parser::parse_vector",
            "parser::string_literal", "parser::Parser::parse"}
    leaf_fns = {f.path for f in (mac.fn(x) for x in leaf) if f is not None}
    inline = lambda a, b: b.crate == mac.name and b.file.endswith("parser.rs") and b.path not in leaf_fns
    new_fn = mac.fn("parser::Parser::new")
    punct, other = mp.P, mp.T
    followers = {
        "Alone": [("nothing", []), ("an identifier", [other("Ident")]), ("a literal", [other("Literal")]),
                  ("a literal and an identifier", [other("Literal"), other("Ident")]),
                  ("two literals", [other("Literal"), other("Literal")]),
                  ("a group", [other("Group")]),
                  ("`...`", [punct(0x2E, "Joint"), punct(0x2E, "Joint"), punct(0x2E, "Alone")]),
                  ("an unquote", [punct(0x2C, "Alone"), other("Ident")])],
        "Joint": [("`.`", [punct(0x2E, "Alone")]), ("`..`", [punct(0x2E, "Joint"), punct(0x2E, "Alone")]),
                  ("`+`", [punct(0x2B, "Alone")]), ("`=` glued on", [punct(0x3D, "Joint"), punct(0x3E, "Alone")])],
        # (a `.` glued to an unquote, `.,x`, is outside the documented syntax and not examined)
    }
    parse_fn = mp.pf
    n = 0
    for sname in ("Alone", "Joint"):
        for c in PUNCT:
            for fname, rest in followers[sname]:
                toks = [punct(c, sname)] + rest

                def hook(S, fn, bb, t, args, path, toks=toks):
                    c0 = t["callee"]
                    p = c0.get("resolved") or c0.get("path", "")
                    if new_fn is not None and p == new_fn.path:
                        return ("value", mp.parser_value(toks))
                    if p == parse_fn.path:
                        at = mp.cursor(S, S._deref(args[0], path), path)
                        return ("stop", {0: "element", 1: "tail"}.get(at, "?index"))
                    if p in leaf_fns:
                        return ("value", UNK)
                    return mp.hook(S, fn, bb, t, args, path)

                S = sim.Sim([mac], hooks={"call": hook}, inline=inline, max_paths=2000, max_depth=6, max_visits=3)
                outs = set()
                try:
                    # the list parser builds its token cursor itself (Parser::new is answered above) or is handed one
                    pargs = {i: mp.parser_value(toks) for i in range(1, pl.arg_count + 1)
                             if pl.local_ty(i).split("<")[0].endswith("parser::Parser")}
                    for pth in S.run(pl, args=pargs):
                        if pth.end in ("stop:tail", "stop:element"):
                            outs.add(pth.end[5:])
                        else:
                            outs.add("?" + str(pth.end))
                except sim.Limit:
                    outs = {"?limit"}
                n += 1
                want = {"tail"} if (c == 0x2E and sname == "Alone") else {"element"}
                what = "%r with Spacing::%s followed by %s" % (chr(c), sname, fname)
                if outs == want:
                    r.ok("%s -> %s" % (what, sorted(want)[0]), pl)
                elif any(o.startswith("?") for o in outs):
                    r.violation("lexpr_macros::" + pl.path, "inexact:%s:%s:%s" % (sname, chr(c), fname),
                                "the list parser's treatment of %s could not be evaluated (%s)" % (what, sorted(outs)), pl.loc())
                else:
                    r.violation("lexpr_macros::" + pl.path, "list-dot:%s:%s:%s" % (sname, chr(c), fname),
                                "in a list, %s is %s by sexp!, but the text parser reads %s: `(a ...)` / `(a . ...)` / "
                                "`(-1 x)` style input gives different values" % (
                                    what, " or ".join("consumed by the list parser itself (as the dotted-tail marker or otherwise)"
                                                      if o == "tail" else "handed to the element parser" for o in sorted(outs)),
                                    "the dotted-tail marker" if want == {"tail"} else "it as (the start of) an element"), pl.loc())
    r.floor("list-dot-cases", n)


def form_extent(ctx, mp):
    """Each documented token form is consumed exactly: the macro's element parser, started on a token vector
    [form..., follower...], returns Ok with the cursor right behind the form - it neither leaves one of the form's
    tokens behind nor glues a following token on (`(#:size . large)`, `(#:from - to)`, `(-1 0 1)` keep their
    elements apart).  `Parser::parse` runs as MIR over a structural token vector; the cursor is read from the parser
    object as each accepting path left it."""
    r = ctx.rule("R-MACRO-EXTENT", "the macro's element parser consumes exactly the tokens of each documented form "
                                   "(identifier, literal, group, #t/#f/#nil, #\"..\", #(..), #:name, #:\"..\", :name, "
                                   ":\"..\", -literal, unquote, punctuation symbol), whatever token follows")
    P, T, pf = mp.P, mp.T, mp.pf
    forms = [
        ("an identifier", [T("Ident")]), ("a literal", [T("Literal")]), ("a list", [T("Group")]),
        ("#ident", [P("#"), T("Ident")]), ('#"symbol"', [P("#"), T("Literal")]), ("#(vector)", [P("#"), T("Group")]),
        ("#:name", [P("#", "Joint"), P(":"), T("Ident")]), ('#:"name"', [P("#", "Joint"), P(":"), T("Literal")]),
        (":name", [P(":"), T("Ident")]), (':"name"', [P(":"), T("Literal")]),
        ("a negative literal", [P("-"), T("Literal")]),
        ("an unquoted identifier", [P(","), T("Ident")]), ("an unquoted group", [P(","), T("Group")]),
        ("the symbol +", [P("+")]), ("the symbol <=", [P("<", "Joint"), P("=")]), ("the symbol ...", [P(".", "Joint"), P(".", "Joint"), P(".")]),
        ("the symbol -", [P("-")]),
    ]
    # what each form is read as (the kinds of the macro's own value type), whatever the text of an identifier or literal
    kinds_of = {"an identifier": {"Symbol"}, "a literal": {"Literal"}, "#:name": {"Keyword"}, '#:"name"': {"Keyword"},
                ":name": {"Keyword"}, ':"name"': {"Keyword"}, "a negative literal": {"Negated"},
                "an unquoted identifier": {"Unquoted"}, "an unquoted group": {"Unquoted"}, "the symbol +": {"Symbol"},
                "the symbol <=": {"Symbol"}, "the symbol ...": {"Symbol"}, "the symbol -": {"Symbol"},
                '#"symbol"': {"Symbol"}, "#ident": {"Bool", "Nil"}}
    followers = [("nothing", []), ("an identifier", [T("Ident")]), ("a literal", [T("Literal")]), ("a group", [T("Group")]),
                 ("`.` and an identifier", [P("."), T("Ident")]), ("`-` and an identifier", [P("-"), T("Ident")]),
                 ("`-` and a literal", [P("-"), T("Literal")]), ("`+`", [P("+")]), ("`@` and an identifier", [P("@"), T("Ident")]),
                 ("`:` and an identifier", [P(":"), T("Ident")]), ("an unquote", [P(","), T("Ident")])]
    n = und = 0
    value_kinds = {v["name"] for v in (mp.mac.adts.get("value::Value") or {"variants": []})["variants"]}
    for fname, form in forms:
        for gname, rest in followers:
            if fname == "the symbol -" and rest and rest[0].vname == "Literal":
                continue        # `-` before a literal is the sign of that literal (the form "a negative literal")
            outs = mp.parse(form + rest)
            n += 1
            want = len(form)
            what = "%s followed by %s" % (fname, gname)
            got = {at for k, at in outs if k != "rejected"}
            kinds = {k for k, at in outs if k != "rejected"}
            wk = kinds_of.get(fname)
            if got == {want} and wk and wk <= value_kinds and kinds and not kinds <= wk and not any(k.startswith("?") for k in kinds):
                r.violation("lexpr_macros::" + pf.path, "kind:%s:%s" % (fname, gname),
                            "sexp! reads %s as %s; the documented reading is %s, whatever the text of the token" % (
                                what, "/".join(sorted(kinds)), "/".join(sorted(wk))), pf.loc())
            elif got == {want}:
                r.ok("%s: cursor behind the form" % what, pf)
            elif not got or any(not isinstance(x, int) for x in got):
                und += 1
                r.note("undecided: %s gives %s" % (what, sorted(outs, key=repr)))
            else:
                r.violation("lexpr_macros::" + pf.path, "extent:%s:%s" % (fname, gname),
                            "sexp! reading %s leaves the cursor at token %s, the form has %d token(s): a neighbouring "
                            "token is glued on or one of the form's tokens is left over, so the list gets different "
                            "elements than the text parser's" % (what, "/".join(str(x) for x in sorted(got)), len(form)), pf.loc())
    r.floor("extent-cases", n)
    r.floor("extent-decided", n - und)


def run(ctx):
    db = ctx.facts(["poly"])
    lexpr = db.crate("lexpr")
    mac = db.crate("lexpr_macros")
    ctx.explanation = (
        "The macro lexes Rust tokens, the text parser lexes bytes; agreement on symbols needs the macro's punctuation "
        "alphabet to be inside the text parser's symbol alphabet. The macro's accepted characters are read from the "
        "`char` switches in the MIR of lexpr-macros' Parser::parse / parse_identifier / parse_octothorpe; the text "
        "parser's classes are extracted from lexpr's MIR (which first bytes can yield Token::Symbol; which bytes continue "
        "a symbol in both scanners; what `#t`, `#f`, `#nil` produce). Only this inclusion is decided.")
    ctx.trusted = ["rustc nightly MIR", "proc_macro2::Punct::as_char returns the ASCII punctuation character"]
    r = ctx.rule("R-MACRO-ALPHABET", "the macro's symbol punctuation and `#` identifiers are inside the text parser's alphabet")
    if mac is None:
        r.anchor_missing("lexpr_macros facts")
        return
    pf = mac.fn("parser::Parser::parse")
    pid = mac.fn("parser::Parser::parse_identifier")
    poc = mac.fn("parser::Parser::parse_octothorpe")
    pt = lexpr.fn("parse::Parser::<R>::parse_token")
    if None in (pf, pid, poc, pt):
        r.anchor_missing("lexpr_macros::parser::Parser::{parse, parse_identifier, parse_octothorpe} / parse_token")
        return
    mp = MacroParser(mac)
    if not mp.ok:
        r.anchor_missing(mp.why)
        return
    init, subs, starter = macro_alphabets(mp)
    if not init or not subs:
        r.anchor_missing("punctuation accepted by lexpr_macros Parser::parse as symbols (none found)")
        return
    spacing(ctx, mp, init, subs, starter)
    list_dot(ctx, mp)
    form_extent(ctx, mp)
    r.floor("initial-chars", len(init))
    r.floor("subsequent-chars", len(subs))
    # text parser: which first bytes can yield a symbol (default options; ':' with prefix keywords off)
    kw = 4
    for c in sorted(init):
        if c >= 128:
            r.violation("lexpr_macros::parser::Parser::parse", "non-ascii-initial", "macro accepts non-ASCII punctuation %r" % chr(c))
            continue
        if chr(c) == "_":
            # `_` never reaches the macro as punctuation (Rust lexes it as an identifier); harmless either way
            pass
        kinds, _ = c08._token_kinds(lexpr, pt, [c, 0x20], {"keyword_syntaxes": kw, "racket_hash_percent_symbols": 0,
                                                           "leading_digit_symbols": 0})
        if "Symbol" in kinds:
            r.ok("macro symbol-initial %r can start a symbol for the text parser" % chr(c), pf)
        else:
            r.violation("lexpr_macros::parser::Parser::parse", "initial:%s" % chr(c),
                        "sexp! turns the punctuation %r into a symbol but the text parser yields %s for a token starting "
                        "with it" % (chr(c), sorted(kinds)), pf.loc())
    try:
        conts = []
        for fp in (classes.IO_SYMBOL, classes.SLICE_SYMBOL):
            tc = classes.scanner_classes(lexpr, fp)
            if tc is None:
                r.anchor_missing(fp)
                return
            conts.append(tc[1])
    except classes.Inexact as e:
        r.violation("<classes>", "inexact", str(e))
        return
    for c in sorted(subs):
        if all(c in cont for cont in conts):
            r.ok("macro symbol-subsequent %r continues a symbol in both text scanners" % chr(c), pid)
        else:
            r.violation("lexpr_macros::parser::Parser::parse_identifier", "subsequent:%s" % chr(c),
                        "sexp! joins %r into a punctuation symbol but the text parser's symbol scanner stops at it" % chr(c), pid.loc())
    # a sign followed by a punctuation character the macro joins must be a symbol for the text parser too
    eof_table = None
    for sign in (0x2D, 0x2B):
        for c in sorted(subs):
            kinds, _ = c08._token_kinds(lexpr, pt, [sign, c, 0x20], {"keyword_syntaxes": 4, "racket_hash_percent_symbols": 0,
                                                                     "leading_digit_symbols": 0})
            if kinds == {"Symbol"}:
                r.ok("`%s%s` is a symbol for the text parser" % (chr(sign), chr(c)), pt)
            else:
                r.violation("lexpr::parse::is_sign_subsequent", "sign-subsequent:%s%s" % (chr(sign), chr(c)),
                            "sexp! joins `%s%s` into one punctuation symbol, but the text parser reads a token starting "
                            "with `%s%s` as %s" % (chr(sign), chr(c), chr(sign), chr(c), sorted(kinds)), pt.loc())
    # `#` identifiers: string constants compared in parse_octothorpe
    idents = set()
    for b in poc.blocks:
        for s in b["stmts"]:
            if s["k"] == "assign":
                for op in c08._ops(s["rv"]):
                    bs = common.const_bytes(op)
                    if bs is not None and 0 < len(bs) <= 8 and all(97 <= x <= 122 for x in bs):
                        idents.add(bytes(bs))
        t = b["term"]
        if t["k"] == "call":
            for a in t["args"]:
                bs = common.const_bytes(a)
                if bs is not None and 0 < len(bs) <= 8 and all(97 <= x <= 122 for x in bs):
                    idents.add(bytes(bs))
    want = {b"t": "Bool", b"f": "Bool", b"nil": "Nil"}
    if not idents:
        r.anchor_missing("`#` identifier constants in parse_octothorpe")
    for ident in sorted(idents):
        if ident not in want:
            r.violation("lexpr_macros::parser::Parser::parse_octothorpe", "hash-ident:%s" % ident.decode(),
                        "sexp! accepts #%s, for which no text-parser meaning is recorded" % ident.decode(), poc.loc())
            continue
        inl = lex.helper_inline(lexpr, set(c08.INL) | {"parse::Parser::<R>::expect_ident"})
        S = sim.Sim([lexpr], hooks={"call": lex.seq_hook([0x23] + list(ident) + [0x20])}, inline=inl, max_visits=4, max_paths=4000)
        tok = lexpr.variant_names("parse::Token")
        kinds = set()
        for p in S.run(pt, args={2: 0x23}):
            if p.end == "return" and isinstance(p.ret, Adt):
                if p.ret.variant == 0 and isinstance(p.ret.fields[0], Adt):
                    kinds.add(c08.TM(lexpr).kind(p.ret.fields[0], S, p))
                else:
                    kinds.add("Err")
        # expect_ident iterates a slice, which the analysis does not unroll: Err is an additional abstract outcome
        if want[ident] in kinds and kinds <= {want[ident], "Err"}:
            r.ok("#%s: macro and text parser agree (%s)" % (ident.decode(), want[ident]), poc)
        else:
            r.violation("lexpr::parse::Parser::<R>::parse_token", "hash-ident:%s" % ident.decode(),
                        "sexp!(#%s) is %s but the text parser reads `#%s` as %s" % (ident.decode(), want[ident], ident.decode(), sorted(kinds)))
