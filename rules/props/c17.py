"""C17  Only well-formed UTF-8 ever reaches a str.

  R-UNCHECKED-SITES  who may convert bytes to str/String/char without a check
  R-PRINT-UTF8       every byte source of the printer is ASCII or comes from a &str
  R-ASCII-CUT        every byte at which a slice of str input is cut is ASCII
  R-SCRATCH-UTF8     every write to the scratch buffer keeps it whole UTF-8, except in
                     functions that only feed checked conversions (and those are
                     unreachable from the scanners that feed unchecked ones)
  R-SCRATCH-CLEAR    unchecked readers start from a cleared / validated scratch
  R-UTF8-SELFCHECK   decode_utf8_sequence returns Ok only behind a successful from_utf8
  R-STRREAD-CTOR     a StrRead can only be made from a &str
  C17-T (thorough)   compile_fail witnesses for the type-level remainder
"""
import os
import subprocess

from .. import build, cfg, common, facts as F, lex, reach, sim
from ..report import load_table

UNCHECKED = ("from_utf8_unchecked", "from_utf8_unchecked_mut", "from_raw_parts", "from_u32_unchecked",
             "from_boxed_utf8_unchecked", "as_bytes_mut", "as_mut_vec")
PARSE_FILES = ("lexpr/src/parse/mod.rs", "lexpr/src/parse/read.rs")


def run(ctx):
    db = ctx.facts(["poly"])
    lexpr = db.crate("lexpr")
    serde = db.crate("serde_lexpr")
    ctx.explanation = (
        "Who-may-call plus per-site dataflow obligations over the MIR. Every call to an unchecked bytes->str/String/char "
        "conversion (and every transmute to those types) must be one of the reviewed sites. For each site the bytes "
        "that can reach it are bounded structurally: the printer's only byte sources are constants < 0x80, str::as_bytes "
        "of a &str, all-ASCII statics and range-guarded ASCII casts; the scanners feeding StrRead's unchecked closures "
        "cut the (valid) input only at ASCII bytes (class extraction over all 256 bytes) and write to the scratch buffer "
        "only constants < 0x80, whole &str bytes, char::encode_utf8 output or input sub-slices; every function that "
        "writes a raw byte to the scratch is shown unreachable from those scanners and its consumers use the checked "
        "as_str; unchecked readers are dominated by scratch.clear() or by decode_utf8_sequence, whose Ok is dominated by "
        "a successful str::from_utf8. These facts hold for every input because they quantify over program paths.")
    ctx.trusted = ["std::str::from_utf8 / char::encode_utf8 / String validity invariants", "itoa and ryu emit ASCII",
                   "core::fmt emits valid UTF-8 for integer formatting"]
    unchecked_sites(ctx, (lexpr, serde, db.crate("lexpr_macros")), "default")
    print_utf8(ctx, lexpr)
    ascii_cut(ctx, lexpr)
    scratch_rules(ctx, lexpr)
    strread_ctor(ctx, lexpr)
    if ctx.tier == "thorough":
        db2 = ctx.facts(["nofast"])
        nf = db2.crate("lexpr", "nofast")
        unchecked_sites(ctx, (nf,), "nofast")
        scratch_rules(ctx, nf, suffix="/nofast")
        r = ctx.rule("R-SCRATCH-CLEAR/f64", "the non-fast f64_from_parts converts the scratch unchecked only after "
                                             "clearing it and filling it with &str bytes / ASCII constants")
        f = nf.fn("parse::Parser::<R>::f64_from_parts")
        if f is None:
            r.anchor_missing("f64_from_parts (nofast)")
        else:
            idom = cfg.dominators(f)
            sites = [bi for bi, t in f.calls() if t["callee"].get("path", "").endswith("from_utf8_unchecked")]
            if not sites:
                r.ok("no unchecked conversion in f64_from_parts any more", f)
            for bi in sites:
                okd, why = _dominated_by_clean_fill(f, idom, bi, nf)
                if okd:
                    r.ok("from_utf8_unchecked(&self.scratch) %s with only UTF-8-whole writes in between" % why, f,
                         f.blocks[bi]["term"].get("line"))
                else:
                    r.violation(f.path, "unclean-scratch->from_utf8_unchecked",
                                "f64_from_parts converts a scratch buffer that is not provably cleared and ASCII-filled (%s)" % why,
                                f.loc(f.blocks[bi]["term"].get("line")))
        witnesses(ctx)
        from .. import selftest
        selftest.check_unchecked(ctx, ctx.rule("CONTROLS", "positive controls: the detectors fire on the seeded fixtures crate"))


# ---------------------------------------------------------------- (A)
def unchecked_sites(ctx, crates, config):
    r = ctx.rule("R-UNCHECKED-SITES" + ("" if config == "default" else "/" + config),
                 "unchecked conversions to str/String/char occur only at the reviewed sites")
    from ..report import Pool
    table = load_table("unchecked.json")[config]
    pool = Pool(table, config)
    n = 0
    for crate in crates:
        if crate is None:
            continue
        for fn in crate.fns:
            for bi, b in enumerate(fn.blocks):
                if b.get("cleanup"):
                    continue
                t = b["term"]
                hits = []
                if t["k"] == "call":
                    p = t["callee"].get("path", "")
                    last = p.rsplit("::", 1)[-1]
                    if last in UNCHECKED and ("str" in p or "string" in p.lower() or "char" in p):
                        hits.append(p)
                    if p.endswith("intrinsics::transmute") or p.endswith("mem::transmute"):
                        to = " ".join(t["callee"].get("substs", [])[1:2])
                        if _stringy(to):
                            hits.append("transmute->" + to)
                for s in b["stmts"]:
                    if s["k"] == "assign" and s["rv"]["k"] == "cast" and s["rv"]["ck"].startswith("Transmute"):
                        if _stringy(s["rv"]["to"]) and not s["rv"]["from"].startswith("std::ptr::NonNull<"):
                            hits.append("transmute->" + s["rv"]["to"])
                for h in hits:
                    n += 1
                    owner = "%s::%s" % (crate.name, fn.path)

                    def on_bad(crate=crate, fn=fn, h=h, t=t, why=""):
                        r.violation("%s::%s" % (crate.name, fn.path), h,
                                    "%s::%s performs the unchecked conversion %s, which is not one of the reviewed "
                                    "sites%s: nothing shows that the bytes are well-formed UTF-8" % (crate.name, fn.path, h, why),
                                    fn.loc(t.get("line")))

                    def on_ok(ent, moved, crate=crate, fn=fn, h=h, t=t, on_bad=on_bad):
                        # a reviewed conversion may move into a private helper of the same file (its callers are then
                        # the functions it was reviewed for); a public or foreign-file home is a new site
                        if moved:
                            src = crate.fn(moved.split("::", 1)[1]) if "::" in moved else None
                            same_file = src is None or src.file == fn.file
                            if fn.is_pub or not same_file:
                                on_bad(why=" (it moved out of %s into a %s function)" % (moved, "public" if fn.is_pub else "different file's"))
                                return
                        r.ok("%s | %s (reviewed%s: %s)" % (fn.path, h, " for %s, moved" % moved if moved else "", ent["reason"]),
                             fn, t.get("line"))

                    pool.site(owner, h, on_ok, on_bad)
    pool.settle()
    if pool.unused():
        r.note("reviewed conversions no longer present: %s" % sorted(pool.unused().items()))
    r.floor("sites", n)


def _stringy(t):
    t = t.replace(" ", "")
    return t in ("&str", "&mutstr", "std::string::String", "char", "*conststr", "*mutstr",
                 "std::boxed::Box<str>", "&'static str".replace(" ", ""))


# ---------------------------------------------------------------- (B)
def _all_ascii(bs):
    return all(0 <= b < 0x80 for b in bs)


def print_utf8(ctx, lexpr):
    """Every byte handed to the sink by print.rs is ASCII or part of a str: decided by abstract evaluation of each
    entry point of the printer (Formatter methods, public functions, closures, helpers without local callers) with
    its parameters ranging over their whole type (char: every scalar value, u8: 0..=255, enums: every variant),
    intervals refined at comparisons, private helpers looked through, `str::as_bytes` UTF-8 by type."""
    from ..sim import Adt, Bytes, Rng, Utf8, Tup, Ref, UNK
    r = ctx.rule("R-PRINT-UTF8", "every byte the printer hands to the sink is ASCII or belongs to a str (all values of "
                                 "the parameters' types)")
    fwd = common.sink_forwarders(lexpr)
    pfns = [f for f in lexpr.fns if common.in_file(f, "lexpr/src/print.rs")]
    by_path = {f.path: f for f in pfns}

    def sink_sites(f):
        out = []
        for bi, t in f.calls():
            c = t["callee"]
            if c.get("trait") == "std::io::Write" and c.get("method") in ("write_all", "write", "write_vectored", "write_fmt"):
                out.append((bi, t, c.get("method")))
        return out

    callers = {}
    for f in pfns:
        for bi, t in f.calls():
            c = t["callee"]
            tg = c.get("resolved") or c.get("path")
            if tg in by_path:
                callers.setdefault(tg, set()).add(f.owner if f.kind == "closure" else f.path)
    recursive = {f.path for f in pfns if any((t["callee"].get("resolved") or t["callee"].get("path")) == f.path for _, t in f.calls())}

    def is_entry(f):
        if f.kind == "closure":
            return True
        if f.impl_trait or f.path.startswith("print::Formatter::") or f.is_pub:
            return True
        return not (callers.get(f.path, set()) - {f.path})

    entries = [f for f in pfns if is_entry(f)]
    inline = lambda a, b: b.path in by_path and b.path not in recursive and not is_entry(b)

    def sym_for(ty):
        t = ty.replace("&'static ", "&").replace("&mut ", "&").lstrip("&")
        if t == "char":
            return [Rng(0, 0x10FFFF)]
        if t in sim.INT_BITS and t != "bool":
            lo, hi = sim._ty_range(t)
            return [Rng(lo, hi)]
        a = lexpr.adts.get(t)
        if a and a["kind"] == "enum" and len(a["variants"]) <= 16:
            vals = []
            for v in a["variants"]:
                fs = []
                for fl in v["fields"]:
                    x = sym_for(fl["ty"])
                    fs.append(x[0] if len(x) == 1 else UNK)
                vals.append(Adt(t, v["idx"], fs, v["name"]))
            return vals
        return [UNK]

    def classify(v, S, p):
        v = S._deref(v, p)
        if isinstance(v, Utf8):
            return True, "bytes of a str"
        if isinstance(v, Bytes):
            bs = bytes(v.b)
            try:
                bs.decode("utf-8")
                return True, "constant %r" % bs[:12]
            except UnicodeDecodeError:
                return False, "constant %r is not UTF-8" % bs[:12]
        if isinstance(v, Tup):
            parts = []
            for x in v.fields:
                x = S._deref(x, p)
                if isinstance(x, int) and 0 <= x < 0x80:
                    parts.append("0x%02X" % x)
                elif isinstance(x, Rng) and 0 <= x.lo and x.hi < 0x80:
                    parts.append("%d..=%d" % (x.lo, x.hi))
                else:
                    return False, "an element may be %r (not below 0x80)" % (x,)
            return True, "[" + ", ".join(parts) + "]"
        if isinstance(v, Rng):
            return (0 <= v.lo and v.hi < 0x80), "byte in %r" % (v,)
        return False, "bytes not determined (%r)" % (v,)

    import re as _re

    def by_type_hook(S, fn, bb, t, args, path):
        """Items of an unknown byte slice (`for octet in bytes`): any u8, by type."""
        nm = F.callee_names(t)
        if "std::iter::Iterator::next" in nm:
            st = (t["callee"].get("substs") or [""])[0]
            m = _re.match(r"std::slice::Iter<'_, (u8|u16|u32|u64|usize)>$", st)
            d0 = S._deref(args[0], path) if args else None
            if m and not (isinstance(d0, Adt) and d0.adt == "sim::SliceIter"):
                lo, hi = sim._ty_range(m.group(1))
                return ("fork", [Adt("std::option::Option", 0, []),
                                 Adt("std::option::Option", 1, [Ref([Rng(lo, hi)], 0, ())])])
        return None

    static_sites = {}
    for f in pfns:
        for bi, t, m in sink_sites(f):
            static_sites[(f.path, bi)] = (f, t, m)
        for bi, t in f.calls():
            if (t["callee"].get("resolved") or t["callee"].get("path")) in fwd:
                static_sites[(f.path, bi)] = (f, t, "forwarder")
    def relevant(f, seen=None):
        """Does the entry (with the helpers looked through from it) contain a write to the sink at all?"""
        seen = seen if seen is not None else set()
        if f.path in seen:
            return False
        seen.add(f.path)
        if any(k[0] == f.path for k in static_sites):
            return True
        for bi, t in f.calls():
            g = by_path.get(t["callee"].get("resolved") or t["callee"].get("path"))
            if g is not None and inline(f, g) and relevant(g, seen):
                return True
        return False

    covered = {}
    bad = {}
    # closures last: one that the evaluation of another entry point has called with the values it really gets
    # (a helper invoking its closure parameter) is not evaluated again with arguments ranging over their whole type
    entries.sort(key=lambda f: f.kind == "closure")
    entered = set()
    for f in entries:
        if f.kind == "closure" and (f.path in entered or f.owner in fwd):
            continue
        argsets = [dict()]
        for i in range(1, f.arg_count + 1):
            vals = sym_for(f.local_ty(i))
            if vals == [UNK]:
                continue
            argsets = [dict(list(a.items()) + [(i, v)]) for a in argsets for v in vals][:64]
        for args in argsets:
            S = sim.Sim([lexpr], hooks={"call": by_type_hook}, inline=inline, max_paths=6000, max_depth=6, max_visits=3)
            S.utf8_by_type = True
            try:
                # fresh symbolic quantities per run (they are refined in place)
                a2 = {k: S._copy_val(v, {}) for k, v in args.items()}
                paths = S.run(f, args=a2)
            except sim.Limit:
                if relevant(f):
                    r.violation(f.path, "inexact", "path limit while evaluating %s" % f.path, f.loc())
                continue
            for p in paths:
                stack = []        # (callee path, caller fn, caller block) of the helpers currently looked through
                for ev in p.events:
                    if ev[0] == "enter":
                        stack.append((ev[1], ev[2], ev[3]))
                        if "{closure" in ev[1]:
                            entered.add(ev[1])
                        continue
                    if ev[0] == "leave":
                        if stack and stack[-1][0] == ev[1]:
                            stack.pop()
                        continue
                    if ev[0] != "call":
                        continue
                    names = ev[1]
                    site = (ev[3], ev[4])
                    if site not in static_sites:
                        continue
                    owner = ev[3].split("::{closure", 1)[0]
                    frame = next((fr for fr in reversed(stack) if fr[0] == owner), None) if owner in fwd else None
                    if frame is not None and (frame[1], frame[2]) in static_sites:
                        # the write_all inside a forwarding helper (or a closure of it) belongs to the call site of the helper
                        okc, desc = classify(ev[6][1] if len(ev[6]) > 1 else None, S, p)
                        csite = (frame[1], frame[2])
                        if okc:
                            covered.setdefault(csite, desc + " (through %s)" % ev[3].rsplit("::", 1)[-1])
                        else:
                            bad[csite] = desc
                        continue
                    g, t, m = static_sites[site]
                    if m == "write_fmt":
                        covered[site] = "write! (core::fmt emits str fragments only)"
                        continue
                    if m in ("write", "write_vectored"):
                        if not (g.impl_trait == "std::io::Write"):
                            bad[site] = "calls io::Write::%s directly" % m
                        covered.setdefault(site, "raw write")
                        continue
                    if m == "forwarder":
                        continue        # the helper's own write_all is observed when it is looked through / evaluated
                    okc, desc = classify(ev[6][1] if len(ev[6]) > 1 else None, S, p)
                    if okc:
                        covered.setdefault(site, desc)
                    else:
                        bad[site] = desc
    n = 0
    for site, (g, t, m) in sorted(static_sites.items(), key=lambda x: (x[0][0], x[0][1])):
        if g.path.split("::{closure", 1)[0] in fwd:
            continue          # accounted for at the helper's call sites
        n += 1
        if site in bad:
            r.violation(g.path, "write_all-source",
                        "%s writes bytes that are not provably UTF-8 (%s); they end up in the String returned by to_string "
                        "via String::from_utf8_unchecked" % (g.path, bad[site]), g.loc(t.get("line")))
        elif site in covered:
            r.ok("%s line %s: %s" % (g.path, t.get("line"), covered[site]), g, t.get("line"))
        else:
            r.violation(g.path, "write_all-uncovered",
                        "the write at line %s of %s is not reached by the evaluation of any printer entry point; its bytes "
                        "are not established" % (t.get("line"), g.path), g.loc(t.get("line")))
    r.floor("sink-writes", n)


# ---------------------------------------------------------------- (C)
def ascii_cut(ctx, lexpr):
    r = ctx.rule("R-ASCII-CUT", "every byte at which a scanner cuts a slice out of str input is ASCII")
    S = sim.Sim([lexpr])
    f = lexpr.fn("parse::read::needs_escape")
    if f is None:
        r.anchor_missing("parse::read::needs_escape")
    else:
        stop = set()
        inexact = False
        for b in range(256):
            rets = {repr(p.ret) for p in S.run(f, args={1: b})}
            if rets == {"1"}:
                stop.add(b)
            elif rets != {"0"}:
                inexact = True
        if inexact:
            r.violation("parse::read::needs_escape", "inexact", "cannot extract the stop class of needs_escape")
        elif not stop:
            r.anchor_missing("needs_escape never returns true")
        elif max(stop) >= 0x80:
            r.violation("parse::read::needs_escape", "non-ascii-stop",
                        "the string scanners stop (and cut the input slice) at non-ASCII byte(s) %s: a multi-byte "
                        "character can be split and handed to from_utf8_unchecked" % lex.fmt_bytes(b for b in stop if b >= 0x80))
        else:
            r.ok("string scanners stop only at %s (all ASCII)" % lex.fmt_bytes(stop), f)
        # the arms that follow the scan loop must cover exactly the stop class (the rest is unreachable!())
        for fname in ("parse::read::SliceRead::<'a>::parse_r6rs_str_bytes", "parse::read::SliceRead::<'a>::parse_elisp_str_bytes"):
            g = lexpr.fn(fname)
            if g is None:
                r.anchor_missing(fname)
                continue
            handled = None
            # the scanner itself, or the worker it delegates to (a shared / generic scanning loop)
            cands = [g]
            for _bi, t0 in g.calls():
                c0 = t0["callee"]
                h = lexpr.fn(c0.get("resolved") or c0.get("path") or "")
                if h is not None and h.kind != "closure" and common.in_file(h, *PARSE_FILES) and h.path != g.path \
                        and (h.self_ty or "").startswith("parse::read::SliceRead"):
                    cands.append(h)
            for gg in cands:
                for bi, b in enumerate(gg.blocks):
                    t = b["term"]
                    if t["k"] == "switch" and t["ty"] == "u8" and not b.get("cleanup"):
                        # the otherwise arm leads to the unreachable!() panic
                        if _leads_to_panic(gg, t["otherwise"]):
                            handled = {v for v, _ in t["targets"]}
            if handled is None:
                # no arm of a byte match in the scanner (or the workers it delegates to) ends in a panic: there is no
                # `unreachable!()` whose reachability would have to be argued
                r.ok("%s: no match on the stop byte has a panicking default" % fname, g)
            elif stop <= handled:
                r.ok("%s: arms %s cover the stop class, unreachable!() is unreachable" % (fname, lex.fmt_bytes(handled)), g)
            else:
                r.violation(fname, "unreachable-arm-reachable",
                            "%s: the scan loop stops at %s but the match only handles %s; the `unreachable!()` arm "
                            "panics on %s" % (fname, lex.fmt_bytes(stop), lex.fmt_bytes(handled), lex.fmt_bytes(stop - handled)))
    # symbol scanner over a slice: terminator class
    g = lexpr.fn("parse::read::SliceRead::<'a>::parse_symbol_bytes")
    if g is None:
        r.anchor_missing("SliceRead::parse_symbol_bytes")
        return
    from .. import classes
    try:
        term, cont = classes.scanner_classes(lexpr, g.path)
    except classes.Inexact as e:
        r.violation(g.path, "inexact", "cannot classify the bytes of the slice symbol scanner: %s" % e)
        return
    nonascii = {b for b in term if b is not None and b >= 0x80}
    if not term - {None}:
        r.anchor_missing("slice symbol scanner has no terminator bytes")
    elif nonascii:
        r.violation(g.path, "non-ascii-terminator",
                    "the slice symbol scanner stops at non-ASCII byte(s) %s: StrRead would cut a symbol inside a "
                    "multi-byte character and convert it unchecked" % lex.fmt_bytes(nonascii))
    else:
        r.ok("slice symbol scanner terminators %s are all ASCII" % lex.fmt_bytes(term), g)


def _leads_to_panic(fn, b, depth=0):
    seen = set()
    st = [b]
    while st and len(seen) < 6:
        x = st.pop()
        if x in seen:
            continue
        seen.add(x)
        t = fn.blocks[x]["term"]
        if t["k"] == "call" and t["callee"].get("path", "").startswith("core::panicking::"):
            return True
        if t["k"] in ("goto",):
            st.append(t["t"])
    return False


# ---------------------------------------------------------------- (D)(E)(F)
SCRATCH_WRITES = ("push", "extend_from_slice", "extend", "insert", "append", "resize", "extend_from_within",
                  "set_len", "push_within_capacity", "truncate_front")


def _is_scratch(fn, defs, op):
    o = common.origin(fn, defs, op)
    if o["k"] == "param":
        return fn.local_name(o["l"]) == "scratch" or "Vec<u8>" in fn.local_ty(o["l"])
    if o["k"] == "place":
        return "scratch" in common.field_names(o["pl"])
    if o["k"] == "multi":
        return "Vec<u8>" in fn.local_ty(o["l"]) and fn.local_name(o["l"]) == "scratch"
    return False


def _pushed_values(fn, t, crate):
    """Values the push at terminator `t` of `fn` receives when `fn` is evaluated with its first read delivering
    each byte value (and end of input); None if the site is not reached before a second read or a value is unknown."""
    site_line = t.get("line")
    vals = set()
    seen = False
    for d in list(range(256)) + [None]:
        S = lex.make_sim([crate], d, light=True)
        try:
            paths = S.run(fn)
        except sim.Limit:
            return None
        for p in paths:
            for ev in p.events:
                if ev[0] == "call" and ev[3] == fn.path and ev[5] == site_line and any(n.endswith("::push") for n in ev[1]):
                    seen = True
                    v = ev[6][1] if len(ev[6]) > 1 else None
                    if not isinstance(v, int):
                        return None
                    vals.add(v)
    return vals if seen else None


def classify_scratch_write(fn, defs, t, crate):
    p = t["callee"].get("path", "")
    m = p.rsplit("::", 1)[-1]
    if t["callee"].get("trait") == "std::iter::Extend":
        m = "extend"
    a = t["args"][1] if len(t["args"]) > 1 else None
    if m == "push":
        c = common.const_int(a)
        if c is not None and 0 <= c < 0x80:
            return "ascii-const", "push(0x%02X)" % c
        # an entry of a static byte table whose entries are all ASCII (`scratch.push(ESCAPE_TABLE[ch as usize])`)
        o = common.origin(fn, defs, a)
        if o["k"] == "place" and any(isinstance(e, dict) and ("i" in e or "ci" in e) for e in o["pl"]["p"]):
            ds = defs.get(o["pl"]["l"], [])
            if len(ds) == 1 and ds[0][1] != "term" and ds[0][2]["k"] == "use" and ds[0][2]["op"].get("static"):
                bs = crate.static_bytes(ds[0][2]["op"]["static"])
                if bs is not None and len(bs) > 0 and all(0 <= x < 0x80 for x in bs):
                    return "ascii-const", "push of an entry of the all-ASCII table %s" % ds[0][2]["op"]["static"]
        # a byte chosen by a match on the byte just read (`let unescaped = match ch { b'n' => b'\n', .. }`): the
        # function is evaluated for every value of that byte; every value this push can receive must be ASCII
        vals = _pushed_values(fn, t, crate)
        if vals is not None and vals and all(isinstance(x, int) and 0 <= x < 0x80 for x in vals):
            return "ascii-const", "push of one of the ASCII bytes %s (evaluated for all 256 values of the byte read)" % \
                lex.fmt_bytes(sorted(vals))
        return "RAW", "push of a non-constant byte"
    if m in ("extend_from_slice", "extend"):
        o = common.origin(fn, defs, a)
        if o["k"] == "call":
            pp = o["t"]["callee"].get("path", "")
            if pp.endswith("<impl str>::as_bytes"):
                # char::encode_utf8(..).as_bytes() or &str bytes: whole UTF-8 either way
                return "str-bytes", "bytes of a &str"
            # a sub-slice of the input, possibly of a sub-slice of it (`rest = &self.slice[start..]; &rest[..len]`)
            cur = o
            for _ in range(4):
                if not (cur["k"] == "call" and cur["t"]["callee"].get("trait") == "std::ops::Index"):
                    break
                b0 = common.origin(fn, defs, cur["t"]["args"][0])
                if b0["k"] == "place" and "slice" in common.field_names(b0["pl"]):
                    return "input-subslice", "self.slice[a..b]"
                cur = b0
        return "RAW", "extend from an unrecognised source"
    return "RAW", m


def scratch_rules(ctx, lexpr, suffix=""):
    r = ctx.rule("R-SCRATCH-UTF8" + suffix,
                 "scratch writes keep whole UTF-8, except in functions that feed only checked conversions")
    writers = {}      # fn path -> list of (class, desc, line)
    for fn in lexpr.fns:
        if not common.in_file(fn, *PARSE_FILES):
            continue
        defs = None
        for bi, t in fn.calls():
            p = t["callee"].get("path", "")
            m = p.rsplit("::", 1)[-1]
            is_vec = p.startswith("std::vec::Vec::<T, A>::") or t["callee"].get("trait") == "std::iter::Extend"
            if not is_vec or not t["arg_tys"] or "Vec<u8>" not in t["arg_tys"][0]:
                continue
            if m not in SCRATCH_WRITES and t["callee"].get("trait") != "std::iter::Extend":
                continue
            if defs is None:
                defs = common.defs_of(fn)
            if not _is_scratch(fn, defs, t["args"][0]):
                continue
            cls, desc = classify_scratch_write(fn, defs, t, lexpr)
            writers.setdefault(fn.path, []).append((cls, desc, t.get("line")))
    nwrites = sum(len(v) for v in writers.values())
    r.floor("scratch-writes", nwrites)
    raw_fns = sorted(p for p, ws in writers.items() if any(c == "RAW" for c, _, _ in ws))
    table = load_table("scratch_raw.json")
    g = reach.build_graph(lexpr)
    # scanners that can end in an unchecked conversion: the delegate fns StrRead hands its closures to
    unchecked_feeders = set()
    for fn in lexpr.fns:
        if fn.kind == "closure" and any(t["callee"].get("path", "").endswith("from_utf8_unchecked") for _, t in fn.calls()):
            owner = lexpr.fn(fn.owner)
            if owner is None:
                continue
            for bi, t in owner.calls():
                c = t["callee"]
                tgt = c.get("resolved") or c.get("path")
                if tgt in g and tgt != fn.path and any(a.get("c") in ("move", "copy") for a in t["args"]):
                    # the call that receives the closure
                    if any("closure" in ty for ty in t.get("arg_tys", [])):
                        unchecked_feeders.add(tgt)
    if not unchecked_feeders and not suffix:
        r.anchor_missing("no scanner receiving an unchecked-conversion closure was found (StrRead::parse_r6rs_str / parse_symbol)")
    r.note("scanners feeding unchecked conversions: %s" % sorted(unchecked_feeders))
    feeder_reach = mono_reach(ctx, lexpr, unchecked_feeders) if not suffix else reach.typed_reachable(lexpr, unchecked_feeders)
    for p in sorted(writers):
        fn = lexpr.fn(p)
        for cls, desc, line in writers[p]:
            if cls != "RAW":
                r.ok("%s: %s (%s)" % (p, desc, cls), fn, line)
    for p in raw_fns:
        fn = lexpr.fn(p)
        ent = table.get(p)
        nraw = sum(1 for c, _, _ in writers[p] if c == "RAW")
        if p in feeder_reach:
            r.violation(p, "raw-write-on-unchecked-path",
                        "%s writes a raw (non-constant) byte to the scratch buffer and is reachable from %s, whose "
                        "result is converted with from_utf8_unchecked" % (p, sorted(unchecked_feeders)), fn.loc())
        else:
            r.ok("%s: %d raw write(s), unreachable from the unchecked scanners, and unchecked readers start from a "
                 "cleared scratch (R-SCRATCH-CLEAR)%s" % (p, nraw, " - " + ent["reason"] if ent else ""), fn)

    # (E) unchecked readers start from a cleared / validated scratch
    r2 = ctx.rule("R-SCRATCH-CLEAR" + suffix,
                  "calls that may convert the scratch unchecked are dominated by scratch.clear() or a validating fill")
    readers = ("parse::read::Read::parse_symbol", "parse::read::Read::parse_r6rs_str")
    n = 0
    for fn in lexpr.fns:
        if not common.in_file(fn, "lexpr/src/parse/mod.rs"):
            continue
        calls = [(bi, t) for bi, t in fn.calls() if any(x in F.callee_names(t) for x in readers)]
        if not calls:
            continue
        idom = cfg.dominators(fn)
        for bi, t in calls:
            n += 1
            okd, why = _dominated_by_clean_fill(fn, idom, bi, lexpr)
            nm = [x for x in readers if x in F.callee_names(t)][0].rsplit("::", 1)[1]
            if okd:
                r2.ok("%s: %s(scratch) %s" % (fn.path, nm, why), fn, t.get("line"))
            else:
                # the function may itself be called only with a clean scratch: check its callers
                callers_ok, cw = _callers_clean(fn, lexpr)
                if callers_ok:
                    r2.ok("%s: %s(scratch): every caller %s" % (fn.path, nm, cw), fn, t.get("line"))
                else:
                    r2.violation(fn.path, "unclean-scratch->%s" % nm,
                                 "%s calls Read::%s with a scratch buffer that is not provably empty or validated (%s): "
                                 "StrRead converts scratch + input unchecked" % (fn.path, nm, cw or why), fn.loc(t.get("line")))
    r2.floor("reader-calls", n)

    # (F) decode_utf8_sequence validates what it pushed
    r3 = ctx.rule("R-UTF8-SELFCHECK" + suffix, "decode_utf8_sequence returns Ok only behind a successful str::from_utf8 "
                                               "over the buffer it filled")
    f = lexpr.fn("parse::read::decode_utf8_sequence")
    if f is None:
        r3.anchor_missing("parse::read::decode_utf8_sequence")
    else:
        idom = cfg.dominators(f)
        is_fu = lambda t: t["callee"].get("path", "").endswith("str::from_utf8") or \
            t["callee"].get("path", "") in ("std::str::from_utf8", "core::str::from_utf8")
        # a local wrapper that validates (`as_str(read, bytes) -> Result<&str>`: str::from_utf8 with the error mapped)
        validators = {g.path for g in lexpr.fns if g.kind != "closure" and g.file.endswith(("parse/read.rs", "parse/mod.rs"))
                      and g.local_ty(0).startswith("std::result::Result<&") and "str" in g.local_ty(0).split(",")[0]
                      and any(is_fu(t) for _b, t in g.calls())
                      and not any(n.endswith("from_utf8_unchecked") for _b, t in g.calls() for n in F.callee_names(t))}
        is_val = lambda t: is_fu(t) or (t["callee"].get("resolved") or t["callee"].get("path")) in validators
        fu = [bi for bi, t in f.calls() if is_val(t)]
        oks = []
        fdefs = common.defs_of(f)
        mapped_ok = False
        for bi, t in f.calls():
            # `as_str(read, scratch).map(|s| ..)` as the return value: Ok only where the validation gave Ok
            if not t["dest"]["p"] and t["dest"]["l"] == 0 and t["callee"].get("path", "") in (
                    "std::result::Result::<T, E>::map", "std::result::Result::<T, E>::and_then") and t["args"]:
                o = common.origin(f, fdefs, t["args"][0])
                if o["k"] == "call" and is_val(o["t"]):
                    mapped_ok = True
        for bi, b in enumerate(f.blocks):
            for s in b["stmts"]:
                if s["k"] == "assign" and s["place"]["l"] == 0 and not s["place"]["p"] and s["rv"]["k"] == "agg" \
                        and s["rv"].get("adt", "").endswith("Result") and s["rv"]["variant"] == 0:
                    oks.append(bi)
        if not fu:
            r3.violation(f.path, "no-validation", "decode_utf8_sequence no longer calls str::from_utf8 on the bytes it read")
        elif not oks and mapped_ok:
            r3.ok("decode_utf8_sequence returns the validation's own result, mapped: Ok only behind a successful str::from_utf8", f)
        elif not oks:
            r3.anchor_missing("decode_utf8_sequence has no Ok(..) return")
        else:
            bad = [b for b in oks if not any(cfg.dominates(idom, x, b) and x != b for x in fu)]
            if bad:
                r3.violation(f.path, "ok-not-validated", "an Ok return of decode_utf8_sequence is not dominated by the "
                                                          "from_utf8 check", f.loc(f.blocks[bad[0]]["term"].get("line")))
            else:
                r3.ok("every Ok return of decode_utf8_sequence is dominated by str::from_utf8", f)


CLEAN_FILLS = ("std::vec::Vec::<T, A>::clear",)


def _dominated_by_clean_fill(fn, idom, bi, crate):
    """Walk the dominator chain upwards from the reader call: we must meet scratch.clear()
    (or decode_utf8_sequence / a clean-filling local fn) before any other scratch write."""
    defs = common.defs_of(fn)
    chain = cfg.dom_set(idom, bi)[1:]
    # all blocks between a dominator D and bi (on any path) must not write raw to scratch
    for d in chain:
        t = fn.blocks[d]["term"]
        if t["k"] != "call":
            continue
        p = t["callee"].get("path", "")
        names = F.callee_names(t)
        if p in CLEAN_FILLS and t["arg_tys"] and "Vec<u8>" in t["arg_tys"][0]:
            return _no_dirty_between(fn, defs, d, bi, crate), "after scratch.clear()"
        if any(n.startswith("parse::") and n.endswith("::decode_utf8_sequence") for n in names):
            return _no_dirty_between(fn, defs, d, bi, crate), "after decode_utf8_sequence(..)?"
    return False, "no dominating scratch.clear()"


def _no_dirty_between(fn, defs, d, bi, crate):
    region = cfg.reachable(fn, fn.blocks[d]["term"].get("t", d), avoid=[bi])
    # only blocks from which the reader call can still be reached matter
    back = set()
    st = [bi]
    preds = fn.pred_map()
    while st:
        x = st.pop()
        if x in back:
            continue
        back.add(x)
        st.extend(preds[x])
    region &= back
    for x in region:
        t = fn.blocks[x]["term"]
        if t["k"] != "call" or fn.is_cleanup(x):
            continue
        p = t["callee"].get("path", "")
        if (p.startswith("std::vec::Vec::<T, A>::") or t["callee"].get("trait") == "std::iter::Extend") \
                and t["arg_tys"] and "Vec<u8>" in t["arg_tys"][0]:
            m = p.rsplit("::", 1)[-1]
            if m in SCRATCH_WRITES or t["callee"].get("trait") == "std::iter::Extend":
                cls, _ = classify_scratch_write(fn, defs, t, crate)
                if cls == "RAW":
                    return False
        # handing &mut scratch to anything else than the readers is a potential dirty write
        for a_ty, a in zip(t.get("arg_tys", []), t["args"]):
            if a_ty == "&mut std::vec::Vec<u8>" and not p.startswith("std::vec::Vec::<T, A>::") \
                    and t["callee"].get("trait") != "std::iter::Extend":
                names = F.callee_names(t)
                if not any(n in names for n in ("parse::read::Read::parse_symbol", "parse::read::Read::parse_r6rs_str",
                                                "parse::read::decode_utf8_sequence")):
                    return False
    return True


def _callers_clean(fn, crate):
    callers = []
    for g in crate.fns:
        for bi, t in g.calls():
            c = t["callee"]
            if (c.get("resolved") or c.get("path")) == fn.path:
                callers.append((g, bi))
    if not callers:
        return False, "has no callers to justify it"
    for g, bi in callers:
        idom = cfg.dominators(g)
        okd, why = _dominated_by_clean_fill(g, idom, bi, crate)
        if not okd:
            return False, "caller %s: %s" % (g.path, why)
    return True, "clears or validates the scratch first (%d callers)" % len(callers)


def mono_reach(ctx, lexpr, feeders):
    """Functions (poly paths of lexpr) reachable in the monomorphic graph from any instance of a feeder."""
    db = ctx.facts(["mono"])
    m = db.mono()
    if m is None:
        raise build.MachineryError("monomorphic facts are missing")
    fdp = {lexpr.fn(p).d["dp"] for p in feeders if lexpr.fn(p) is not None}
    start = [i for i, n in enumerate(m.nodes) if n.get("dp") in fdp]
    if not start:
        raise build.MachineryError("monomorphic graph has no instance of the unchecked scanners %s" % sorted(feeders))
    seen = set()
    st = list(start)
    while st:
        x = st.pop()
        if x in seen:
            continue
        seen.add(x)
        for e in m.out.get(x, []):
            st.append(e["to"])
    out = set()
    for i in seen:
        n = m.nodes[i]
        if n["crate"] == "lexpr":
            f = lexpr.by_dp.get(n.get("dp"))
            if f is not None:
                out.add(f.path)
    return out


# ---------------------------------------------------------------- (G)
def strread_ctor(ctx, lexpr):
    r = ctx.rule("R-STRREAD-CTOR", "a StrRead is built only in StrRead::new from str::as_bytes of its &str argument")
    n = 0
    for fn in lexpr.fns:
        for bi, b in enumerate(fn.blocks):
            for s in b["stmts"]:
                if s["k"] == "assign" and s["rv"]["k"] == "agg" and s["rv"].get("adt") == "parse::read::StrRead":
                    n += 1
                    if fn.path != "parse::read::StrRead::<'a>::new":
                        r.violation(fn.path, "strread-built-elsewhere",
                                    "%s constructs a StrRead outside StrRead::new: its bytes are not known to come "
                                    "from a &str" % fn.path, fn.loc(s.get("line")))
                        continue
                    if fn.local_ty(1) not in ("&str", "&'a str"):
                        r.violation(fn.path, "strread-new-param", "StrRead::new takes %s, not &str" % fn.local_ty(1), fn.loc())
                        continue
                    defs = common.defs_of(fn)
                    o = common.origin(fn, defs, s["rv"]["fields"][0])
                    okc = False
                    if o["k"] == "call" and o["t"]["callee"].get("path", "").endswith("SliceRead::<'a>::new"):
                        o2 = common.origin(fn, defs, o["t"]["args"][0])
                        if o2["k"] == "call" and o2["t"]["callee"].get("path", "").endswith("<impl str>::as_bytes"):
                            o3 = common.origin(fn, defs, o2["t"]["args"][0])
                            okc = o3["k"] == "param" and o3["l"] == 1
                    if okc:
                        r.ok("StrRead::new(s: &str) wraps SliceRead::new(s.as_bytes())", fn, s.get("line"))
                    else:
                        r.violation(fn.path, "strread-bytes-origin",
                                    "StrRead::new no longer builds its delegate from s.as_bytes()", fn.loc(s.get("line")))
    r.floor("strread-aggregates", n)
    # no function hands out `&mut` access to SliceRead.slice / StrRead.delegate
    for fn in lexpr.fns:
        if fn.self_ty in ("parse::read::StrRead<'a>", "parse::read::SliceRead<'a>") and fn.is_pub:
            rt = fn.local_ty(0)
            if "&mut" in rt and ("[u8]" in rt or "SliceRead" in rt):
                r.violation(fn.path, "mut-access", "%s returns %s: mutable access to the input bytes" % (fn.path, rt), fn.loc())


# ---------------------------------------------------------------- (I)
def witnesses(ctx):
    r = ctx.rule("C17-T", "type-level witnesses: a StrRead cannot be built from bytes outside the crate "
                          "(compile_fail doc-tests, each paired with a compiling twin)")
    wdir = build._sync_lock(os.path.join(build.VERIF, "witness"))
    import tempfile
    import shutil
    # the privacy witness has to name StrRead's private field: under the name it has on this tree (rules/rename.py
    # records what the reviewed tree's `delegate` is called here)
    real = _real_field_name(ctx, "parse::read::StrRead", "delegate")
    extra_tmp = None
    if real != "delegate":
        if os.path.realpath(wdir).startswith(os.path.realpath(os.path.join(build.VERIF, "witness"))):
            extra_tmp = tempfile.mkdtemp(prefix="harness-", dir=build.WORK)
            dst = os.path.join(extra_tmp, "witness")
            shutil.copytree(wdir, dst, ignore=shutil.ignore_patterns("target"))
            wdir = dst
        lp = os.path.join(wdir, "src", "lib.rs")
        with open(lp) as fh:
            txt = fh.read()
        with open(lp, "w") as fh:
            fh.write(txt.replace("StrRead { delegate: d }", "StrRead { %s: d }" % real))
        r.note("StrRead's private field is called `%s` on this tree" % real)
    tgt = tempfile.mkdtemp(prefix="tgt-w-", dir=build.WORK)
    try:
        env = dict(os.environ, CARGO_NET_OFFLINE="true", CARGO_TARGET_DIR=tgt)
        p = subprocess.run(["cargo", "+nightly", "test", "--doc", "--offline"], cwd=wdir, env=env,
                           capture_output=True, text=True)
        out = p.stdout + p.stderr
        passed = out.count("... ok")
        failed = [l for l in out.splitlines() if "... FAILED" in l]
        if p.returncode == 0 and passed >= 4:
            r.ok("%d witness doc-tests (compile_fail + compiling twins) behave as required" % passed)
            r.floor("witnesses", passed)
        else:
            r.violation("witness", "witness-failed",
                        "a compile_fail witness compiled, or a compiling twin failed: %s\n%s" % (failed, out[-1500:]))
    finally:
        shutil.rmtree(tgt, ignore_errors=True)
        if extra_tmp:
            shutil.rmtree(extra_tmp, ignore_errors=True)


def _real_field_name(ctx, adt, reviewed):
    """What the field the reviewed tree calls `reviewed` is called on the tree under analysis."""
    import json
    p = os.path.join(ctx.db.dir, "renames.json") if ctx.db is not None else None
    if not p or not os.path.exists(p):
        return reviewed
    with open(p) as fh:
        plans = json.load(fh)
    for plan in plans.values():
        for new, old in (plan.get("members", {}).get(adt, {}).get("fields", {}) or {}).items():
            if old == reviewed:
                return new
        for new, old in (plan.get("tokens") or {}).items():
            if old == reviewed and any(("field of %s: `%s`" % (adt, new)) in n for n in plan.get("notes", [])):
                return new
    return reviewed
