"""C04  Serde round trip - shape compatibility and lossless widening only.

  R-SER-DE-SHAPE  for each Serde data-model category, every top-level value kind the serializer method
                  can produce is accepted (visitor call, not error) by the deserializer method serde pairs
                  with it; variant payloads produced by the *_variant serializers are consumed by the
                  matching VariantAccess method
  R-WIDEN         integer/float serializer methods widen with From (lossless), never with `as`;
                  deserialize_any / deserialize_<number> hand each stored representation to the visitor
                  method of the same payload type (visit_u64 / visit_i64 / visit_f64)
Not decided: identity on values, shape-ambiguous nestings, the text path.
"""
import re

from .. import common, facts as F, serde_shapes as ss

# serializer method (or collector end) -> paired deserializer methods
PAIRS = {
    "serialize_bool": ["deserialize_bool"], "serialize_char": ["deserialize_char"],
    "serialize_str": ["deserialize_str", "deserialize_string"],
    "serialize_bytes": ["deserialize_bytes", "deserialize_byte_buf"],
    "serialize_unit": ["deserialize_unit"], "serialize_unit_struct": ["deserialize_unit_struct"],
    "serialize_none": ["deserialize_option"], "serialize_some": ["deserialize_option"],
    "serialize_unit_variant": ["deserialize_enum"], "serialize_newtype_variant": ["deserialize_enum"],
    "serialize_i8": ["deserialize_i8"], "serialize_i16": ["deserialize_i16"], "serialize_i32": ["deserialize_i32"],
    "serialize_i64": ["deserialize_i64"], "serialize_u8": ["deserialize_u8"], "serialize_u16": ["deserialize_u16"],
    "serialize_u32": ["deserialize_u32"], "serialize_u64": ["deserialize_u64"], "serialize_f32": ["deserialize_f32"],
    "serialize_f64": ["deserialize_f64"],
    "SerializeSeq>::end": ["deserialize_seq"], "SerializeTuple>::end": ["deserialize_tuple"],
    "SerializeTupleStruct>::end": ["deserialize_tuple_struct"], "SerializeMap>::end": ["deserialize_map"],
    "SerializeStruct>::end": ["deserialize_struct"], "SerializeTupleVariant>::end": ["deserialize_enum"],
    "SerializeStructVariant>::end": ["deserialize_enum"],
}


def _built_with_cdr(serde, self_ty):
    """The access object is handed the payload when it is built: some place in value/de.rs constructs it with a field
    that comes from `Cons::cdr` (directly or wrapped in `Some`)."""
    base = (self_ty or "").split("<")[0]
    if not base:
        return False
    for g in serde.fns:
        if not g.file.endswith("value/de.rs"):
            continue
        defs = None
        for b in g.blocks:
            for st in b["stmts"]:
                if st["k"] == "assign" and st["rv"]["k"] == "agg" and st["rv"].get("adt") == base:
                    defs = defs or common.defs_of(g)
                    for op in st["rv"].get("fields") or []:
                        o = common.origin(g, defs, op)
                        for _ in range(3):
                            if o["k"] == "agg" and o["rv"].get("adt") == "std::option::Option" and o["rv"].get("fields"):
                                o = common.origin(g, defs, o["rv"]["fields"][0])
                        if o["k"] == "call" and any(x.endswith("Cons::cdr") for x in F.callee_names(o["t"])):
                            return True
    return False


def _lossless(frm, to):
    """Is `x as to` the identity on values for every x of type frm?"""
    from ..sim import _ty_range
    fl = {"f32": 24, "f64": 53}
    a, b = _ty_range(frm), _ty_range(to)
    if frm in fl and to in fl:
        return fl[to] >= fl[frm]
    if a is not None and b is not None and frm != "char" and to != "char":
        return b[0] <= a[0] and a[1] <= b[1]
    if a is not None and to in fl:
        return max(abs(a[0]), abs(a[1])) <= (1 << fl[to])
    return False


def widen(r2, serde):
    """Integer / float serializer methods store the number they are given: any `as` conversion on the way is one
    that cannot change the value (i32 -> i64, u32 -> u64, f32 -> f64), never a wrapping or rounding one."""
    nw = 0
    for f in serde.fns:
        if f.path.startswith(ss.SER + "serialize_") and re.search(r"serialize_[iuf]\d+$", f.path):
            nw += 1
            lossy = []
            for b in f.blocks:
                for s in b["stmts"]:
                    if s["k"] == "assign" and s["rv"]["k"] == "cast" and (
                            s["rv"]["ck"].startswith("IntToInt") or s["rv"]["ck"].startswith("IntToFloat")
                            or s["rv"]["ck"].startswith("FloatToInt") or s["rv"]["ck"].startswith("FloatToFloat")):
                        if not _lossless(s["rv"]["from"], s["rv"]["to"]):
                            lossy.append("%s as %s" % (s["rv"]["from"], s["rv"]["to"]))
            if lossy:
                r2.violation("serde_lexpr::" + f.path, "as-cast", "%s converts with `%s`, which does not keep every value" % (f.path, lossy[0]), f.loc())
            else:
                r2.ok("%s: value-preserving widening only" % f.path, f)
    r2.floor("numeric-serializers", nw)


def borrow_and_newtype(ctx, serde, lexpr, acc):
    from .. import sim
    from ..sim import Adt
    r = ctx.rule("R-BORROW", "strings, byte vectors and identifiers are handed to the visitor as data borrowed from the "
                             "value (targets that borrow, such as &str, implement only the borrowed visitor method)")
    want = {"deserialize_str": ("String", "visit_borrowed_str"), "deserialize_string": ("String", "visit_borrowed_str"),
            "deserialize_bytes": ("Bytes", "visit_borrowed_bytes"), "deserialize_byte_buf": ("Bytes", "visit_borrowed_bytes"),
            "deserialize_identifier": ("Symbol", "visit_borrowed_str")}
    for m, (kind, vis) in sorted(want.items()):
        a = acc.get(m)
        if a is None:
            r.anchor_missing("deserializer method " + m)
            continue
        got = a.get(kind)
        if got == vis:
            r.ok("%s on a %s value calls %s" % (m, kind, vis), serde.fn(ss.DE + m))
        elif m in ("deserialize_string", "deserialize_byte_buf") and got in ("visit_string", "visit_byte_buf", "visit_str", "visit_bytes", vis):
            r.ok("%s on a %s value calls %s (owned data is what this method is for)" % (m, kind, got), serde.fn(ss.DE + m))
        else:
            r.violation("serde_lexpr::" + ss.DE + m, "not-borrowed:%s" % m,
                        "%s answers a %s value with %s instead of %s: a target type that borrows from the value (&str, "
                        "&[u8], Cow with #[serde(borrow)]) serializes fine but cannot be read back"
                        % (m, kind, got, vis), serde.fn(ss.DE + m).loc() if serde.fn(ss.DE + m) else None)
    r2 = ctx.rule("R-NEWTYPE-SELF", "a newtype struct is transparent: deserialize_newtype_struct hands the visitor a "
                                    "deserializer over the very same value, for every kind of value")
    f = serde.fn(ss.DE + "deserialize_newtype_struct")
    if f is None:
        r2.anchor_missing("deserialize_newtype_struct")
        return
    inl = lambda a, b: (b.crate == serde.name and b.file.endswith("value/de.rs")) or \
                       (b.crate == "lexpr" and (b.file.endswith("value/mod.rs") or b.file.endswith("number.rs") or b.file.endswith("cons.rs")))
    n = 0
    for lab, val in ss.value_inputs(lexpr):
        de = Adt("value::de::Deserializer", 0, [ss._cell(val)])
        S = sim.Sim([serde, lexpr], hooks={"call": ss.de_hook}, inline=inl, max_depth=6, max_paths=3000)
        same, other = 0, []
        try:
            for p in S.run(f, args={1: ss._cell(de)}):
                if p.end != "return":
                    continue
                for e in p.events:
                    if e[0] == "visit":
                        arg = e[2][1] if len(e[2]) > 1 else None
                        inner = S._deref(arg.fields[0], p) if isinstance(arg, Adt) and arg.fields else None
                        if e[1] == "visit_newtype_struct" and inner is val:
                            same += 1
                        else:
                            other.append(e[1])
        except sim.Limit:
            r2.violation("serde_lexpr::" + f.path, "inexact:%s" % lab, "path limit")
            continue
        n += 1
        if same and not other:
            r2.ok("%s: the visitor gets a deserializer over the same value" % lab, f)
        else:
            r2.violation("serde_lexpr::" + f.path, "newtype-not-transparent:%s" % lab,
                         "for a %s value deserialize_newtype_struct does not pass the value through unchanged (%s): the "
                         "payload of a newtype struct is serialized as itself, so it is read back as something else"
                         % (lab, sorted(set(other)) or "no visit_newtype_struct on the value itself"), f.loc())
    r2.floor("value-kinds", n)


def top_kinds(term):
    """Value kinds (labels of serde_shapes.value_inputs) a canonical term can denote at top level."""
    t = term
    m = re.match(r"^Ok\((.*)\)$", t)
    if m:
        t = m.group(1)
    out = set()
    for alt in t.split(" | "):
        alt = re.sub(r"^Ok\((.*)\)$", r"\1", alt.strip())
        if alt.startswith("cons("):
            # the cdr decides which Cons case it is
            inner = alt[len("cons("):-1]
            depth = 0
            cut = None
            for i, ch in enumerate(inner):
                if ch == "(":
                    depth += 1
                elif ch == ")":
                    depth -= 1
                elif ch == "," and depth == 0:
                    cut = i
                    break
            cdr = inner[cut + 1:].strip() if cut is not None else "?"
            if cdr == "Null":
                out.add("Cons(cdr=Null)")
            elif cdr.startswith("list("):
                out |= {"Cons(cdr=Null)", "Cons(cdr=Cons)"}
            else:
                out |= {"Cons(cdr=Null)", "Cons(cdr=Cons)", "Cons(cdr=atom)"}
        elif alt.startswith("list("):
            out |= {"Null", "Cons(cdr=Null)", "Cons(cdr=Cons)"}
        elif alt.startswith("symbol("):
            out.add("Symbol")
        elif alt.startswith("from:i") or alt.startswith("from:u"):
            out |= {"Number(PosInt)", "Number(NegInt)"} if alt.startswith("from:i") else {"Number(PosInt)"}
        elif alt.startswith("from:f"):
            out.add("Number(Float)")
        elif alt.startswith("Vector("):
            out.add("Vector")
        elif alt == "Null":
            out.add("Null")
        elif re.match(r"^(Bool|Char|String|Bytes|Nil|Keyword)\b", alt):
            out.add(alt.split("(")[0])
        elif alt.startswith("ser("):
            out.add("*")
        else:
            out.add("?" + alt)
    return out


def run(ctx):
    db = ctx.facts(["poly"])
    serde = db.crate("serde_lexpr")
    lexpr = db.crate("lexpr")
    ctx.explanation = (
        "A value can only deserialize from its own serialization if, for every Serde category, what the serializer "
        "method emits at top level is something the paired deserializer method accepts. Both sides are extracted from "
        "the MIR (constructor terms of the 44 serializer methods; accept maps of the 29 deserializer methods over 15 "
        "input shapes) and the inclusion is checked per category, including the cons shapes ((x) for Some, (name . "
        "payload) / (name item...) for variants). Numeric methods must widen losslessly and number representations "
        "must reach the visitor method of their own payload type. Identity on values is not decided.")
    ctx.trusted = ["rustc nightly MIR", "serde's pairing of serialize_x with deserialize_x in derived impls"]
    terms = ss.serializer_terms(serde, lexpr)
    acc = ss.deserializer_accepts(serde, lexpr)
    r = ctx.rule("R-SER-DE-SHAPE", "top-level kinds produced per category are accepted by the paired deserializer method")
    n = 0
    for key, des in sorted(PAIRS.items()):
        cands = [k for k in terms if k.endswith("::" + key) or k.endswith(key)]
        if not cands:
            r.anchor_missing("serializer method " + key)
            continue
        for k in cands:
            kinds = top_kinds(terms[k])
            unknown = [x for x in kinds if x.startswith("?")]
            if unknown:
                r.violation("serde_lexpr::" + k, "term-unrecognised", "cannot classify the term `%s` produced by %s" % (terms[k], k))
                continue
            for d in des:
                a = acc.get(d)
                if a is None:
                    r.anchor_missing("deserializer method " + d)
                    continue
                n += 1
                rejected = sorted(x for x in kinds if x != "*" and not a.get(x, "").startswith("visit_"))
                if rejected:
                    r.violation("serde_lexpr::" + k, "rejected-by:%s" % d,
                                "%s produces `%s` (top-level kinds %s) but %s answers %s with an error: the value does "
                                "not deserialize from its own serialization" % (k, terms[k], sorted(kinds), d, rejected),
                                serde.fn(k).loc() if serde.fn(k) else None)
                else:
                    r.ok("%s -> %s accepted by %s" % (k.split(">::")[-1], sorted(kinds), d), serde.fn(k))
    r.floor("pairs", n)
    # variant payload routing
    va = {"newtype_variant_seed": "cdr", "tuple_variant": "deserialize_seq", "struct_variant": "deserialize_struct"}
    for m, want in sorted(va.items()):
        f = serde.fn("<value::de::VariantAccess<'de> as serde::de::VariantAccess<'de>>::" + m)
        if f is None:
            r.anchor_missing("VariantAccess::" + m)
            continue
        # callees of the method and of the local helpers it goes through (`self.content()`, `deserialize_value`)
        names = set()
        seen, work = set(), [f]
        while work:
            g = work.pop()
            if g.path in seen or len(seen) > 12:
                continue
            seen.add(g.path)
            for bi, t in g.calls():
                names |= F.callee_names(t)
                c = t["callee"]
                h = serde.fn(c.get("resolved") or c.get("path") or "") if c.get("resolved_crate", c.get("crate")) == serde.name else None
                if h is not None and h.file.endswith("value/de.rs") and not h.impl_trait:
                    work.append(h)
        uses_cdr = any(x.endswith("Cons::cdr") for x in names) or _built_with_cdr(serde, f.self_ty)
        routed = want == "cdr" or any(x.endswith("::" + want) for x in names)
        if uses_cdr and routed:
            r.ok("VariantAccess::%s consumes the cdr of the variant cell%s" % (m, "" if want == "cdr" else " through " + want), f)
        else:
            r.violation("serde_lexpr::" + f.path, "variant-payload", "VariantAccess::%s no longer takes the variant payload "
                                                                  "from the cdr%s" % (m, "" if want == "cdr" else " via " + want), f.loc())
    other = ss.other_deserializers(serde, lexpr)
    ro = ctx.rule("R-ONE-ACCEPT-MAP", "every type of the crate that implements serde::Deserializer answers each (method, "
                                      "value kind) pair like the value deserializer whose accept map is checked")
    if not other:
        ro.ok("value/de.rs has a single serde::Deserializer implementation")
    for ty, maps in sorted(other.items()):
        if maps is None:
            ro.violation("serde_lexpr::" + ty, "deserializer-unknown", "%s implements serde::Deserializer but its layout is not known" % ty)
            continue
        diffs = []
        for m, res in sorted(maps.items()):
            main = acc.get(m)
            if main is None:
                continue
            for lab, outc in sorted(res.items()):
                if outc != main.get(lab) and not (outc == "other" or "inexact" in outc or outc.startswith("?")):
                    diffs.append((m, lab, outc, main.get(lab)))
        if diffs:
            m, lab, outc, want = diffs[0]
            ro.violation("serde_lexpr::" + ty, "accept-map-differs",
                         "%s answers %d (method, value kind) pairs differently from the value deserializer, e.g. %s on a %s "
                         "value: %s instead of %s - what the serializer produced for that position is no longer read back "
                         "the same way" % (ty, len(diffs), m, lab, outc, want))
        else:
            ro.ok("%s: %d methods answer like the value deserializer" % (ty, len(maps)))
    borrow_and_newtype(ctx, serde, lexpr, acc)
    # the text path: every i64 / u64 written by the printer is read back as that integer (shared with C05)
    from . import c05
    c05.int_boundary(ctx.rule("R-INT-BOUNDARY", "parse_num_tail stores boundary magnitudes as the exact integer: "
                                                "[-2^63, 2^64-1] stays an integer, beyond that a float"), lexpr)
    # ... and every string the default printer writes is read back as the same string (shared with C01)
    from .. import roundtrip
    re_ = ctx.rule("R-ESC-R6RS", "string escapes written by the default printer are read back as the same byte (256 bytes)")
    n_esc = roundtrip.string_escapes(re_, lexpr, "r6rs")
    if n_esc is not None:
        re_.floor("escaped-bytes", n_esc)
    ra = ctx.rule("R-ARITY", "every collector method records exactly one element / entry on each successful path "
                            "(a field or element that is skipped cannot be deserialized again)")
    na = 0
    for k, term in sorted(terms.items()):
        m = k.rsplit("::", 1)[1]
        if m not in ("serialize_element", "serialize_field", "serialize_entry", "serialize_value"):
            continue
        na += 1
        alts = [a.strip() for a in term.split(" | ")]
        bad = [a for a in alts if a.count("push(") != 1]
        if bad:
            ra.violation("serde_lexpr::" + k, "arity",
                         "%s has a successful path that records %s element(s) instead of exactly one: `%s`"
                         % (k, "no" if bad[0].count("push(") == 0 else str(bad[0].count("push(")), bad[0]),
                         serde.fn(k).loc() if serde.fn(k) else None)
        else:
            ra.ok("%s pushes exactly one element on every successful path" % k, serde.fn(k))
    ra.floor("collector-methods", na)
    r2 = ctx.rule("R-WIDEN", "numeric serializer methods widen losslessly; number representations reach the visitor "
                             "method of their payload type")
    widen(r2, serde)
    want = {"Number(PosInt)": "visit_u64", "Number(NegInt)": "visit_i64", "Number(Float)": "visit_f64"}
    for m, a in sorted(acc.items()):
        if not (re.match(r"deserialize_[iuf]\d+$", m) or m == "deserialize_any"):
            continue
        bad = {k: a.get(k) for k, v in want.items() if a.get(k) != v}
        if bad:
            r2.violation("serde_lexpr::" + ss.DE + m, "number-visit",
                         "%s hands number representations to %s; expected %s" % (m, bad, want), serde.fn(ss.DE + m).loc())
        else:
            r2.ok("%s: PosInt->visit_u64, NegInt->visit_i64, Float->visit_f64" % m, serde.fn(ss.DE + m))
