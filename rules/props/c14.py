"""C14  Serialization produces the documented S-expression shapes.

  R-SHAPE-DOC   the constructor term returned (or pushed) by each of the 44 serializer / collector
                methods equals the term transcribed from the documentation (tables/serde_shapes.json);
                the accept map of every deserialize_* method over all Value kinds (incl. the three cdr
                shapes of a cons and the three number representations) equals the documented one
  R-ACCESS      ListAccess / MapAccess reject an improper tail and a non-pair entry with an error and
                advance by assignment on a proper one; VecAccess stops at the end
Not decided: shapes at depth >= 2 other than by composition of these level-one terms.
"""
import re

from .. import serde_shapes as ss
from ..report import load_table
from . import c18


def _norm(term):
    """Integer conversions are `From` widenings (lossy `as` casts are rejected by C04 R-WIDEN), so the integer type
    a value passes through on its way into Number does not change the value: from:i64(x) = from:u64(x) = the integer x."""
    return re.sub(r"from:[iu](8|16|32|64)\(", "from:int(", term)


def run(ctx):
    db = ctx.facts(["poly"])
    serde = db.crate("serde_lexpr")
    lexpr = db.crate("lexpr")
    ctx.explanation = (
        "Each serializer method is a small constructor expression; the rule extracts it as a term by abstract "
        "evaluation of the MIR with symbolic parameters (Value::cons/list/symbol/From calls become term constructors, "
        "recursive serialization becomes ser(x), Vec pushes are recorded) and compares it with the term transcribed from "
        "the crate documentation. Because every child goes through ser(x) = to_value, the level-one terms compose to the "
        "shape of any nested value. For the acceptance clause the complete map (method x input kind) -> visitor call / "
        "error is extracted the same way and compared with the documented one; the access objects' handling of improper "
        "tails is checked on the three cdr shapes.")
    ctx.trusted = ["rustc nightly MIR", "the transcription in tables/serde_shapes.json (reviewed against serde-lexpr/src/lib.rs)"]
    table = load_table("serde_shapes.json")
    r = ctx.rule("R-SHAPE-DOC", "serializer terms and deserializer accept maps equal the documented ones")
    got = ss.serializer_terms(serde, lexpr)
    r.floor("serializer-methods", len(got))
    # a documented method is the method of that trait: the type that implements it may be renamed or shared
    slot = lambda k: re.sub(r"^<.* as ", "<_ as ", k)
    by_slot = {}
    for k in got:
        by_slot.setdefault(slot(k), []).append(k)
    matched = set()
    for k, ent in sorted(table["serializer"].items()):
        g = got.get(k)
        if g is None and k.startswith("<") and len(by_slot.get(slot(k), [])) == 1 and by_slot[slot(k)][0] not in table["serializer"]:
            k2 = by_slot[slot(k)][0]
            g = got[k2]
            matched.add(k2)
            if serde.fn(k) is None:
                k = k2
        ctor = k.startswith(ss.SER) and k[len(ss.SER):] in ss.COMPOUND_CTOR.values()
        if g is None:
            r.violation(k, "method-missing", "serializer method %s no longer exists" % k)
        elif ctor and _norm(g) != _norm(ent["term"]) and re.match(r"^Ok\([\w:]+\(.*\)\)$", g) and "empty-vec" in g \
                and "ser(" not in g and "push" not in g and " | " not in g:
            # the constructor of a compound serializer only sets up a private collector (which private type, with which
            # fields, is not a documented shape): an empty element buffer, nothing serialized yet
            r.ok("%s sets up an empty collector: %s  [%s]" % (k.split(">::")[-1], g, ent["doc"]), serde.fn(k))
        elif _norm(g) == _norm(ent["term"]):
            r.ok("%s = %s  [%s]" % (k.split(">::")[-1], g, ent["doc"]), serde.fn(k))
        else:
            r.violation("serde_lexpr::" + k, "shape",
                        "%s now produces `%s`; the documented shape (%s) is `%s`" % (k, g, ent["doc"], ent["term"]),
                        serde.fn(k).loc() if serde.fn(k) else None)
    for k in sorted(set(got) - set(table["serializer"]) - matched):
        r.violation("serde_lexpr::" + k, "undocumented-method", "serializer method %s has no documented shape recorded" % k)
    acc = ss.deserializer_accepts(serde, lexpr)
    r.floor("deserializer-methods", len(acc))
    for m, want in sorted(table["deserializer"].items()):
        g = acc.get(m)
        if g is None:
            r.violation(ss.DE + m, "method-missing", "deserializer method %s no longer exists" % m)
            continue
        diff = {k: (g.get(k), v) for k, v in want.items() if g.get(k) != v}
        if not diff:
            r.ok("%s: accept map over %d input kinds as documented" % (m, len(want)), serde.fn(ss.DE + m))
        else:
            for k, (gv, wv) in sorted(diff.items()):
                r.violation("serde_lexpr::" + ss.DE + m, "accept:%s" % k,
                            "%s on a %s value now gives `%s`; documented behaviour is `%s`" % (m, k, gv, wv),
                            serde.fn(ss.DE + m).loc())
    c18.access_objects(ctx.rule("R-ACCESS", "list/map access objects reject improper tails and non-pair entries, "
                                            "and advance on proper ones"), serde, lexpr)
