"""C07  Every output sink receives exactly the printed text; write errors surface.

Decided (structural clauses, each a necessary condition of the behaviour):
  R-WRITEALL     the only way bytes can be lost on a short write is an
                 io::Write::write whose count is discarded -> no such call exists
                 outside `impl io::Write for .. { fn write }` forwarding bodies;
                 the only io::Write methods invoked on a sink are write_all /
                 write_fmt (+ flush passthrough).
  R-ERRDROP-IO   no io::Result is dropped or discarded on a normal path in the
                 printer, Display glue or serde-lexpr's writer front-ends.
  R-FMT-AGREE    CustomizedFormatter under Options::default() performs the same
                 sink operations (same callee, same constant bytes) as the trait's
                 default method, for every overridden method.
Not decided: byte-for-byte equality of whole outputs for arbitrary values.
"""
from .. import common, facts, lex, sim
from ..report import load_table
from ..sim import Adt, Bytes, Opq, UNK

W = "std::io::Write"


def writeall(ctx, lexpr, serde, floor_name="write_all-sites"):
    """R-WRITEALL (shared by C01/C02/C07): text reaches an io sink only through write_all / write_fmt."""
    r = ctx.rule("R-WRITEALL", "no io::Write::{write,write_vectored} call whose count can be ignored; "
                               "sink methods limited to write_all/write_fmt/flush")
    n_write_all = 0
    n_sink_calls = 0
    for crate in (lexpr, serde):
        fwd = common.sink_forwarders(crate)
        for fn, bi, t in common.iter_calls(crate):
            c = t["callee"]
            if (c.get("resolved") or c.get("path")) in fwd:
                # a call of a local helper that only forwards to write_all counts as the write_all it performs
                n_write_all += 1
                r.ok("%s::%s: write_all through %s" % (crate.name, fn.path, c.get("path")), fn, t.get("line"))
                continue
            if c.get("trait") != W and c.get("impl_of_trait") != W:
                continue
            m = c.get("method")
            n_sink_calls += 1
            where = "%s::%s" % (crate.name, fn.path)
            if m in ("write", "write_vectored"):
                forwarding = fn.impl_trait == W and fn.path.endswith("::" + m) and fn.kind == "assoc"
                if forwarding:
                    r.ok("%s forwards %s (count returned to caller)" % (where, m), fn, t.get("line"))
                else:
                    r.violation(where, "%s::%s" % (W, m),
                                "%s calls io::Write::%s; its byte count is not a completion guarantee, so a sink "
                                "that accepts fewer bytes per call silently loses output (use write_all)" % (where, m),
                                fn.loc(t.get("line")))
            elif m == "write_all":
                n_write_all += 1
                r.ok("%s: write_all" % where, fn, t.get("line"))
            elif m == "write_fmt":
                r.ok("%s: write_fmt (write! macro; loops on write_all)" % where, fn, t.get("line"))
            elif m == "flush":
                if fn.impl_trait == W and fn.path.endswith("::flush"):
                    r.ok("%s: flush passthrough" % where, fn, t.get("line"))
                else:
                    r.ok("%s: flush" % where, fn, t.get("line"))
            else:
                r.violation(where, "%s::%s" % (W, m),
                            "%s uses io::Write::%s, which is outside the audited sink-method set "
                            "{write_all, write_fmt, flush}" % (where, m), fn.loc(t.get("line")))
    r.note("io::Write call sites examined: %d (write_all: %d)" % (n_sink_calls, n_write_all))
    r.floor(floor_name, n_write_all)



def run(ctx):
    db = ctx.facts(["poly"])
    lexpr = db.crate("lexpr")
    serde = db.crate("serde_lexpr")
    ctx.explanation = (
        "Static rules over the type-checked MIR of lexpr and serde-lexpr (all functions, including closures, "
        "macro-generated and derived bodies). R-WRITEALL: every call whose callee is io::Write::write / "
        "write_vectored is reported unless it is the forwarding body of an `impl io::Write` write method; with "
        "write_all as the only emission primitive, a short-writing sink cannot lose, duplicate or reorder bytes and a "
        "zero-length acceptance becomes WriteZero, for every value and every write schedule. R-ERRDROP-IO: no "
        "io::Result is dropped/discarded. R-FMT-AGREE: constant propagation of Options::default() through each "
        "CustomizedFormatter override yields the same sink-call sequence as the trait default method. "
        "The behaviour (byte equality of outputs) is not decided, only these necessary structural conditions.")
    ctx.trusted = ["rustc nightly MIR construction", "std::io::Write::write_all / write_fmt contracts",
                   "itoa/ryu return complete text"]
    ctx.assumptions = ["sinks implement io::Write per its documented contract"]

    writeall(ctx, lexpr, serde, "write_all-sites")

    # ---------------------------------------------------------------- R-ERRDROP-IO
    r2 = ctx.rule("R-ERRDROP-IO", "no io::Error-carrying value dropped or discarded on a normal path in the "
                                  "print path")
    exc = load_table("errdrop.json").get("C07", {})
    n = common.errdrop_scan(
        r2, lexpr, lambda f: common.in_file(f, "lexpr/src/print.rs", "lexpr/src/value/mod.rs"),
        ("std::io::Error",), exc, "a sink's write error")
    n += common.errdrop_scan(
        r2, serde, lambda f: common.in_file(f, "serde-lexpr/src/ser.rs"),
        ("std::io::Error", "error::Error"), exc, "a sink's write error", scope_gone=False)
    r2.note("`?` propagation sites on io::Result in the print path: %d" % n)
    r2.floor("io-propagation-sites", n)

    # ---------------------------------------------------------------- R-NO-BUFFER
    r3 = ctx.rule("R-NO-BUFFER", "the print path does not interpose a buffering writer whose pending bytes are flushed "
                                 "(and whose flush error is discarded) in Drop")
    nb = 0
    for crate in (lexpr, serde):
        for fn in crate.fns:
            if not common.in_file(fn, "lexpr/src/print.rs", "lexpr/src/value/mod.rs", "serde-lexpr/src/ser.rs"):
                continue
            made = []
            flushed = False
            for bi, t in fn.calls():
                p_ = t["callee"].get("path", "")
                if p_.startswith("std::io::BufWriter::<W>::") and p_.rsplit("::", 1)[1] in ("new", "with_capacity") or \
                        p_.startswith("std::io::LineWriter::<W>::") and p_.rsplit("::", 1)[1] in ("new", "with_capacity"):
                    made.append((bi, t))
                names = facts.callee_names(t)
                if "std::io::Write::flush" in names or p_.endswith("BufWriter::<W>::into_inner") or p_.endswith("into_parts"):
                    flushed = True
            for bi, t in made:
                nb += 1
                if flushed:
                    r3.ok("%s::%s buffers the sink and flushes it explicitly" % (crate.name, fn.path), fn, t.get("line"))
                else:
                    r3.violation("%s::%s" % (crate.name, fn.path), "buffered-sink-not-flushed",
                                 "%s wraps the sink in a buffering writer and never flushes it: the bytes still pending "
                                 "at return are written in Drop, where a write error is silently discarded, so a failing "
                                 "sink makes the print call report success" % fn.path, fn.loc(t.get("line")))
    # drops of buffering writers anywhere on the print path (constructed elsewhere) are equally lossy
    for crate in (lexpr, serde):
        for fn in crate.fns:
            if not common.in_file(fn, "lexpr/src/print.rs", "serde-lexpr/src/ser.rs"):
                continue
            for b in fn.blocks:
                t = b["term"]
                if t["k"] == "drop" and not b.get("cleanup") and ("std::io::BufWriter<" in t["ty"] or "std::io::LineWriter<" in t["ty"]):
                    flushed = any("std::io::Write::flush" in facts.callee_names(t2) or
                                  t2["callee"].get("path", "").endswith("into_inner") for _, t2 in fn.calls())
                    if not flushed:
                        r3.violation("%s::%s" % (crate.name, fn.path), "buffered-sink-dropped",
                                     "%s drops a %s without flushing it first" % (fn.path, t["ty"]), fn.loc(t.get("line")))
    if nb == 0:
        r3.ok("no buffering writer is interposed anywhere on the print path")

    # ---------------------------------------------------------------- R-FMT-AGREE
    fmt_agree(ctx, lexpr)
    if ctx.tier == "thorough":
        from .. import selftest
        rs = ctx.rule("CONTROLS", "positive controls: the detectors fire on the seeded fixtures crate")
        selftest.check_write(ctx, rs)
        selftest.check_errdrop(ctx, rs)


def sink_trace(path):
    """Sequence of sink-relevant events of an abstract path."""
    out = []
    for e in path.events:
        if e[0] != "call":
            continue
        names = e[1]
        args = e[6]
        nm = None
        for n in sorted(names):
            if n.startswith("std::io::Write::") or n.startswith("print::"):
                nm = n
                break
        if nm is None:
            continue
        consts = []
        for a in args:
            if isinstance(a, Bytes):
                consts.append(bytes(a.b))
            elif isinstance(a, int):
                consts.append(a)
            elif isinstance(a, Adt) and not a.fields:
                consts.append("%s#%d" % (a.adt, a.variant))
        out.append((nm, tuple(consts)))
    return tuple(out)


def fmt_agree(ctx, lexpr):
    r = ctx.rule("R-FMT-AGREE", "each CustomizedFormatter override, specialised to Options::default(), performs "
                                "the same sink operations as the Formatter trait's default method")
    dflt = lexpr.fn("<print::Options as std::default::Default>::default")
    if dflt is None:
        r.anchor_missing("<print::Options as Default>::default")
        return
    # the literal may live in a constructor of the options type that `default()` calls (`Options::new()`)
    S0 = sim.Sim([lexpr], inline=lambda a, b: b.crate == lexpr.name and b.kind != "closure"
                 and (b.self_ty or "").startswith("print::Options") or b.path.startswith("print::Options::"))
    ps = S0.run(dflt)
    if len(ps) != 1 or not isinstance(ps[0].ret, Adt):
        r.anchor_missing("print::Options::default() is not a single constant aggregate")
        return
    defaults = ps[0].ret
    fields = [f["name"] for f in lexpr.adts["print::Options"]["variants"][0]["fields"]]
    dmap = dict(zip(fields, defaults.fields))

    def opaque(o):
        if len(o.path) >= 2 and o.path[-2] == "options" and o.path[-1] in dmap:
            return dmap[o.path[-1]]
        return None

    overrides = [f for f in lexpr.fns
                 if f.kind == "assoc" and f.self_ty == "print::CustomizedFormatter" and f.impl_trait == "print::Formatter"]
    r.floor("overrides", len(overrides))
    fwd = common.sink_forwarders(lexpr)
    inl = lex.print_inline(lexpr)
    for cf in overrides:
        m = cf.path.rsplit("::", 1)[1]
        df = lexpr.fn("print::Formatter::" + m)
        if df is None:
            r.anchor_missing("trait default method print::Formatter::" + m)
            continue
        # enumerate small finite parameter domains (bool / fieldless enum), others stay opaque
        combos = [dict()]
        for i in range(1, cf.arg_count + 1):
            ty = cf.local_ty(i)
            vals = None
            if ty == "bool":
                vals = [0, 1]
            elif ty in lexpr.adts and lexpr.adts[ty]["kind"] == "enum" and \
                    all(not v["fields"] for v in lexpr.adts[ty]["variants"]):
                vals = [Adt(ty, v["idx"], []) for v in lexpr.adts[ty]["variants"]]
            if vals:
                combos = [dict(list(c.items()) + [(i, v)]) for c in combos for v in vals]
        # a character / octet parameter is a ranged quantity: comparisons against constants split the range per
        # path, and the two methods are compared range by range
        ranged = [i for i in range(1, cf.arg_count + 1) if cf.local_ty(i) in ("char", "u8")]
        for args in combos:
            Sc = sim.Sim([lexpr], hooks={"opaque": opaque}, inline=inl)
            Sd = sim.Sim([lexpr], inline=inl)
            rng_c = rng_d = None
            ac, ad = dict(args), dict(args)
            if len(ranged) == 1:
                hi = 0x10FFFF if cf.local_ty(ranged[0]) == "char" else 0xFF
                rng_c, rng_d = sim.Rng(0, hi), sim.Rng(0, hi)
                ac[ranged[0]], ad[ranged[0]] = rng_c, rng_d
            try:
                pc = Sc.run(cf, args=ac)
                pd = Sd.run(df, args=ad)
            except sim.Limit:
                r.violation(cf.path, "inexact", "path limit while specialising %s" % cf.path)
                continue
            if rng_c is not None:
                bad = _compare_ranged(pc, pd, rng_c, rng_d)
                desc = "%s(%s)" % (m, ",".join(repr(v) for v in args.values()))
                if bad is None:
                    r.ok("%s: identical sink traces on every sub-range of the %s argument" % (desc, cf.local_ty(ranged[0])), cf)
                else:
                    lo, hi, tcs, tds = bad
                    r.violation(cf.path, "default-options:%s" % desc,
                                "CustomizedFormatter::%s with Options::default() and an argument in %#x..=%#x performs %s but "
                                "the default formatter performs %s" % (desc, lo, hi, short(tcs), short(tds)), cf.loc())
                continue
            tc = sorted(set(sink_trace(p) for p in pc if p.end in ("return",)))
            td = sorted(set(sink_trace(p) for p in pd if p.end in ("return",)))
            # error-exit prefixes: a trace that is a proper prefix of another is the `?` early return
            tc = maximal(tc)
            td = maximal(td)
            desc = "%s(%s)" % (m, ",".join(repr(v) for v in args.values()))
            if tc == td and tc:
                r.ok("%s: identical sink trace %s" % (desc, short(tc)), cf)
            else:
                # closures passed to helpers differ by identity; compare modulo closure args (already dropped)
                r.violation(cf.path, "default-options:%s" % desc,
                            "CustomizedFormatter::%s with Options::default() performs %s but the default "
                            "formatter performs %s" % (desc, short(tc), short(td)), cf.loc())
    # closures handed to write_scheme_vector by the two write_bytes must use the same sink method
    def closure_sink_methods(owner):
        out = []
        for c in lexpr.closures_of(owner):
            for bi, t in c.calls():
                cal = t["callee"]
                if (cal.get("resolved") or cal.get("path")) in fwd:
                    out.append("write_all")
                elif cal.get("trait") == W:
                    out.append(cal.get("method"))
        return sorted(out)
    a = closure_sink_methods("print::Formatter::write_bytes")
    b = closure_sink_methods("<print::CustomizedFormatter as print::Formatter>::write_bytes")
    b_scheme = [m for m in b]
    if not a and not b_scheme:
        r.ok("write_bytes passes no element closures that write to the sink (element writers are compared by the traces above)")
    elif a and set(a) <= set(b_scheme):
        r.ok("write_bytes element closures use the same sink methods %s" % a)
    else:
        r.violation("print::Formatter::write_bytes", "closure-sink-methods",
                    "default write_bytes element closure uses sink methods %s, customised one uses %s" % (a, b))


def _compare_ranged(pc, pd, rng_c, rng_d):
    """Compare two path sets range by range of a ranged argument: for each elementary sub-range (between the bounds
    any path refined the argument to) the sets of maximal sink traces must agree.  Returns None or
    (lo, hi, traces of the first, traces of the second) for the first differing sub-range."""
    def rows(paths, rng):
        out = []
        for p in paths:
            if p.end != "return":
                continue
            x = rng
            for memo in p.memos:
                x = memo.get(id(x), x)
            out.append((x.lo, x.hi, sink_trace(p)))
        return out
    rc, rd = rows(pc, rng_c), rows(pd, rng_d)
    cuts = sorted({lo for lo, _, _ in rc + rd} | {hi + 1 for _, hi, _ in rc + rd})
    for a, b in zip(cuts, cuts[1:]):
        tc = maximal(sorted({t for lo, hi, t in rc if lo <= a and b - 1 <= hi}))
        td = maximal(sorted({t for lo, hi, t in rd if lo <= a and b - 1 <= hi}))
        if tc != td:
            return (a, b - 1, tc, td)
    return None


def maximal(traces):
    out = []
    for t in traces:
        if any(o != t and o[:len(t)] == t for o in traces):
            continue
        out.append(t)
    return out


def short(traces):
    s = []
    for t in traces:
        s.append("[" + "; ".join("%s%s" % (n.rsplit("::", 1)[1], list(c)) for n, c in t) + "]")
    return " | ".join(s) if s else "(nothing)"
